"""C03 - optimisation passes keep IR well-formed."""

import traceback

from hypothesis import strategies as st

from .. import genir, irwf
from ..core import Discard, HarnessError, Stats, hyp_search, subseed
from ..irpasses import PASS_NAMES, innermost_ppci_frame, make_pass

PID = "C03"
RULE = (
    "Hypothesis-generated IR modules (vf/genir.py: random CFGs with loops, phis, allocas, loads/stores, calls, "
    "tail-recursive functions, globals) x a pass sequence of length 1..12 drawn from the optimizer pipeline; after "
    "EVERY pass ppci.irutils.verify_module must not raise and the independent checker vf/irwf.py must report nothing "
    "(one terminator, reachability, predecessor/reference agreement, def-use symmetry, dominance, phi inputs == "
    "predecessors, types); any exception from a pass is a failure. non-trivial = at least one pass changed the module; "
    "distinct = (module, pass sequence)"
)
ASSUMPTIONS = ["generated input modules are checked with the same predicate first (a failure there is a harness error)"]
TRUSTED = ["CPython", "Hypothesis", "vf/irwf.py (independent well-formedness checker)", "vf/genir.py"]
REGISTER = True
TECHNIQUE = "Hypothesis-generated IR modules x pass sequences; validity predicate (own dominance/def-use/phi checker) after every pass"
LEVEL_TEXT = (
    "Exploration: thousands of generated well-formed modules, each run through single passes and random pass sequences, "
    "with an independent well-formedness predicate evaluated after every individual pass. A pass is a pure function of the "
    "module, so generated-input search with a validity oracle is the fitting level; no bound is closed."
)


def run_case(case):
    """Returns (failure message | None, changed?)."""
    desc, passes = case["module"], case["passes"]
    try:
        m = genir.build(desc)
    except Exception:
        raise HarnessError("generator produced an unbuildable module:\n" + traceback.format_exc())
    from ppci.irutils import verify_module

    pre = irwf.check_module(m)
    if pre:
        raise HarnessError("generated module is not well formed: %s" % pre[:3])
    verify_module(m)
    changed = False
    for k, pn in enumerate(passes):
        before = irwf.dump(m)
        try:
            make_pass(pn).run(m)
        except Exception as e:
            return ("pass #%d %s raised %s: %s [%s]" % (k, pn, type(e).__name__, e, innermost_ppci_frame(e)), changed)
        if irwf.dump(m) != before:
            changed = True
        probs = irwf.check_module(m)
        if probs:
            return ("after pass #%d %s the module is not well formed: %s" % (k, pn, "; ".join(probs[:3])), changed)
        try:
            verify_module(m)
        except Exception as e:
            return ("after pass #%d %s verify_module raises %s: %s" % (k, pn, type(e).__name__, e), changed)
    return (None, changed)


def replay(case):
    return run_case(case)[0]


def classify(case, msg):
    return None


def case_strategy(profile):
    seqs = st.one_of(
        st.sampled_from(PASS_NAMES).map(lambda p: [p]),
        st.lists(st.sampled_from(PASS_NAMES), min_size=2, max_size=12),
        st.just(PASS_NAMES[:8] * 2),
    )
    return st.builds(lambda m, p: {"module": m, "passes": p}, genir.modules(profile), seqs)


PROFILE = genir.Profile(name="c03", undef=True, constexpr_pct=4, spin_cycle_pct=8, late_allocs=True, loop_local_pct=8, dup_args_pct=20)


def _worker(arg):
    seed, n = arg
    stats = Stats()

    def prop(case):
        msg, changed = run_case(case)
        stats.case((case["passes"], genir.count_instructions(case["module"]), str(case["module"])[:2000]) if changed else None, changed,
                   {"passes": case["passes"], "instructions": genir.count_instructions(case["module"]),
                    "first_function": case["module"]["functions"][0]} if changed else None,
                   classes=["len%d" % min(len(case["passes"]), 3)] + (["single:" + case["passes"][0]] if len(case["passes"]) == 1 else []))
        return msg

    fails = hyp_search(case_strategy(PROFILE), prop, n, seed, stats, classify=classify)
    return stats, fails


def run(ctx):
    n = ctx.scale(2400, 120000)
    ctx.pmap(_worker, [(subseed(ctx.seed, PID, w), n // 16) for w in range(16)])
