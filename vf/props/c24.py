"""C24 - IR to Python backend executes IR semantics exactly."""

import importlib.util
import io
import math
import struct
import time
import traceback

from hypothesis import strategies as st

from .. import genir, irsem, irsem_selfcheck
from ..core import Discard, HarnessError, Stats, hyp_search, jhash, load_findings, subseed

PID = "C24"
RULE = (
    "Hypothesis-generated IR modules (vf/genir.py, full menu, 32-bit pointers = the pointer size of the generated "
    "runtime, plus allocas outside the entry block) x 1..3 argument vectors per function; ir_to_python output is "
    "compiled and exec'ed in a fresh namespace per call, externals are Python callables implementing irsem.ext_default; "
    "observation = (return value, bytes of every global and caller buffer, external call trace) compared with the "
    "reference interpreter vf/irsem.py run under three address layouts (two of irsem's own and one that mimics the "
    "generated runtime: heap at 0x10000000, stack from 0, function pointers = table indices); whatever differs between "
    "the layouts is address dependent and not compared; reference executions that are undefined are discarded; "
    "ir_to_python raising NotImplementedError is counted as rejected per instruction kind. "
    "Plus an enumerated operator table (seed independent): one micro-module per (binary/unary operator, type), "
    "(cast source, destination), (condition, type) and (store type, load type), each called on the cross product of "
    "boundary operands (about 300 modules, 36 000 calls). Calls the reference leaves undefined for an arithmetic reason "
    "(MIN / -1, x / 0, out-of-range shift/rotate count, float->int out of range) are not compared but range-checked: if the "
    "generated code returns a value for an integer-typed function it must be a value of that type (an exception is accepted). "
    "non-trivial = a defined call was compared and the module contains an integer / % << >>, a float<->int cast or a phi "
    "(table: a defined call was compared); distinct = (module, calls)"
)
ASSUMPTIONS = [
    "IR semantics as written down in DESIGN.md 3.1 (vf/irsem.py); pointer size 4 (the generated runtime packs ptr as 4 bytes)",
    "external routines have no memory effects and return a value that depends only on (name, arguments, call index)",
    "termination of the generated code is decided by a block-transition budget of 4x the reference's step count + 1000 "
    "(the generated 'while True:' dispatcher is rewritten to 'while _vf_tick():', nothing else is touched)",
]
TRUSTED = ["CPython", "Hypothesis", "vf/irsem.py (reference interpreter)", "vf/genir.py"]
REGISTER = True
TECHNIQUE = "differential: reference IR interpreter vs exec of the generated Python on Hypothesis-generated modules and boundary-biased arguments, plus an enumerated operator/cast/compare/memory table"
LEVEL_TEXT = (
    "Exploration with an independent reference oracle: for every generated module each function is executed on boundary-biased "
    "argument vectors by the reference interpreter and by the Python code ir_to_python emits; return value, final memory of "
    "globals/buffers and the external call trace must agree; every operator, cast, comparison and memory access type is "
    "additionally enumerated over boundary operands. The translation is a pure function of the module, so "
    "generated-input search is the fitting level; no bound is closed."
)

HEAP_START = 0x10000000
FUEL = 6000
SHRINK_S = 40  # wall-clock cap on Hypothesis' shrink phase per worker (safety net, DESIGN 2.2)


# ---------------------------------------------------------------------------
# private, instrumented instance of the reference interpreter (same source file as vf/irsem.py; the
# shared module object is left untouched).  The instrumentation records which value-level situations an
# execution went through (EVENTS) and can switch on *models of known defects* (MODEL) for classify().


def _private_irsem():
    spec = importlib.util.spec_from_file_location("vf._irsem_c24", irsem.__file__)
    mod = importlib.util.module_from_spec(spec)
    spec.loader.exec_module(mod)
    return mod


irx = _private_irsem()
EVENTS = set()
MODEL = {"round": False, "nof32": False}

_orig_float_to_int = irx.float_to_int
_orig_round_f32 = irx.round_f32
_orig_float_div = irx.float_div
_orig_int_to_float = irx.int_to_float


def _finite(x):
    return x == x and x not in (math.inf, -math.inf)


def _x_float_to_int(x, bits, signed):
    if _finite(x) and round(x) != math.trunc(x):
        EVENTS.add("f2i_round")
        if MODEL["round"]:
            _orig_float_to_int(x, bits, signed)  # same domain (raises Undef when out of range)
            return irx.norm_int(int(round(x)), bits, signed)
    return _orig_float_to_int(x, bits, signed)


def _x_round_f32(x):
    r = _orig_round_f32(x)
    if _finite(x) and r != x:
        EVENTS.add("f32_inexact")
        if MODEL["nof32"]:
            return x
    return r


def _x_int_to_float(v, fbits):
    r = _orig_int_to_float(v, fbits)
    if fbits == 32 and r != float(v):
        EVENTS.add("f32_inexact")
        if MODEL["nof32"]:
            return float(v)
    return r


def _x_float_div(a, b):
    if b == 0:
        EVENTS.add("fdiv0")
    return _orig_float_div(a, b)


irx.float_to_int = _x_float_to_int
irx.round_f32 = _x_round_f32
irx.int_to_float = _x_int_to_float
irx.float_div = _x_float_div


class PyLayoutMachine(irx.Machine):
    """The reference interpreter under the address layout of the generated runtime."""

    def __init__(self, module, fuel, ext=None):
        from ppci import ir

        self._py_heap = HEAP_START
        self._py_lit = {}
        off = HEAP_START + sum(self._var_len(v) for v in module.variables)
        for f in module.functions:
            for block in f.blocks:
                for ins in block:
                    if isinstance(ins, ir.LiteralData):
                        self._py_lit[id(ins)] = off
                        off += len(ins.data)
        self._py_end = off
        super().__init__(module, ptr_bits=32, little=True, layout=0, fuel=fuel, ext=ext)
        self.s_next = 0
        self.funcs = {}
        self.func_addr = {}
        idx = 1
        for f in list(module.functions) + [e for e in module.externals if isinstance(e, ir.ExternalSubRoutine)]:
            self.funcs[idx] = f
            self.func_addr[f.name] = idx
            idx += 1

    @staticmethod
    def _var_len(v):
        if v.value:
            return sum(len(p) if isinstance(p, bytes) else 4 for p in v.value)
        return v.amount

    def _place(self, kind, size, alignment, name, ref=None):
        import bisect

        if kind == "global":
            base = self._py_heap
            self._py_heap += self._var_len(ref)
        elif kind == "alloca":
            base = self.s_next
            self.s_next += size
        elif kind == "buffer":
            base = self._py_end
            self._py_end += size
        else:
            base = self._py_lit[id(ref)]
        obj = irx.Obj(base, size, name, kind, ref)
        i = bisect.bisect_left(self.bases, base)
        self.bases.insert(i, obj.base)
        self.objs.insert(i, obj)
        return obj


def reference(module, fname, args, bufs, ext=None):
    """Observation masked for address dependence (three layouts) + events + step count.  Raises irx.Undef/Unsupported."""
    EVENTS.clear()
    out = []
    steps = 0
    for layout in (0, 1, "py"):
        if layout == "py":
            m = PyLayoutMachine(module, FUEL, ext)
        else:
            m = irx.Machine(module, 32, True, layout, FUEL, ext)
        addrs = [m.new_buffer(bytes(b)) for b in bufs]
        ret = m.call(fname, [addrs[a[1]] if isinstance(a, tuple) else a for a in args])
        steps = max(steps, m.fuel0 - m.fuel)
        out.append(m.observe(ret))
    ab = irx.merge_layouts(out[0], out[1])
    # merge_layouts masks where its two arguments differ; fold the third layout in by merging it with both
    ac = irx.merge_layouts(out[0], out[2])
    merged = _and_masks(ab, ac)
    return merged, set(EVENTS), steps


def _and_masks(x, y):
    res = {"ret": x["ret"] if x["ret"] == y["ret"] else "ADDR", "globals": {}, "buffers": [], "trace": []}
    for name in x["globals"]:
        res["globals"][name] = _mask2(x["globals"][name], y["globals"][name])
    res["buffers"] = [_mask2(a, b) for a, b in zip(x["buffers"], y["buffers"])]
    for (n, xa), (_, xb) in zip(x["trace"], y["trace"]):
        res["trace"].append([n, [p if p == q else "ADDR" for p, q in zip(xa, xb)]])
    return res


def _mask2(a, b):
    if a == b:
        return a
    return "".join(a[i : i + 2] if a[i : i + 2] == b[i : i + 2] else "??" for i in range(0, len(a), 2))


# ---------------------------------------------------------------------------
# the generated code


class GenFailure(Exception):
    def __init__(self, stage, exc, detail=""):
        super().__init__("%s: %s" % (stage, exc))
        self.stage = stage
        self.exc = exc
        self.detail = detail


class _PyFuel(Exception):
    pass


def translate(module):
    """ir.Module -> (code object, source).  Raises Discard for 'not implemented', GenFailure otherwise."""
    from ppci.api import ir_to_python

    f = io.StringIO()
    try:
        ir_to_python([module], f)
    except NotImplementedError as e:
        what = str(e) or _ni_site(e)
        raise Discard("rejected: " + what.replace("<class 'ppci.ir.", "").replace("'>", ""))
    except Exception as e:
        raise GenFailure("ir_to_python raised", e, _frames(e))
    src = f.getvalue()
    src = "\n".join(l for l in src.split("\n") if not l.startswith("# Automatically generated on"))
    run_src = src.replace("while True:", "while _vf_tick():")
    try:
        code = compile(run_src, "<ir2py>", "exec")
    except SyntaxError as e:
        raise GenFailure("generated code does not compile", e, (e.text or "").strip())
    return code, src


def _ni_site(e):
    tb = traceback.extract_tb(e.__traceback__)
    return "NotImplementedError in %s" % tb[-1].name if tb else "NotImplementedError"


def _frames(e):
    tb = traceback.extract_tb(e.__traceback__)
    return " <- ".join("%s:%s" % (fr.name, (fr.line or "").strip()) for fr in reversed(tb[-3:]))


def _obsval(v):
    if isinstance(v, float):
        if v != v:
            return "nan"
        return "f:" + struct.pack(">d", v).hex()
    if isinstance(v, bool):
        return repr(v)
    return v


def run_generated(code, module, fname, args, bufs, budget):
    """Execute one call in a fresh namespace.  Returns the observation; raises GenFailure."""
    from ppci import ir

    fuel = [budget]

    def tick():
        fuel[0] -= 1
        if fuel[0] < 0:
            raise _PyFuel()
        return True

    ns = {"__name__": "irpy_gen", "_vf_tick": tick}
    try:
        exec(code, ns)
    except Exception as e:
        raise GenFailure("module-level code raised", e, _frames(e))
    rt = ns["rt"]
    trace = []

    def make_ext(e):
        rty = e.return_ty if isinstance(e, ir.ExternalFunction) else None

        def ext(*a):
            idx = len(trace)
            trace.append((e.name, tuple(a)))
            if rty is None:
                return None
            try:
                r = irsem.ext_default(e.name, list(a), idx, rty)
            except Exception:
                return 0  # argument of a wrong kind: the trace comparison reports it
            if isinstance(rty, ir.FloatingPointTyp):
                return float(r)
            return irsem.norm_int(r, rty.bits, rty.is_signed) if rty is not ir.ptr else r

        return ext

    for e in module.externals:
        if isinstance(e, ir.ExternalSubRoutine):
            rt.register_function(e.name, make_ext(e))
    addrs = []
    for b in bufs:
        addrs.append(rt.heap_top())
        rt.heap.extend(bytes(b))
    pyargs = [addrs[a[1]] if isinstance(a, tuple) else a for a in args]
    try:
        ret = ns[fname](*pyargs)
    except _PyFuel:
        raise GenFailure("generated code does not terminate", "more than %d block transitions" % budget)
    except RecursionError as e:
        raise GenFailure("generated code raised", e, "")
    except Exception as e:
        raise GenFailure("generated code raised", e, _frames(e))
    obs = {"ret": _obsval(ret), "globals": {}, "buffers": [], "trace": []}
    heap = rt.heap
    for v in module.variables:
        a = rt.externals[v.name] - HEAP_START
        obs["globals"][v.name] = bytes(heap[a : a + v.amount]).hex()
    for a, b in zip(addrs, bufs):
        obs["buffers"].append(bytes(heap[a - HEAP_START : a - HEAP_START + len(b)]).hex())
    obs["trace"] = [[n, [_obsval(x) for x in a]] for n, a in trace]
    return obs


# ---------------------------------------------------------------------------
# known findings: the event that triggers each (dynamic exclusion) / the profile flag (exclusion by construction)

KF_ROUND = "C24-KF1"  # float->int cast rounds half-even instead of truncating
KF_F32 = "C24-KF2"  # f32 results are not rounded to single
KF_NAN = "C24-KF3"  # nan constant printed as a bare name
KF_ROT = "C24-KF4"  # rol/ror emitted as infix operators
KF_FDIV0 = "C24-KF5"  # float division by zero raises
KF_PHI = "C24-KF6"  # phis of every successor are assigned, also on the edge not taken
KF_FREE = "C24-KF7"  # rt.free(static byte count)

EVENT_OF = {"f2i_round": KF_ROUND, "f32_inexact": KF_F32, "fdiv0": KF_FDIV0}


def open_ids():
    import os

    if os.environ.get("VERIF_C24_NOEXCL"):
        return set()
    return {e["id"] for e in load_findings(PID) if e.get("status") == "open"}


def all_ins(desc):
    for f in desc["functions"]:
        for b in f["blocks"]:
            for ins in b["ins"]:
                yield f, b, ins


def entry_blocks(f):
    return f["blocks"][:2] if f.get("tailrec") else f["blocks"][:1]


def features(desc):
    feats = set()
    for f in desc["functions"]:
        tys = dict((p[0], p[1]) for p in f["params"])
        for b in f["blocks"]:
            for ins in b["ins"]:
                if ins[0] in ("const", "binop", "unop", "cast", "load", "call", "undef", "phi") and ins[1]:
                    tys[ins[1]] = ins[2]
        phib = set(b["name"] for b in f["blocks"] if b["ins"] and b["ins"][0][0] == "phi")
        entry = [id(b) for b in entry_blocks(f)]
        for b in f["blocks"]:
            for ins in b["ins"]:
                k = ins[0]
                if k == "binop" and not genir.is_float(ins[2]) and ins[2] != "ptr" and ins[4] in ("/", "%", "<<", ">>"):
                    feats.add("int" + ins[4])
                elif k == "binop" and ins[4] in ("rol", "ror"):
                    feats.add("rotate")
                elif k == "binop" and genir.is_float(ins[2]):
                    feats.add("float" + ins[4])
                elif k == "cast":
                    s, d = tys.get(ins[3], "ptr"), ins[2]
                    if s != "ptr" and d != "ptr" and genir.is_float(s) != genir.is_float(d):
                        feats.add("cast:float->int" if genir.is_float(s) else "cast:int->float")
                    elif s != "ptr" and d != "ptr" and not genir.is_float(s) and s != d:
                        feats.add("cast:int->int")
                elif k == "const" and isinstance(ins[3], str) and genir.unfhex(ins[3]) != genir.unfhex(ins[3]):
                    feats.add("nan_const")
                elif k == "phi":
                    feats.add("phi")
                elif k == "alloc" and id(b) not in entry:
                    feats.add("late_alloc")
                elif k == "cjmp" and ins[4] != ins[5] and (ins[4] in phib or ins[5] in phib):
                    feats.add("phi_on_branch_edge")
    return feats


NONTRIVIAL = {"int/", "int%", "int<<", "int>>", "cast:float->int", "cast:int->float", "phi"}


def split_phi_edges(desc):
    """Semantics-preserving: every edge from a two-way branch into a block with phis gets its own empty block.
    Returns (new description, number of edges split)."""
    import copy

    desc = copy.deepcopy(desc)
    n = 0
    for f in desc["functions"]:
        byname = {b["name"]: b for b in f["blocks"]}
        phib = set(b["name"] for b in f["blocks"] if b["ins"] and b["ins"][0][0] == "phi")
        new = []
        for b in list(f["blocks"]):
            t = b["ins"][-1]
            if t[0] != "cjmp" or t[4] == t[5]:
                continue
            for pos in (4, 5):
                tgt = t[pos]
                if tgt not in phib:
                    continue
                e = "%s_e%d" % (b["name"], pos)
                new.append({"name": e, "ins": [["jmp", tgt]]})
                t[pos] = e
                for ins in byname[tgt]["ins"]:
                    if ins[0] == "phi" and b["name"] in ins[3]:
                        ins[3][e] = ins[3].pop(b["name"])
                n += 1
        if new:
            base = len(f["blocks"])
            f["blocks"] = f["blocks"] + new
            f["layout"] = list(f.get("layout") or range(base)) + list(range(base, base + len(new)))
    return desc, n


def hoist_allocs(desc):
    """Move every alloc to the top of the entry block (no defined execution can tell, see notes/C24.md)."""
    import copy

    desc = copy.deepcopy(desc)
    for f in desc["functions"]:
        moved = []
        for b in f["blocks"]:
            if b is f["blocks"][0]:
                continue
            keep = []
            for ins in b["ins"]:
                (moved if ins[0] == "alloc" else keep).append(ins)
            b["ins"] = keep
        f["blocks"][0]["ins"] = moved + f["blocks"][0]["ins"]
    return desc


# Executions the reference leaves undefined for an arithmetic reason are not compared, but "fixed-width" still binds
# them: IF the generated code returns a value for an integer-typed function, the value is one of that type.  An
# exception (x / 0 -> ZeroDivisionError, int(nan)) or running out of budget is acceptable (= undefined).
WEAK_REASONS = {
    "MIN / -1",
    "division by zero",
    "shift count out of range",
    "rotate count out of range",
    "float->int out of range",
    "float->int of nan/inf",
}


def weak_range_check(code, module, f, fname, jargs, args, bufs, reason, index, stats):
    if reason not in WEAK_REASONS or f["ret"] not in genir.INT_TYPES:
        return None
    try:
        got = run_generated(code, module, fname, args, bufs, 4 * FUEL + 1000)
    except GenFailure:
        if stats is not None:
            stats.hist["weak_range:raised_or_budget"] += 1
        return None
    if stats is not None:
        stats.hist["weak_range:checked"] += 1
    ret = got["ret"]
    lo, hi = genir.int_range(f["ret"])
    if isinstance(ret, int) and not isinstance(ret, bool) and lo <= ret <= hi:
        return None
    msg = "%s%r: the reference execution is undefined (%s), the generated code returns %r, which is not a value of the result type %s" % (
        fname, jargs, reason, ret, f["ret"])
    return {"call": index, "fname": fname, "args": args, "bufs": bufs, "events": set(), "ref": None, "steps": 0,
            "stage": "out of range", "exc": "", "text": reason, "detail": "", "msg": msg}


def evaluate(case, stats=None, excl=frozenset()):
    """The property on one case.  Returns (failure | None, compared calls); a failure is a dict with the message
    under 'msg' and the structured facts classify() needs."""
    desc, calls = case["module"], case["calls"]
    try:
        module = genir.build(desc)
    except Exception:
        raise HarnessError("generator produced an unbuildable module:\n" + traceback.format_exc())
    try:
        code, src = translate(module)
    except GenFailure as g:
        return ({"stage": g.stage, "exc": type(g.exc).__name__, "text": str(g.exc), "detail": g.detail, "events": set(),
                 "msg": "%s %s: %s [%s]" % (g.stage, type(g.exc).__name__, g.exc, g.detail)}, 0)
    byname = {f["name"]: f for f in desc["functions"]}
    compared = 0
    for index, (fname, args) in enumerate(calls):
        f = byname[fname]
        bufs = [bytes(range(16, 32))] * genir.nbufs(f)
        a = genir.decode_args(args)
        try:
            ref, events, steps = reference(module, fname, a, bufs)
        except irx.Undef as e:
            if stats is not None and not (e.reason in WEAK_REASONS and f["ret"] in genir.INT_TYPES):
                stats.discard("reference undefined: " + e.reason)
            weak = weak_range_check(code, module, f, fname, args, a, bufs, e.reason, index, stats)
            if weak:
                return (weak, compared)
            continue
        except irx.Unsupported as e:
            if stats is not None:
                stats.discard("reference unsupported: " + e.reason)
            continue
        hit = sorted(EVENT_OF[ev] for ev in events if EVENT_OF.get(ev) in excl)
        if hit:
            if stats is not None:
                for kid in hit:
                    stats.excluded[kid] += 1
            continue
        compared += 1
        fail = {"call": index, "fname": fname, "args": a, "bufs": bufs, "events": events, "ref": ref, "steps": steps}
        try:
            got = run_generated(code, module, fname, a, bufs, 4 * steps + 1000)
        except GenFailure as g:
            fail.update(stage=g.stage, exc=type(g.exc).__name__ if isinstance(g.exc, BaseException) else "", text=str(g.exc), detail=g.detail)
            fail["msg"] = "%s%r: %s %s: %s [%s]" % (fname, args, g.stage, fail["exc"], g.exc, g.detail)
            return (fail, compared)
        diff = irsem.obs_equal(ref, got)
        if diff:
            fail.update(stage="mismatch", exc="", text=diff, detail="", got=got)
            fail["msg"] = "%s%r: %s" % (fname, args, diff)
            return (fail, compared)
    return (None, compared)


def replay(case):
    """No dynamic exclusion here: a witness must show its defect."""
    fail = evaluate(case)[0]
    return fail["msg"] if fail else None


def _passes_after(case, transform, fail):
    """The failing call holds on the transformed module, whose reference observation is unchanged."""
    one = {"module": transform(case["module"]), "calls": [case["calls"][fail["call"]]]}
    try:
        module = genir.build(one["module"])
        ref, _, _ = reference(module, fail["fname"], fail["args"], fail["bufs"])
    except Exception:
        return False
    if ref != fail["ref"]:
        return False
    try:
        return evaluate(one)[0] is None
    except Exception:
        return False


def _model_matches(case, fail, **model):
    """The observed (wrong) observation is exactly what the reference computes with the defect model switched on."""
    if fail.get("stage") != "mismatch":
        return False
    old = dict(MODEL)
    MODEL.update(model)
    try:
        module = genir.build(case["module"])
        ref, _, _ = reference(module, fail["fname"], fail["args"], fail["bufs"])
    except Exception:
        return False
    finally:
        MODEL.update(old)
    return irsem.obs_equal(ref, fail["got"]) is None


def classify(case, msg):
    """Input-feature predicate AND a model of the wrong outcome, per open finding (notes/C24.md)."""
    try:
        fail = evaluate(case)[0]
    except Exception:
        return None
    if fail is None or fail["msg"] != msg:
        return None
    feats = features(case["module"])
    stage, exc, text, detail, events = fail["stage"], fail["exc"], fail["text"], fail["detail"], fail["events"]
    if stage == "generated code does not compile":
        if "rotate" in feats and (" rol " in detail or " ror " in detail):
            return KF_ROT
        return None
    if stage == "generated code raised":
        if exc == "NameError" and "'nan'" in text and "nan_const" in feats:
            return KF_NAN
        if exc == "ZeroDivisionError" and text == "float division by zero" and "fdiv0" in events:
            return KF_FDIV0
        if exc == "OverflowError" and "store_f32" in detail and "f32_inexact" in events:
            return KF_F32
        if "late_alloc" in feats and (
            (exc == "IndexError" and "free" in detail) or (exc == "AssertionError" and ("read_mem" in detail or "write_mem" in detail))
        ):
            if _passes_after(case, hoist_allocs, fail):
                return KF_FREE
        return None
    if stage != "mismatch":
        return None
    if "f2i_round" in events and _model_matches(case, fail, round=True):
        return KF_ROUND
    if "f32_inexact" in events and _model_matches(case, fail, nof32=True):
        return KF_F32
    if "phi_on_branch_edge" in feats and _passes_after(case, lambda d: split_phi_edges(d)[0], fail):
        return KF_PHI
    if "late_alloc" in feats and _passes_after(case, hoist_allocs, fail):
        return KF_FREE
    return None


# ---------------------------------------------------------------------------
# search


def make_profile(excl, full, big=False):
    """full: everything ir_to_python might reject is left in (measures the rejection classes)."""
    return genir.Profile(
        max_blocks=12 if big else 8,
        max_ins=14 if big else 10,
        name="c24-full" if full else "c24",
        ptr_bits=32,
        rotates=KF_ROT not in excl,
        nonfinite=KF_NAN not in excl,
        copyblob=full,
        global_refs=full,
        late_allocs=KF_FREE not in excl,
        phi_liveout=True,
    )


def case_strategy(profile, split):
    @st.composite
    def _case(draw):
        desc = draw(genir.modules(profile))
        calls = []
        for f in desc["functions"]:
            for _ in range(draw(st.integers(1, 3))):
                calls.append([f["name"], draw(genir.arg_strategy(f, profile))])
        case = {"module": desc, "calls": calls}
        if split:
            case["module"], k = split_phi_edges(desc)
            if k:
                case["excluded"] = {KF_PHI: k}
        return case

    return _case()


def _worker(arg):
    seed, n, full, big = arg
    stats = Stats()
    excl = open_ids()
    profile = make_profile(excl, full, big)

    shrink = {"t0": None}

    def prop(case):
        if shrink["t0"] is not None and time.time() - shrink["t0"] > SHRINK_S:
            return None  # cap on the shrink phase: stop accepting smaller examples
        for kid in case.get("excluded", ()):
            stats.excluded[kid] += 1
        try:
            fail, compared = evaluate(case, stats, excl)
        except Discard as d:
            stats.hist[d.reason] += 1
            raise
        feats = features(case["module"])
        nt = compared > 0 and bool(feats & NONTRIVIAL)
        stats.case(
            jhash(case) if nt else None,
            nt,
            {"calls": case["calls"][:2], "instructions": genir.count_instructions(case["module"]), "last_function": case["module"]["functions"][-1]}
            if nt
            else None,
            classes=["compared_calls:%d" % min(compared, 3)] + (sorted(feats) if compared else []),
        )
        if fail is None:
            return None
        kid = classify(case, fail["msg"])
        if kid and kid in excl:
            stats.known[kid] += 1
            return None
        if shrink["t0"] is None:
            shrink["t0"] = time.time()
        return fail["msg"]

    fails = hyp_search(case_strategy(profile, KF_PHI in excl), prop, n, seed, stats)
    for kid, flag in ((KF_ROT, profile.rotates), (KF_NAN, profile.nonfinite), (KF_FREE, profile.late_allocs)):
        if not flag:
            stats.excluded[kid] += n
    return stats, fails


def run(ctx):
    ctx.extra["irsem_selfcheck"] = irsem_selfcheck.selfcheck("quick")  # the oracle validates itself first (cached)
    n = ctx.scale(1000, 60000)
    args = []
    for w in range(16):
        full = w >= 14  # two of the sixteen shards keep CopyBlob / pointer initialisers in the menu
        args.append((subseed(ctx.seed, PID, w), n // 16, full, not ctx.quick and w % 2 == 1))
    ctx.pmap(_worker, args)
    ctx.pmap(_table_worker, [(k, 16) for k in range(16)])


# ---------------------------------------------------------------------------
# operator table: one micro-module per (operator, type), (source type, destination type), (condition, type) and
# memory access type, each called on the cross product of boundary operands.  Enumerated, independent of the seed.

_FLOAT_VALUES = [0.0, -0.0, 1.0, -1.0, 0.5, -0.5, 2.5, 3.5, -2.5, -3.5, 0.7, -0.7, 1.5, 3.0, 10.0, 0.1, 255.0, 256.5, -129.0,
                 65535.5, 1e6 + 0.5, 2147483647.0, 2147483648.0, -2147483649.0, 4294967296.5, 16777217.0, 1e15, 1e38, 3e38]


def _int_values(ty):
    lo, hi = genir.int_range(ty)
    b = genir.BITS[ty]
    vals = [0, 1, 2, 3, 7, 10, hi, hi - 1, lo, lo + 1, 1 << (b - 2), 0x55 & hi, 100 & hi]
    if genir.is_signed(ty):
        vals += [-1, -2, -7, -10]
    out = []
    for v in vals:
        if lo <= v <= hi and v not in out:
            out.append(v)
    return out


def _values(ty):
    if genir.is_float(ty):
        vals = _FLOAT_VALUES if ty == "f64" else [v for v in (genir._to_f32(x) for x in _FLOAT_VALUES)]
        return [genir.fhex(v) for v in vals]
    return _int_values(ty)


def _micro(params, ret, blocks, calls):
    f = {"name": "f0", "params": params, "ret": ret, "bufs": {}, "tailrec": False, "layout": list(range(len(blocks))), "blocks": blocks}
    return {"module": {"ptr_bits": 32, "globals": [], "externals": [], "functions": [f]}, "calls": [["f0", c] for c in calls]}


def table_cases():
    ints, floats = genir.INT_TYPES, genir.FLOAT_TYPES
    cases = []
    for ty in ints + floats:
        vals = _values(ty)
        ops = genir.FLOAT_OPS if genir.is_float(ty) else genir.INT_OPS + genir.ROT_OPS
        for op in ops:
            if op in ("<<", ">>", "rol", "ror"):
                bits = genir.BITS[ty]
                lo, hi = genir.int_range(ty)
                counts = [0, 1, 3, bits // 2, bits - 1] + [c for c in (bits, bits + 1, hi, -1, lo) if lo <= c <= hi]  # the last ones: undefined, range-checked only
                pairs = [[a, b] for a in vals for b in dict.fromkeys(counts)]
            else:
                pairs = [[a, b] for a in vals for b in vals]
            cases.append(("binop:%s:%s" % (op, ty), _micro([["a", ty], ["b", ty]], ty, [{"name": "b0", "ins": [["binop", "v", ty, "a", op, "b"], ["ret", "v"]]}], pairs)))
        for op in ["-"] if genir.is_float(ty) else ["-", "~"]:
            cases.append(("unop:%s:%s" % (op, ty), _micro([["a", ty]], ty, [{"name": "b0", "ins": [["unop", "v", ty, op, "a"], ["ret", "v"]]}], [[a] for a in vals])))
        for dty in ints + floats:
            cases.append(("cast:%s->%s" % (ty, dty), _micro([["a", ty]], dty, [{"name": "b0", "ins": [["cast", "v", dty, "a"], ["ret", "v"]]}], [[a] for a in vals])))
        for cond in genir.CONDS:
            blocks = [
                {"name": "b0", "ins": [["cjmp", "a", cond, "b", "b1", "b2"]]},
                {"name": "b1", "ins": [["const", "one", "i32", 1], ["ret", "one"]]},
                {"name": "b2", "ins": [["const", "zero", "i32", 0], ["ret", "zero"]]},
            ]
            sub = vals[::2] + vals[-2:]
            cases.append(("cjmp:%s:%s" % (cond, ty), _micro([["a", ty], ["b", ty]], "i32", blocks, [[a, b] for a in sub for b in sub])))
        # memory: store as ty, load back as ty and as the other type of the same size
        size = genir.BITS[ty] // 8
        for lty in [t for t in ints + floats if genir.BITS[t] // 8 == size and (genir.is_float(t) == genir.is_float(ty))]:
            blocks = [{"name": "b0", "ins": [["alloc", "m", 8, 8], ["addr", "p", "m"], ["store", "a", "p", False], ["load", "v", lty, "p", False], ["ret", "v"]]}]
            cases.append(("mem:%s->%s" % (ty, lty), _micro([["a", ty]], lty, blocks, [[a] for a in vals])))
    return cases


def _table_worker(arg):
    shard, nshards = arg
    stats = Stats()
    excl = open_ids()
    fails = []
    for k, (label, case) in enumerate(table_cases()):
        if k % nshards != shard:
            continue
        fail, compared = evaluate(case, stats, excl)
        kind = label.split(":")[0]
        stats.case(("table", label), compared > 0, None, classes=["table:" + kind])
        stats.hist["table_calls_compared"] += compared
        if fail:
            kid = classify(case, fail["msg"])
            if kid and kid in excl:
                stats.known[kid] += 1
            else:
                # keep only the failing call: small replay file
                fails.append(({"module": case["module"], "calls": [case["calls"][fail["call"]]] if "call" in fail else case["calls"][:1]}, fail["msg"]))
    return stats, fails
