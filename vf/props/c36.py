"""C36 - Python front-end computes what CPython computes."""

import ast
import contextlib
import io
import math
import struct
import time
import traceback

from hypothesis import strategies as st

from .. import irsem
from ..core import Discard, HarnessError, Stats, hyp_search, jhash, load_findings, subseed

PID = "C36"
RULE = (
    "Hypothesis-generated modules of 1..3 type-annotated Python functions in the subset python2ir.py accepts and the "
    "property lists (int and float parameters/locals, + - * // on ints, + - * / on floats, comparisons, and/or, "
    "if/elif/else, bounded while, for..in range(a[,b]) with break/continue and nesting, assignment, augmented and tuple "
    "assignment, early return, calls to earlier functions) x 1..3 argument vectors per function (small, and 32/64-bit "
    "boundary integers). CPython exec of the source is the oracle; an instrumented CPython run (int literals, arguments "
    "and range values wrapped in a range-tracking int subclass, loop-iteration budget) first decides the domain: every "
    "integer intermediate inside 64 bits, no exception, bounded work - otherwise the call is discarded. The same source "
    "goes through python_to_ir and is executed by the reference interpreter vf/irsem.py (second executor: exec of "
    "ir_to_python output when every Alloc is in the entry block; its verdict is recorded, not judged). CompilerError "
    "is a rejection (counted per message); any other exception from python_to_ir, undefined behaviour in the compiled "
    "IR, or a different return value is a failure. "
    "non-trivial = a call was compared and the source has a loop with break/continue, control flow nested in control "
    "flow, or executed a // with a negative operand; distinct = (source, calls)"
)
ASSUMPTIONS = [
    "IR semantics as written down in DESIGN.md 3.1 (vf/irsem.py)",
    "float results are compared bit for bit (CPython float arithmetic and irsem f64 arithmetic are the same IEEE doubles)",
]
TRUSTED = ["CPython", "Hypothesis", "vf/irsem.py (reference interpreter)"]
REGISTER = True
TECHNIQUE = "differential: CPython exec vs python_to_ir + reference IR interpreter on Hypothesis-generated annotated functions"
LEVEL_TEXT = (
    "Exploration with CPython itself as oracle: generated annotated functions are executed by CPython and, after "
    "python_to_ir, by an independent IR interpreter on boundary-biased arguments; a range-tracking run keeps the cases inside "
    "the property's 64-bit side condition. The front-end is a pure function of the source, so generated-input search is the "
    "fitting level; no bound is closed."
)

I64_MIN, I64_MAX = -(1 << 63), (1 << 63) - 1
ITER_BUDGET = 400
SHRINK_S = 40  # wall-clock cap on Hypothesis' shrink phase per worker (safety net, DESIGN 2.2)

KF_FLOORDIV = "C36-KF1"  # // lowered to truncating division
KF_FORLATCH = "C36-KF2"  # for loop without a latch block: control flow in the body / continue -> KeyError
KF_LOOPVAR = "C36-KF3"  # loop variable is the phi, not a variable
KF_ALLOCDOM = "C36-KF4"  # variable slot allocated at the first assignment, not in the entry block


def open_ids():
    import os

    if os.environ.get("VERIF_C36_NOEXCL"):
        return set()
    return {e["id"] for e in load_findings(PID) if e.get("status") == "open"}


# ---------------------------------------------------------------------------
# range-tracking CPython run


class OutOfRange(Exception):
    pass


class Budget(Exception):
    pass


EVENTS = set()


def _chk(v):
    if v < I64_MIN or v > I64_MAX:
        raise OutOfRange()
    return TInt(v)


class TInt(int):
    """int that checks every arithmetic result against the 64-bit range."""

    __slots__ = ()

    def __add__(self, o):
        return _chk(int(self) + int(o)) if isinstance(o, int) else NotImplemented

    __radd__ = __add__

    def __sub__(self, o):
        return _chk(int(self) - int(o)) if isinstance(o, int) else NotImplemented

    def __rsub__(self, o):
        return _chk(int(o) - int(self)) if isinstance(o, int) else NotImplemented

    def __mul__(self, o):
        return _chk(int(self) * int(o)) if isinstance(o, int) else NotImplemented

    __rmul__ = __mul__

    def __floordiv__(self, o):
        if not isinstance(o, int):
            return NotImplemented
        return _fdiv(int(self), int(o))

    def __rfloordiv__(self, o):
        if not isinstance(o, int):
            return NotImplemented
        return _fdiv(int(o), int(self))


def _fdiv(a, b):
    q = a // b  # ZeroDivisionError propagates: CPython raises, the call is outside the domain
    if a < 0 or b < 0:
        EVENTS.add("floordiv_neg")
        if q * b != a and (a < 0) != (b < 0):
            EVENTS.add("floordiv_differs")
    return _chk(q)


class _Instrument(ast.NodeTransformer):
    def visit_Constant(self, node):
        if isinstance(node.value, int) and not isinstance(node.value, bool):
            return ast.copy_location(ast.Call(ast.Name("_I", ast.Load()), [node], []), node)
        return node

    def visit_Name(self, node):
        if node.id == "range":
            return ast.copy_location(ast.Name("_R", node.ctx), node)
        return node

    def visit_FunctionDef(self, node):
        # annotations stay as they are
        node.body = [self.visit(s) for s in node.body]
        node.body.insert(0, ast.Expr(ast.Call(ast.Name("_T", ast.Load()), [], [])))
        return node

    def visit_While(self, node):
        self.generic_visit(node)
        node.body.insert(0, ast.Expr(ast.Call(ast.Name("_T", ast.Load()), [], [])))
        return node


def instrumented_namespace(tree):
    tree = ast.fix_missing_locations(_Instrument().visit(tree))
    code = compile(tree, "<c36-tracked>", "exec")
    budget = [ITER_BUDGET]

    def tick():
        budget[0] -= 1
        if budget[0] < 0:
            raise Budget()

    def rng(*a):
        for i in range(*[int(x) for x in a]):
            tick()
            yield TInt(i)

    ns = {"_I": _chk, "_R": rng, "_T": tick}
    exec(code, ns)
    return ns, budget


def tracked_call(tracked, fname, args):
    """Returns the value CPython computes, after checking the side conditions.  Raises Discard."""
    EVENTS.clear()
    ns, budget = tracked
    budget[0] = ITER_BUDGET
    targs = [_chk(a) if isinstance(a, int) else a for a in args]
    try:
        r = ns[fname](*targs)
    except OutOfRange:
        raise Discard("integer outside 64 bits")
    except Budget:
        raise Discard("iteration budget")
    except RecursionError:
        raise Discard("cpython raises RecursionError")
    except Exception as e:
        raise Discard("cpython raises %s" % type(e).__name__)
    if isinstance(r, bool) or not isinstance(r, (int, float)):
        raise Discard("cpython returns %s" % type(r).__name__)
    return (int(r) if isinstance(r, int) else r), ITER_BUDGET - budget[0]


# ---------------------------------------------------------------------------
# source features (from the ast; used for classes, the non-trivial rule and classify predicates)

_FLOW = (ast.If, ast.While, ast.For)


def src_features(tree):
    feats = set()

    def walk(stmts, loops, depth, infor, scope_owner):
        for s in stmts:
            if isinstance(s, ast.If):
                feats.add("if")
                if s.orelse:
                    feats.add("elif" if len(s.orelse) == 1 and isinstance(s.orelse[0], ast.If) else "else")
            if isinstance(s, _FLOW):
                if depth >= 1:
                    feats.add("nested_flow")
                if infor:
                    feats.add("flow_in_for")
            if isinstance(s, (ast.Break, ast.Continue)):
                kind = "break" if isinstance(s, ast.Break) else "continue"
                feats.add(kind + "_in_" + (loops[-1] if loops else "none"))
                if infor:
                    feats.add("flow_in_for")
            if isinstance(s, ast.Return) and depth >= 1:
                feats.add("early_return")
            if isinstance(s, ast.AugAssign):
                feats.add("augassign")
            if isinstance(s, ast.Assign) and isinstance(s.targets[0], ast.Tuple):
                feats.add("tuple_assign")
            if isinstance(s, ast.If):
                walk(s.body, loops, depth + 1, infor, s)
                walk(s.orelse, loops, depth + 1, infor, s)
            elif isinstance(s, ast.While):
                feats.add("while")
                walk(s.body, loops + ["while"], depth + 1, infor, s)
            elif isinstance(s, ast.For):
                feats.add("for")
                walk(s.body, loops + ["for"], depth + 1, True, s)

    for fn in tree.body:
        if isinstance(fn, ast.FunctionDef):
            walk(fn.body, [], 0, False, fn)
            for n in ast.walk(fn):
                if isinstance(n, ast.BinOp):
                    feats.add("op" + type(n.op).__name__)
                elif isinstance(n, ast.BoolOp):
                    feats.add("boolop")
                elif isinstance(n, ast.Call) and isinstance(n.func, ast.Name) and n.func.id != "range":
                    feats.add("call")
                elif isinstance(n, ast.Constant) and isinstance(n.value, float):
                    feats.add("float")
            feats |= _var_features(fn)
    return feats


def _var_features(fn):
    """loopvar_escapes: a for target is assigned in its body or read after the loop.
    nested_first_assign:<name>: the first assignment of <name> is inside a nested block and the name is also used outside it."""
    feats = set()
    params = {a.arg for a in fn.args.args}

    def names_in(nodes, ctx=None, skip=None):
        out = []
        inside = set(id(m) for m in ast.walk(skip)) if skip is not None else ()
        for n in nodes:
            for m in ast.walk(n):
                if isinstance(m, ast.Name) and (ctx is None or isinstance(m.ctx, ctx)) and id(m) not in inside:
                    out.append(m.id)
        return out

    def scan(stmts, after_outer):
        """after_outer: statements that execute after this list's owner (for use-after detection)"""
        for k, s in enumerate(stmts):
            rest = stmts[k + 1 :]
            if isinstance(s, ast.For):
                tgt = s.target.id
                if tgt in names_in(s.body, ast.Store):
                    feats.add("loopvar_escapes")
                if tgt in names_in(rest + after_outer, ast.Load, skip=s):
                    feats.add("loopvar_escapes")
            if isinstance(s, ast.If):
                scan(s.body, rest + after_outer)
                scan(s.orelse, rest + after_outer)
            elif isinstance(s, (ast.While, ast.For)):
                scan(s.body, rest + after_outer + [s])

    scan(fn.body, [])
    # first assignment position of every local
    first = {}

    def order(stmts, path):
        for s in stmts:
            if isinstance(s, (ast.Assign, ast.AugAssign)):
                tgts = s.targets[0] if isinstance(s, ast.Assign) else s.target
                for m in ast.walk(tgts):
                    if isinstance(m, ast.Name) and m.id not in params:
                        first.setdefault(m.id, path)
            if isinstance(s, ast.If):
                order(s.body, path + [(id(s), 0)])
                order(s.orelse, path + [(id(s), 1)])
            elif isinstance(s, (ast.While, ast.For)):
                order(s.body, path + [(id(s), 0)])

    order(fn.body, [])

    def uses(stmts, path):
        for s in stmts:
            here = []
            if isinstance(s, (ast.If, ast.While)):
                here = names_in([s.test])
            elif isinstance(s, ast.For):
                here = names_in([s.iter])
            elif not isinstance(s, _FLOW):
                here = names_in([s])
            for nme in here:
                fp = first.get(nme)
                if fp and path[: len(fp)] != fp:
                    feats.add("nested_first_assign:" + nme)
            if isinstance(s, ast.If):
                uses(s.body, path + [(id(s), 0)])
                uses(s.orelse, path + [(id(s), 1)])
            elif isinstance(s, (ast.While, ast.For)):
                uses(s.body, path + [(id(s), 0)])

    uses(fn.body, [])
    return feats


# ---------------------------------------------------------------------------
# ppci side


def compile_source(src):
    """python_to_ir.  Raises Discard for CompilerError; returns (module | None, failure | None)."""
    from ppci.common import CompilerError
    from ppci.lang.python import python_to_ir

    try:
        with contextlib.redirect_stdout(io.StringIO()):
            return python_to_ir(io.StringIO(src)), None
    except CompilerError as e:
        raise Discard("rejected: " + str(e.msg)[:60])
    except Exception as e:
        tb = traceback.extract_tb(e.__traceback__)
        frames = [fr for fr in tb if "/ppci/" in fr.filename]
        inner = frames[-1] if frames else tb[-1]
        chain = " <- ".join(fr.name for fr in reversed(frames[-4:]))
        return None, {
            "stage": "python_to_ir raised",
            "exc": type(e).__name__,
            "text": str(e)[:300],
            "frame": inner.name,
            "chain": chain,
            "msg": "python_to_ir raised %s: %s [%s]" % (type(e).__name__, str(e)[:300], chain),
        }


def allocs_in_entry(module):
    from ppci import ir

    for f in module.functions:
        for block in f.blocks:
            if block is f.entry:
                continue
            for ins in block:
                if isinstance(ins, ir.Alloc):
                    return False
    return True


def second_executor(module):
    """exec of the ir_to_python output -> namespace | None"""
    from ppci.api import ir_to_python

    f = io.StringIO()
    try:
        ir_to_python([module], f)
        ns = {"__name__": "c36_irpy"}
        exec(compile(f.getvalue(), "<c36-ir2py>", "exec"), ns)
        return ns
    except Exception:
        return None


def _obsval(v):
    if isinstance(v, float):
        return "nan" if v != v else "f:" + struct.pack(">d", v).hex()
    return v


def show(v):
    if isinstance(v, str) and v.startswith("f:"):
        return repr(struct.unpack(">d", bytes.fromhex(v[2:]))[0])
    return repr(v)


def decode_args(args):
    return [struct.unpack(">d", bytes.fromhex(a[2:]))[0] if isinstance(a, str) else a for a in args]


def evaluate(case, stats=None, excl=frozenset()):
    """Returns (failure dict | None, compared calls, events of compared calls)."""
    src, calls = case["src"], case["calls"]
    try:
        tree = ast.parse(src)
        plain = {}
        exec(compile(tree, "<c36>", "exec"), plain)
    except Exception:
        raise HarnessError("generated source is not valid Python:\n%s\n%s" % (src, traceback.format_exc()))
    module, fail = compile_source(src)
    if fail:
        return fail, 0, set()
    second = None
    if allocs_in_entry(module):
        second = second_executor(module)
    compared = 0
    all_events = set()
    tracked = instrumented_namespace(ast.parse(src))
    ninstr = sum(len(b.instructions) for f in module.functions for b in f.blocks)
    for index, (fname, jargs) in enumerate(calls):
        args = decode_args(jargs)
        try:
            expect, iters = tracked_call(tracked, fname, args)
        except Discard as d:
            if stats is not None:
                stats.discard(d.reason)
            continue
        events = set(EVENTS)
        check = plain[fname](*args)
        if _obsval(check) != _obsval(expect):
            raise HarnessError("instrumented and plain CPython runs differ: %r vs %r\n%s" % (expect, check, src))
        if KF_FLOORDIV in excl and "floordiv_differs" in events:
            if stats is not None:
                stats.excluded[KF_FLOORDIV] += 1
            continue
        compared += 1
        all_events |= events
        fail = {"call": index, "fname": fname, "args": args, "events": events, "expect": _obsval(expect)}
        # between two ticks of the instrumented run (loop iteration, function entry) no IR instruction can repeat
        m = irsem.Machine(module, 64, fuel=(iters + 2) * ninstr + 100)
        try:
            got = m.call(fname, list(args))
        except irsem.Undef as e:
            fail.update(stage="undefined", text=e.reason, exc="", frame="", chain="")
            fail["msg"] = "%s%r: CPython returns %r, the compiled IR has undefined behaviour: %s" % (fname, jargs, expect, e.reason)
            return fail, compared, all_events
        except irsem.Unsupported as e:
            if stats is not None:
                stats.discard("reference unsupported: " + e.reason)
            compared -= 1
            continue
        if stats is not None:
            stats.hist["calls_compared"] += 1
        if type(got) is not type(expect) or _obsval(got) != _obsval(expect):
            fail.update(stage="mismatch", got=_obsval(got), text="", exc="", frame="", chain="")
            fail["msg"] = "%s%r: CPython returns %r, the compiled IR returns %r" % (fname, jargs, expect, got)
            return fail, compared, all_events
        if second is not None and stats is not None:
            try:
                r2 = second[fname](*args)
                ok = _obsval(r2) == _obsval(expect)
            except Exception:
                ok = False
            stats.hist["second_executor:" + ("agrees" if ok else "differs (C24's domain)")] += 1
    return None, compared, all_events


def replay(case):
    fail = evaluate(case)[0]
    return fail["msg"] if fail else None


# ---------------------------------------------------------------------------
# classify: feature predicate AND model of the wrong outcome


class _TruncDiv(ast.NodeTransformer):
    def visit_BinOp(self, node):
        self.generic_visit(node)
        if isinstance(node.op, ast.FloorDiv):
            return ast.copy_location(ast.Call(ast.Name("_tdiv", ast.Load()), [node.left, node.right], []), node)
        return node

    def visit_AugAssign(self, node):
        self.generic_visit(node)
        if isinstance(node.op, ast.FloorDiv):
            load = ast.Name(node.target.id, ast.Load())
            return ast.copy_location(ast.Assign([node.target], ast.Call(ast.Name("_tdiv", ast.Load()), [load, node.value], [])), node)
        return node


def _tdiv(a, b):
    if isinstance(a, float) or isinstance(b, float):
        return a // b
    q = abs(a) // abs(b)
    return -q if (a < 0) != (b < 0) else q


class _PhiLoopVar(ast.NodeTransformer):
    """for i in range(a, b): ...   ==>   ... else: i = max(a, b)    (the exit value of ppci's loop phi)"""

    def visit_For(self, node):
        self.generic_visit(node)
        ra = node.iter.args
        lo = ra[0] if len(ra) == 2 else ast.Constant(0)
        hi = ra[-1]
        node.orelse = [ast.Assign([ast.Name(node.target.id, ast.Store())], ast.Call(ast.Name("max", ast.Load()), [lo, hi], []))]
        return node


def _model_value(case, fail, transformer):
    tree = ast.fix_missing_locations(transformer().visit(ast.parse(case["src"])))
    ns = {"_tdiv": _tdiv}
    try:
        exec(compile(tree, "<c36-model>", "exec"), ns)
        return _obsval(ns[fail["fname"]](*fail["args"]))
    except Exception:
        return None


def classify(case, msg):
    try:
        fail = evaluate(case)[0]
    except Exception:
        return None
    if fail is None or fail["msg"] != msg:
        return None
    feats = src_features(ast.parse(case["src"]))
    stage = fail["stage"]
    if stage == "python_to_ir raised":
        exc, text, frame = fail["exc"], fail["text"], fail["frame"]
        chain = fail["chain"]
        if exc == "KeyError" and "flow_in_for" in feats and ("verify_function" in chain or "delete_unreachable" in chain):
            return KF_FORLATCH
        if exc == "AssertionError" and frame in ("store_value", "gen_aug_assign") and "loopvar_escapes" in feats:
            return KF_LOOPVAR
        if exc == "AssertionError" and "does not dominate" in text and "addr_" in text:
            name = text.split("addr_", 1)[1].split(" ", 1)[0]
            if "nested_first_assign:" + name in feats:
                return KF_ALLOCDOM
        return None
    if stage == "mismatch":
        if "floordiv_differs" in fail["events"] and _model_value(case, fail, _TruncDiv) == fail["got"]:
            return KF_FLOORDIV
        if "loopvar_escapes" in feats and _model_value(case, fail, _PhiLoopVar) == fail["got"]:
            return KF_LOOPVAR
    return None


# ---------------------------------------------------------------------------
# generator

SMALL_INTS = [0, 1, 2, 3, 4, 5, 7, 10, 16, 100]
BIG_INTS = [255, 1000, 65536, 2**31 - 1, 2**31, 2**32 + 1, 2**62, 2**63 - 1]
FLOATS = [0.0, 1.0, 0.5, 2.0, 1.5, 3.0, 0.25, 10.0, 0.1, 100.0, 1e10, 1e300, 7.75]
CMP = ["<", "<=", ">", ">=", "==", "!="]


class _Gen:
    def __init__(self, draw, flags):
        self.draw = draw
        self.flags = flags
        self.funcs = []  # (name, [param types], ret type)
        self.counter = 0

    def chance(self, pct):
        return self.draw(st.integers(0, 99)) < pct

    def pick(self, seq):
        return seq[self.draw(st.integers(0, len(seq) - 1))]

    def fresh(self, prefix):
        self.counter += 1
        return "%s%d" % (prefix, self.counter)

    # -- expressions -------------------------------------------------------
    def literal(self, ty):
        if ty == "int":
            k = self.pick(SMALL_INTS) if self.chance(92) else self.pick(BIG_INTS)
            if self.chance(15):
                return "(0 - %d)" % k
            return str(k)
        x = self.pick(FLOATS) if self.chance(80) else self.draw(st.integers(-64, 64)) / 8.0
        if x < 0:
            return "(0.0 - %r)" % -x
        if self.chance(12):
            return "(0.0 - %r)" % x
        return repr(float(x))

    def vars_of(self, env, ty):
        return [n for n, t in env.items() if t == ty]

    def expr(self, ty, env, depth):
        r = self.draw(st.integers(0, 99))
        names = self.vars_of(env, ty)
        if depth <= 0 or r < 30:
            if names and self.chance(70):
                return self.pick(names)
            return self.literal(ty)
        if r < 40:
            callees = [f for f in self.funcs if f[2] == ty]
            if callees:
                name, ptys, _ = self.pick(callees)
                return "%s(%s)" % (name, ", ".join(self.expr(t, env, depth - 1) for t in ptys))
        if ty == "int":
            op = self.pick(["+", "-", "*", "//", "+", "-"])
            a = self.expr(ty, env, depth - 1)
            if op == "//" and self.chance(93):
                k = self.pick([1, 2, 3, 5, 7, 10, 16])
                b = "(0 - %d)" % k if self.chance(15) else str(k)
            else:
                b = self.expr(ty, env, depth - 1)
        else:
            op = self.pick(["+", "-", "*", "/"])
            a = self.expr(ty, env, depth - 1)
            if op == "/" and self.chance(93):
                b = repr(float(self.pick([1, 2, 3, 4, 8, 10]))) if self.chance(70) else "(0.0 - 2.0)"
            else:
                b = self.expr(ty, env, depth - 1)
        return "(%s %s %s)" % (a, op, b)

    def compare(self, env):
        ty = "float" if self.vars_of(env, "float") and self.chance(30) else "int"
        return "%s %s %s" % (self.expr(ty, env, 1), self.pick(CMP), self.expr(ty, env, 1))

    def cond(self, env, depth=2):
        r = self.draw(st.integers(0, 99))
        if depth <= 0 or r < 60:
            return self.compare(env)
        op = self.pick(["and", "or"])
        n = 2 if self.chance(75) else 3
        parts = []
        for _ in range(n):
            c = self.cond(env, depth - 1)
            if " and " in c or " or " in c:
                c = "(%s)" % c
            parts.append(c)
        return (" %s " % op).join(parts)

    # -- statements --------------------------------------------------------
    def assignable(self, env, ro):
        return [n for n in env if n not in ro]

    def simple_stmt(self, env, ro, out, ind):
        """assignment of some kind; may add a new variable to env"""
        r = self.draw(st.integers(0, 99))
        targets = self.assignable(env, ro)
        if r < 12 and targets:
            n = self.pick(targets)
            ty = env[n]
            op = self.pick(["+", "-", "*", "//"] if ty == "int" else ["+", "-", "*", "/"])
            rhs = self.expr(ty, env, 1)
            if op in ("//", "/") and self.chance(94):
                rhs = self.pick(["2", "3", "(0 - 2)", "7", "5", "2", "10"]) if ty == "int" else self.pick(["2.0", "4.0", "0.5"])
            out.append("%s%s %s= %s" % (ind, n, op, rhs))
        elif r < 17 and len(targets) >= 2:
            a = self.pick(targets)
            b = self.pick([t for t in targets if t != a])
            if env[a] == env[b] and self.chance(60):
                out.append("%s%s, %s = %s, %s" % (ind, a, b, b, a))
            else:
                out.append("%s%s, %s = %s, %s" % (ind, a, b, self.expr(env[a], env, 1), self.expr(env[b], env, 1)))
        elif r < 55 and targets:
            n = self.pick(targets)
            out.append("%s%s = %s" % (ind, n, self.expr(env[n], env, 2)))
        else:
            ty = "float" if self.chance(25) else "int"
            n = self.fresh("v")
            out.append("%s%s = %s" % (ind, n, self.expr(ty, env, 2)))
            env[n] = ty

    def block(self, env, ro, out, ind, depth, loop, infor, ret_ty, nmax=4):
        """Appends 1..nmax statements.  env is mutated (new variables stay visible to the caller's later statements
        only if the caller passed its own env)."""
        n = self.draw(st.integers(1, nmax))
        for _ in range(n):
            self.statement(env, ro, out, ind, depth, loop, infor, ret_ty)

    def statement(self, env, ro, out, ind, depth, loop, infor, ret_ty):
        flow_ok = depth < self.flags.get("depth", 3) and (not infor or self.flags["for_flow"])
        r = self.draw(st.integers(0, 99))
        ind2 = ind + "    "
        if not flow_ok or r < 42:
            return self.simple_stmt(env, ro, out, ind)
        if r < 60:  # if / elif / else
            if self.flags["branch_defined"] and self.chance(25):
                return self.branch_defined(env, ro, out, ind)
            out.append("%sif %s:" % (ind, self.cond(env)))
            self.block(dict(env), ro, out, ind2, depth + 1, loop, infor, ret_ty, 3)
            k = self.draw(st.integers(0, 9))
            if k < 3:
                out.append("%selif %s:" % (ind, self.cond(env)))
                self.block(dict(env), ro, out, ind2, depth + 1, loop, infor, ret_ty, 2)
            if k < 6:
                out.append("%selse:" % ind)
                self.block(dict(env), ro, out, ind2, depth + 1, loop, infor, ret_ty, 3)
        elif r < 70:  # bounded while
            w = self.fresh("w")
            out.append("%s%s = 0" % (ind, w))
            env[w] = "int"
            bound = "%s < %d" % (w, self.draw(st.integers(1, 5)))
            k = self.draw(st.integers(0, 9))
            if k < 3:
                test = "%s and %s" % (bound, "(%s)" % self.cond(env, 1) if self.chance(50) else self.compare(env))
            elif k < 5:
                test = "%s and %s" % (self.compare(env), bound)
            else:
                test = bound
            out.append("%swhile %s:" % (ind, test))
            out.append("%s%s = %s + 1" % (ind2, w, w))
            self.block(dict(env), ro | {w}, out, ind2, depth + 1, "while", infor, ret_ty, 3)
        elif r < 82:  # for over range
            i = self.fresh("i")
            k = self.draw(st.integers(0, 9))
            if k < 4:
                rng = "range(%d)" % self.draw(st.integers(0, 5))
            elif k < 6:
                lo = self.expr("int", env, 1)
                rng = "range(%s, %s + %d)" % (lo, lo, self.draw(st.integers(0, 4)))
            elif k < 8:
                rng = "range(%s, %s)" % (self.pick(["0", "1", "(0 - 2)", "3"]), self.draw(st.integers(0, 6)))
            else:
                rng = "range(%s)" % self.expr("int", env, 1)
            escape = self.flags["loopvar_escapes"] and self.chance(35)
            if escape and self.chance(60):
                out.append("%s%s = %s" % (ind, i, self.literal("int")))
                env[i] = "int"
            out.append("%sfor %s in %s:" % (ind, i, rng))
            inner = dict(env)
            inner[i] = "int"
            inner_ro = ro | {i}
            if escape and self.chance(30):
                inner_ro = ro  # the body may assign to the loop variable
            self.block(inner, inner_ro, out, ind2, depth + 1, "for", True, ret_ty, 3)
            if escape:
                env[i] = "int"  # readable after the loop (unbound in CPython for zero-trip loops -> discard)
        elif r < 92 and loop:
            kw = "break" if self.chance(50) else "continue"
            if self.chance(85):
                out.append("%sif %s:" % (ind, self.cond(env, 1)))
                out.append("%s%s" % (ind2, kw))
            else:
                out.append("%s%s" % (ind, kw))
        elif r < 96:
            out.append("%sif %s:" % (ind, self.cond(env, 1)))
            out.append("%sreturn %s" % (ind2, self.expr(ret_ty, env, 2)))
        else:
            self.simple_stmt(env, ro, out, ind)

    def branch_defined(self, env, ro, out, ind):
        """if c: t = e1 else: t = e2  -- t is used afterwards; or the same temporary name in sibling branches"""
        ind2 = ind + "    "
        ty = "float" if self.chance(25) else "int"
        n = self.fresh("v")
        out.append("%sif %s:" % (ind, self.cond(env, 1)))
        out.append("%s%s = %s" % (ind2, n, self.expr(ty, env, 2)))
        if self.chance(50):
            self.simple_stmt(dict(env, **{n: ty}), ro, out, ind2)
        out.append("%selse:" % ind)
        out.append("%s%s = %s" % (ind2, n, self.expr(ty, env, 2)))
        if self.chance(70):
            env[n] = ty

    def function(self, index):
        nparams = self.draw(st.integers(0, 3))
        ptys = [("float" if self.chance(25) else "int") for _ in range(nparams)]
        ret_ty = "float" if self.chance(25) else "int"
        name = "fn%d" % index
        params = ["a%d_%d" % (index, k) for k in range(nparams)]
        env = dict(zip(params, ptys))
        out = ["def %s(%s) -> %s:" % (name, ", ".join("%s: %s" % (p, t) for p, t in zip(params, ptys)), ret_ty)]
        self.block(env, frozenset(), out, "    ", 0, None, False, ret_ty, 6)
        out.append("    return %s" % self.expr(ret_ty, env, 2))
        self.funcs.append((name, ptys, ret_ty))
        return "\n".join(out) + "\n"


def int_args():
    return st.one_of(
        st.integers(-8, 8),
        st.integers(-8, 8),
        st.integers(1, 6),
        st.integers(-8, 8),
        st.integers(-8, 8),
        st.integers(1, 20),
        st.integers(-100, 100),
        st.integers(-1000, 1000),
        st.sampled_from([2**31 - 1, -(2**31), 2**32, 2**62, -(2**62), I64_MAX, I64_MIN, 10**9, -(10**9)]),
    )


def float_args():
    return st.one_of(
        st.integers(-32, 32).map(lambda k: k / 4.0),
        st.sampled_from([0.0, 1.0, -1.0, 0.1, 1e300, -1e300, 1e-300, math.inf, -math.inf]),
        st.floats(-1e6, 1e6, allow_nan=False),
    )


def case_strategy(flags):
    @st.composite
    def _case(draw):
        g = _Gen(draw, flags)
        nf = draw(st.integers(1, 3))
        src = "\n".join(g.function(k) for k in range(nf))
        calls = []
        for name, ptys, _ in g.funcs:
            for _ in range(draw(st.integers(1, 3))):
                args = []
                for t in ptys:
                    if t == "int":
                        args.append(draw(int_args()))
                    else:
                        args.append("f:" + struct.pack(">d", draw(float_args())).hex())
                calls.append([name, args])
        return {"src": src, "calls": calls}

    return _case()


def make_flags(excl):
    return {
        "for_flow": KF_FORLATCH not in excl,
        "loopvar_escapes": KF_LOOPVAR not in excl,
        "branch_defined": KF_ALLOCDOM not in excl,
    }


FLAG_OF = {"for_flow": KF_FORLATCH, "loopvar_escapes": KF_LOOPVAR, "branch_defined": KF_ALLOCDOM}


def _worker(arg):
    seed, n, deep = arg
    stats = Stats()
    excl = open_ids()
    flags = make_flags(excl)
    flags["depth"] = 4 if deep else 3

    shrink = {"t0": None}

    def prop(case):
        if shrink["t0"] is not None and time.time() - shrink["t0"] > SHRINK_S:
            return None  # cap on the shrink phase: stop accepting smaller examples
        try:
            fail, compared, events = evaluate(case, stats, excl)
        except Discard as d:
            stats.hist[d.reason] += 1
            raise
        feats = src_features(ast.parse(case["src"]))
        feats = {f.split(":")[0] for f in feats}
        nt = compared > 0 and bool(
            {f for f in feats if f.startswith(("break_in_", "continue_in_"))} or "nested_flow" in feats or "floordiv_neg" in events
        )
        stats.case(
            jhash(case) if nt else None,
            nt,
            case if nt else None,
            classes=["compared_calls:%d" % min(compared, 3)] + (sorted(feats | events) if compared else []),
        )
        if fail is None:
            return None
        kid = classify(case, fail["msg"])
        if kid and kid in excl:
            stats.known[kid] += 1
            return None
        if shrink["t0"] is None:
            shrink["t0"] = time.time()
        return fail["msg"]

    fails = hyp_search(case_strategy(flags), prop, n, seed, stats)
    for flag, kid in FLAG_OF.items():
        if not flags[flag]:
            stats.excluded[kid] += n
    return stats, fails


def run(ctx):
    n = ctx.scale(1600, 100000)
    ctx.pmap(_worker, [(subseed(ctx.seed, PID, w), n // 16, not ctx.quick and w % 2 == 1) for w in range(16)])
