"""C11 - linked references resolve exactly to their symbols."""

import collections
import traceback

from hypothesis import strategies as st

from .. import asmgen, linkgen, relocref
from ..core import Discard, HarnessError, Stats, hyp_search, open_finding_ids, subseed

PID = "C11"
TARGETS = ["x86_64", "riscv", "riscv:rvc", "arm", "arm:thumb"]
RULE = (
    "per target (x86_64, riscv, riscv:rvc, arm, arm:thumb): Hypothesis-generated assembly programs (vf/asmgen.py: 1-2 objects, 1-3 sections, "
    "labels local and global, branches / calls / conditional branches / address loads / literal loads / data words referring to labels in the "
    "same section, another section or another object, padding whose length is drawn around the range edges of the short forms: 126..130, "
    "252..258, 2040..2052, 4088..4100 bytes, 256 KiB..1 MiB for the long forms) assembled with ppci.api.asm and linked under generated layouts "
    "(1-3 memories, near and far apart, unaligned bases, SECTIONDATA copies; a quarter of the cases through a partial link first), plus a deterministic sweep of pads R-8..R+8 around every field's range edge R forwards and backwards; for every relocation of the inputs the site is located in the "
    "output through the reference placement model, the field is read with the ISA-manual extractor of vf/relocref.py and, for control "
    "transfers, the patched instruction is decoded by llvm-mc; the designated address must equal the symbol's final address (+ addend). "
    "non-trivial = a checked relocation that is not a plain absolute data word and whose site-target distance is > 0; "
    "distinct = hash of the whole case"
)
ASSUMPTIONS = [
    "addends are the ones ppci's assembler emits (x86-64 rel32: -4, everything else 0); grep of ppci/arch shows no other non-zero addend",
    "the site of an input relocation in the output is input offset + piece offset of the append-with-padding model (what C12 checks); a case where the "
    "input bytes are not found there is discarded",
    "x86-64 rel32 follows the ELF PC32 convention (field = S + A - P), so the decoded branch target is S + A + 4",
    "a link that raises (any exception type) is a rejection; it is never required to succeed",
    "llvm-mc 14 decodes branch displacements correctly",
]
TRUSTED = ["CPython", "Hypothesis", "field extractors in vf/relocref.py (written from the ISA manuals)", "llvm-mc 14", "placement model in vf/linkgen.py"]
TECHNIQUE = "generated assembly programs linked under generated layouts; relocated fields read back by ISA-manual extractors and llvm-mc"
LEVEL_TEXT = (
    "Exploration: every relocation of every generated program is followed into the linked image and the patched field is read by an extractor "
    "written from the architecture manual and, for branches, by llvm-mc; both must designate the symbol's final address. Distances are drawn "
    "around each field's range edge, so silent truncation shows as a wrong target and correct behaviour shows as a link error."
)
REGISTER = True


def _quiet():
    import logging

    logging.disable(logging.CRITICAL)


# ---------------------------------------------------------------------------


def _desc(obj):
    """linkgen-style description of an assembled object (sizes and alignments only)."""
    return {"sections": [{"name": s.name, "align": s.alignment, "data": bytes(s.data).hex()} for s in obj.sections]}


def _innermost(e):
    fr = [f for f in traceback.extract_tb(e.__traceback__) if "/ppci/" in f.filename]
    return "%s:%s" % (fr[-1].filename.split("/ppci/")[-1], fr[-1].name) if fr else "?"


def evaluate(case, hist=None, info=None, defer=None):
    """-> list of (message, details dict) for every relocation that does not resolve.
    defer: a list that receives the control transfers to decode with llvm-mc later
    (one llvm-mc run for many cases); None = decode them now."""
    from ppci.api import link

    _quiet()
    hist = collections.Counter() if hist is None else hist
    info = {} if info is None else info
    target = case["target"]
    fam = relocref.FAMILY[target]
    try:
        objs = asmgen.assemble(case["prog"])
    except Exception as e:
        raise Discard("asm:%s" % type(e).__name__)
    descs = [_desc(o) for o in objs]
    order, minfo = linkgen.merge_model(descs)
    ld = case["layout"]
    # the inputs' relocations, with the model's site and what the ISA says about representability
    try:
        layout = linkgen.build_layout(ld, case.get("layout_form", "object"))
    except Exception as e:
        raise Discard("layout:%s" % type(e).__name__)
    try:
        if case.get("two_stage"):
            # partial link first, then the final link of its result (same placement as the direct link)
            out = link([link(objs, partial_link=True)], layout)
        else:
            out = link(objs, layout)
    except Exception as e:
        hist["link_raises:%s@%s" % (type(e).__name__, _innermost(e))] += 1
        info["rejected"] = True
        return []
    hist["linked"] += 1
    piece = {}
    for name in order:
        for oi, si, off in minfo[name]["pieces"]:
            piece[(oi, name)] = off
    # where is every symbol in the end?  labels are unique program-wide
    final = {}
    for y in out.symbols:
        if y.defined:
            if y.name in final:
                final[y.name] = None  # ambiguous
            else:
                final[y.name] = out.get_symbol_id_value(y.id)
    # relocation sites of the inputs (for the placement sanity check)
    arch = objs[0].arch
    sites = collections.defaultdict(list)
    for oi, o in enumerate(objs):
        for r in o.relocations:
            size = arch.isa.relocation_map[r.reloc_type].size()
            sites[(oi, r.section)].append((r.offset, r.offset + size))
    for oi, o in enumerate(objs):
        for s in o.sections:
            off = piece[(oi, s.name)]
            got = bytes(out.get_section(s.name).data[off : off + s.size])
            want = bytearray(s.data)
            g2 = bytearray(got)
            if len(g2) != len(want):
                raise Discard("placement_not_model")
            for lo, hi in sites[(oi, s.name)]:
                want[lo:hi] = bytes(hi - lo)
                g2[lo:hi] = bytes(hi - lo)
            if g2 != want:
                raise Discard("placement_not_model")
    failures = []
    branches = []  # (bytes, ins address, want, description)
    checked = 0
    nontrivial = False
    for oi, o in enumerate(objs):
        rels = list(o.relocations)
        partner = {}
        for r in rels:
            if r.reloc_type == "rel_imm12":
                partner[(r.section, r.offset, r.symbol_id)] = r
        for r in rels:
            sym = o.symbols_by_id[r.symbol_id]
            S = final.get(sym.name)
            if S is None:
                hist["unverifiable:symbol_not_unique_or_undefined"] += 1
                continue
            sec = out.get_section(r.section)
            off = piece[(oi, r.section)] + r.offset
            P = sec.address + off
            ent = relocref.lookup(target, r.reloc_type)
            if r.reloc_type == "rel_imm12":
                if (r.section, r.offset - 4, r.symbol_id) in {(q.section, q.offset, q.symbol_id) for q in rels if q.reloc_type == "rel_imm20"}:
                    continue  # verified together with its auipc
                hist["unverifiable:rel_imm12_without_auipc"] += 1
                continue
            if ent is None:
                hist["unverifiable:no_extractor:%s" % r.reloc_type] += 1
                continue
            reader, size, is_branch = ent
            data = bytes(sec.data[off : off + size])
            kw = {}
            if r.reloc_type == "rel_imm20":
                q = partner.get((r.section, r.offset + 4, r.symbol_id))
                if q is not None:
                    kw["pair"] = bytes(sec.data[off + 4 : off + 8])
            want = relocref.expected(target, r.reloc_type, S, r.addend)
            try:
                got = reader(data, P, **kw)
            except relocref.Unverifiable as e:
                hist["unverifiable:%s" % e] += 1
                continue
            checked += 1
            hist["checked:%s" % r.reloc_type] += 1
            if not r.reloc_type.startswith("absaddr") and S != P:
                nontrivial = True
            det = {"type": r.reloc_type, "symbol": sym.name, "S": S, "A": r.addend, "P": P, "got": got, "want": want, "field": data.hex(), "section": r.section}
            if got != want:
                failures.append(("relocation %s at 0x%x (section %s, field %s) against %s = 0x%x%+d designates 0x%x, expected 0x%x" % (
                    r.reloc_type, P, r.section, data.hex(), sym.name, S, r.addend, got, want), det))
                continue
            if is_branch:
                if fam == "x86_64":
                    span = relocref.x86_instruction_span(sec.data, off, r.reloc_type)
                    if span is None:
                        hist["unverifiable:x86_opcode"] += 1
                        continue
                    start, n = span
                    branches.append((bytes(sec.data[start : start + n]), sec.address + start, want, det))
                else:
                    branches.append((data, P, want, det))
    if branches and defer is not None:
        defer.extend(branches)
    elif branches:
        failures.extend(check_branches(target, branches, hist))
    # SECTIONDATA copies are the load image of a section: they must hold the relocated contents
    if ld:
        for m in ld["memories"]:
            for kind, arg in m["inputs"]:
                if kind == "sectiondata" and out.has_section(arg) and out.has_section("_$%s_" % arg):
                    a, b = bytes(out.get_section(arg).data), bytes(out.get_section("_$%s_" % arg).data)
                    hist["sectiondata_copies"] += 1
                    if a != b:
                        k = next((i for i, (x, y) in enumerate(zip(a, b)) if x != y), min(len(a), len(b)))
                        pre = bytearray(len(a))
                        for oi2, si2, off2 in minfo.get(arg, {"pieces": []})["pieces"]:
                            d2 = bytes(objs[oi2].sections[si2].data)
                            pre[off2 : off2 + len(d2)] = d2
                        failures.append(("SECTIONDATA(%s): the copy differs from the linked section at offset %d (copy %s, section %s): the copy's references are not resolved" % (
                            arg, k, b[k : k + 8].hex(), a[k : k + 8].hex()), {"type": "sectiondata", "offset": k, "copy_is_unrelocated": bytes(pre) == b}))
    info["checked"] = checked
    info["nontrivial"] = nontrivial
    return failures


def check_branches(target, branches, hist):
    """Decode the patched control transfers with llvm-mc and compare the targets."""
    failures = []
    dec = relocref.llvm_decode(target, [(b, a) for b, a, _, _ in branches])
    for (b, a, want, det), t in zip(branches, dec):
        if t is None:
            hist["unverifiable:llvm_no_target"] += 1
            continue
        hist["llvm_decoded"] += 1
        if t != want:
            d2 = dict(det)
            d2["got"] = t
            failures.append(("llvm-mc decodes the %s instruction %s at 0x%x as a branch to 0x%x, the symbol %s is at 0x%x%+d" % (
                det["type"], b.hex(), a, t, det["symbol"], det["S"], det["A"]), d2))
    return failures


# ---------------------------------------------------------------------------
# known findings


# field width in bits and unit in bytes of the pc-relative fields whose writers go through
# wrap_negative / Token.__setitem__ (both accept the union of the signed and the unsigned range)
ALIAS = {"b_imm12": (12, 2), "b_imm20": (20, 2), "bc_imm11": (11, 2), "bc_imm8": (8, 2), "jmp8": (8, 1), "imm24": (24, 4), "rel32": (32, 1)}


def classify_one(case, msg, det):
    t = det.get("type")
    if t == "sectiondata":
        # KF1: the copy is taken before relocation: it equals the unrelocated merged input
        return "C11-KF1" if det.get("copy_is_unrelocated") else None
    if t in ALIAS and "got" in det:
        # KF2: the distance does not fit the signed field but fits the unsigned one; the writer wraps it
        n, unit = ALIAS[t]
        rep = relocref.representable(case["target"], t, det["S"], det["A"], det["P"])
        if rep is False and abs(det["got"] - det["want"]) == (1 << n) * unit:
            return "C11-KF2"
    if t == "bl_imm11" and "got" in det:
        # KF3: J1/J2 stay 1, i.e. I1 = I2 = S: only the low 22 bits of the distance are encoded
        d = det["want"] - (det["P"] + 4)
        if (1 << 22) <= abs(d) and -(1 << 24) <= d < (1 << 24):
            low = d % (1 << 22)
            if det["got"] - (det["P"] + 4) == (low if d >= 0 else low - (1 << 22)):
                return "C11-KF3"
    if t == "b_imm11_imm6" and "got" in det:
        # KF4: S, J1, J2 are all taken from bit 18 of the distance
        d = det["want"] - (det["P"] + 4)
        if (1 << 18) <= abs(d) and -(1 << 20) <= d < (1 << 20):
            low = d & 0x7FFFF
            if det["got"] - (det["P"] + 4) == (low - (1 << 19) if low >> 18 else low):
                return "C11-KF4"
    return None


def _pick(case, failures):
    """Message to report for a case: the first failure that is not a known finding."""
    open_ids = open_finding_ids(PID)
    known = None
    for msg, det in failures:
        kid = classify_one(case, msg, det)
        if kid and kid in open_ids:
            known = known or (msg, kid)
            continue
        return msg, None
    if known:
        return known
    return None, None


def replay(case):
    failures = evaluate(case)
    msg, kid = _pick(case, failures)
    return msg


_MEMO = {}


def classify(case, msg):
    # structured details of the reported failure: from the evaluation that produced it, else re-evaluate
    from ..core import jhash

    failures = _MEMO.get(jhash(case))
    if failures is None:
        try:
            failures = evaluate(case)
        except Discard:
            return None
    open_ids = open_finding_ids(PID)
    for m, det in failures:
        if m == msg:
            kid = classify_one(case, m, det)
            return kid if kid in open_ids else None
    return None


# ---------------------------------------------------------------------------
# generation


# pad menus per target: the range edges its relocation types have
SCALES = {
    "x86_64": ["small", "small", "small", "byte", "byte", "byte", "half", "kilo"],
    "riscv": ["small", "small", "small", "half", "kilo", "page", "page", "far"],
    "riscv:rvc": ["small", "small", "small", "byte", "half", "kilo", "page", "page", "far"],
    "arm": ["small", "small", "small", "half", "kilo", "page", "page"],
    "arm:thumb": ["small", "small", "small", "byte", "half", "half", "kilo", "kilo", "far", "huge"],
}


def _size_bounds(prog):
    b = collections.Counter()
    for od in prog["objects"]:
        for s in od["sections"]:
            n = 16
            for it in s["items"]:
                n += it[1] + 8 if it[0] == "pad" else 16
            b[s["name"]] += n
    return b


@st.composite
def c11_case(draw, targets=tuple(TARGETS)):
    target = draw(st.sampled_from(list(targets)))
    scale = draw(st.sampled_from(SCALES[target]))
    prog = draw(asmgen.program(target, max_objects=2, max_sections=3, max_items=draw(st.sampled_from([4, 6, 10])), pads=asmgen.PAD_SCALES[scale]))
    names = asmgen.section_names(prog)
    bounds = _size_bounds(prog)
    gl = sorted({g for od in prog["objects"] for g in od["globals"]})
    spread = draw(st.sampled_from(["near", "near", "near", "near", "far"]))
    gaps = [0, 0, 0x10, 0x100] if spread == "near" else [0x1000, 0x100000, 0x3F0000, 0x7F0000, 0x8000000]
    ld = draw(linkgen.simple_layout(names, entry_candidates=gl, min_size=0x400, gaps=gaps, size_hint=bounds))
    if draw(st.integers(0, 5)) == 0:
        # load-image copy of one section (startup code copies it to RAM)
        ld["memories"][0]["inputs"].append(["sectiondata", draw(st.sampled_from(names))])
        ld["memories"][0]["size"] += bounds[ld["memories"][0]["inputs"][-1][1]]
    case = {"target": target, "prog": prog, "layout": ld, "layout_form": draw(st.sampled_from(["object", "text"])), "scale": scale + "/" + spread}
    if draw(st.integers(0, 3)) == 0:
        case["two_stage"] = True
    return case


# ---------------------------------------------------------------------------
# deterministic sweep over the range edges of every reference template

# template prefix -> distances (bytes) whose neighbourhood is swept; from the ISA field widths
EDGES = {
    "x86_64": {"jmpshort": [128], "jmp": [128], "jz": [128], "call": [4096]},
    "riscv": {"beq": [4096, 2048], "bne": [4096], "blt": [4096], "bge": [4096], "bltu": [4096], "bgeu": [4096], "jal": [1 << 20, 1 << 19, 4096], "j ": [1 << 20, 2048],
              "la": [2048, 4096, 1 << 20], "lw": [2048, 4096], "lui": [2048, 4096]},
    "riscv:rvc": {"beq": [4096], "jal": [1 << 20], "c.j ": [2048, 1024], "c.jal": [2048], "c.beqz": [256, 128], "la": [2048], "lui": [2048]},
    "arm": {"b ": [1 << 25, 4096], "bl ": [1 << 25, 1 << 24], "beq": [1 << 25], "ldr": [4096, 2048], "adr": [256, 1024, 4096]},
    "arm:thumb": {"b ": [2048, 1024], "beq ": [256, 128], "bne": [256], "bl ": [1 << 24, 1 << 22, 1 << 23, 4096], "bw": [1 << 24, 1 << 22], "beqw": [1 << 20, 1 << 18, 1 << 19],
                  "ldr": [1024, 512], "adr": [1024]},
}


def edge_cases(target, max_distance):
    t = asmgen.TARGETS[target]
    gran = t["gran"]
    cases = []
    for kind, tmpl in t["refs"]:
        dists = [d for pre, ds in EDGES[target].items() if tmpl.startswith(pre) for d in ds]
        for R in dists:
            if R > max_distance:
                continue
            if R <= 1 << 16:
                pads = list(range(max(0, R - 8), R + 9, gran if gran > 1 else 1))
            else:
                pads = [R - 8, R - 4, R, R + 4]
            for pad in pads:
                pad = pad // gran * gran
                for back in (False, True):
                    fill = t["fill"][0]
                    if back:
                        items = [["align", 4], ["label", "l0"], ["pad", pad], ["ref", tmpl, "l0"], ["fill", fill]]
                    else:
                        items = [["ref", tmpl, "l0"], ["pad", pad], ["align", 4], ["label", "l0"], ["fill", fill]]
                    for loc in (0x1000,):
                        cases.append({
                            "target": target,
                            "prog": {"target": target, "objects": [{"globals": [], "sections": [{"name": "code", "items": items}]}]},
                            "layout": {"entry": None, "memories": [{"name": "flash", "location": loc, "size": linkgen.align_up(pad + 0x200, 0x100), "inputs": [["section", "code"]]}]},
                            "layout_form": "object",
                            "scale": "edge_sweep",
                        })
    return cases


def _worker(arg):
    from ..core import jhash

    seed, n, targets, explicit = arg
    _quiet()
    stats = Stats()
    deferred = collections.defaultdict(list)  # target -> [(bytes, address, want, det, case)]

    def prop(case):
        hist = collections.Counter()
        info = {}
        defer = []
        try:
            failures = evaluate(case, hist, info, defer)
        finally:
            stats.hist.update(hist)
        cls = ["target_" + case["target"], "memories_%d" % len(case["layout"]["memories"]), "scale_" + case.get("scale", "?")]
        if info.get("rejected"):
            cls.append("link_rejected")
        if case.get("two_stage"):
            cls.append("partial_then_final")
        nt = bool(info.get("nontrivial"))
        stats.case(case, nt, case if nt and not stats.samples else None, classes=cls)
        _MEMO.clear()
        _MEMO[jhash(case)] = failures
        msg, kid = _pick(case, failures)
        if msg is None:
            deferred[case["target"]].extend((b, a, w, d, case) for b, a, w, d in defer)
        return msg

    fails = hyp_search(c11_case(targets=targets), prop, n, seed, stats, classify=classify, budget_s=900) if n else []
    open_ids = open_finding_ids(PID)
    for case in explicit:
        try:
            msg = prop(case)
        except Discard as d:
            stats.discard(d.reason)
            continue
        if msg:
            kid = classify(case, msg)
            if kid and kid in open_ids:
                stats.known[kid] += 1
            elif len(fails) < 6:
                fails.append((case, msg))
    _MEMO.clear()
    # one llvm-mc run per target for all control transfers of this worker
    for target, items in deferred.items():
        for i in range(0, len(items), 4000):
            chunk = items[i : i + 4000]
            dec = relocref.llvm_decode(target, [(b, a) for b, a, _, _, _ in chunk])
            for (b, a, want, det, case), t in zip(chunk, dec):
                if t is None:
                    stats.hist["unverifiable:llvm_no_target"] += 1
                    continue
                stats.hist["llvm_decoded"] += 1
                if t != want and len(fails) < 3:
                    fails.append((case, "llvm-mc decodes the %s instruction %s at 0x%x as a branch to 0x%x, the symbol %s is at 0x%x%+d" % (
                        det["type"], b.hex(), a, t, det["symbol"], det["S"], det["A"])))
    return stats, fails


def run(ctx):
    if not relocref.LLVM_MC:
        raise HarnessError("llvm-mc not found")
    n = ctx.scale(480, 50000)
    sweep = []
    for t in TARGETS:
        sweep += edge_cases(t, ctx.scale(1 << 22, 1 << 25))
    # big pads last in every shard so that the shards cost about the same
    sweep.sort(key=lambda c: c["layout"]["memories"][0]["size"])
    args = [(subseed(ctx.seed, PID, w), n // 16, tuple(TARGETS), sweep[w::16]) for w in range(16)]
    ctx.pmap(_worker, args)
    ctx.extra["edge_sweep_cases"] = len(sweep)
    ctx.extra["targets_covered"] = TARGETS
    ctx.extra["addends"] = "as emitted by ppci's assembler: x86_64 rel32 -4, all other relocation types 0"
