"""C06 - register allocation never clobbers a live value.

Everything that touches ppci's code generator runs in a *forked child of a zygote* (a fresh
interpreter with a fixed bootstrap, see `zygote_main`): ppci's allocation depends on the addresses
of objects (id()-hashed sets), so only a process with a reproducible heap makes a case replayable.
The search workers and `replay` talk to such a zygote through `Zygote.evaluate`.

A case (plain JSON):
  {"target": march, "level": "0"|"1"|"2", "kind": "ir"|"c", "module": <genir description> | "src": <C text>,
   "tail": [0/1...]}                                  search form: every frame, edge-cover paths + tail, oracle 1
  {... , "func": name, "path": [choice, ...]}         explicit form: one frame, one path (what a failure is reduced to)
"""

import collections
import json
import os
import signal
import struct
import subprocess
import sys
import time
import traceback

from ..core import REPO, VERIF, Discard, HarnessError, Stats, subseed

PID = "C06"
RULE = (
    "frames handed to GraphColoringRegisterAllocator.alloc_frame while compiling, per target (x86_64, arm, arm:thumb, riscv, "
    "riscv:rvc, m68k, mips, msp430, avr, xtensa, or1k, microblaze) and IR optimisation level: (a) vf/genir.py modules restricted "
    "to the target's value types, (b) c_to_ir of vf/gencc.py units (types narrowed to what the target's back-end covers), "
    "(c) generated high-pressure functions (more simultaneously live values than registers, mixed register classes, calls, "
    "diamonds, loops) and (d) copy-heavy functions (phi rotations/swaps over loop back edges, call chains, same-size casts). "
    "Per frame: the pre-allocation list (uses/defs/ismove/jumps/clobbers of every instruction object) and the final list + colours "
    "+ spill loads/stores are captured; an uninterpreted-symbol simulation runs both lists in lockstep along every path of an "
    "edge cover of the flow graph, each extended by a Hypothesis-drawn tail of branch choices, plus the tail alone; an "
    "independent liveness analysis of the final list proposes (definition, other live value in an aliasing register) suspects, "
    "each decided by the same simulation on a constructed witness path. Code-generation failures are discarded. "
    "non-trivial = the frame had >= 1 coalesced (removed) move or >= 1 spill; distinct = (target, text of the pre-allocation list)"
)
ASSUMPTIONS = [
    "ppci's own per-instruction read/write/clobber annotations are taken as the machine semantics (C07 checks those)",
    "control flow: an instruction with a non-empty `jumps` list continues only at those instructions, any other falls through "
    "(falling off the end of the list = function exit)",
    "an `ismove` instruction with exactly one read and one written register copies the value; anything else is an unknown "
    "function of the registers it reads; writing a register destroys every overlapping register; clobbers write garbage",
    "a read of a virtual register that has no definition on the path (pre-allocation) is an undefined read and is not compared",
    "paths are paths of the flow graph, not necessarily executable ones - that is the contract a register allocator works to",
    "compilation runs in a forked child of a fresh interpreter under PYTHONHASHSEED=0 and setarch -R with a fixed environment, "
    "so that the allocation (which depends on id()-ordered sets) is a function of the case",
]
TRUSTED = ["CPython", "Hypothesis", "simulation + liveness in vf/props/c06.py", "vf/genir.py", "vf/gencc.py"]
REGISTER = True
TECHNIQUE = "translation validation of each allocated frame: lockstep uninterpreted-symbol simulation pre vs post allocation on edge-covering and random flow-graph paths, liveness-based suspect detector confirmed on witness paths"
LEVEL_TEXT = (
    "Exploration by translation validation: for every generated frame on 12 targets the virtual-register list and the allocated "
    "list (with spill code) are executed side by side over symbolic values along an edge cover of the flow graph, random longer "
    "paths, and witness paths for every place where an independent liveness analysis sees a definition into a register that "
    "overlaps another live value. The allocator is a deterministic function of the frame, so checking each produced allocation "
    "against its specification on generated frames (including forced spilling and coalescing) is the fitting level; paths are "
    "sampled, not enumerated, and no bound is closed."
)

TARGETS = ["x86_64", "arm", "arm:thumb", "riscv", "riscv:rvc", "m68k", "mips", "msp430", "avr", "xtensa", "or1k", "microblaze"]
PTR_BITS = {"x86_64": 64, "avr": 16, "msp430": 16}
CHILD_TIMEOUT_S = 300
CASE_FD1, CASE_FD2 = 3, 4


def ptr_bits(target):
    return PTR_BITS.get(target, 32)


# ===========================================================================
# child side: capture of the allocator's input and output
# ===========================================================================


class _StopAfterAlloc(Exception):
    pass


class ModelProblem(Exception):
    """The harness does not understand something in the frame (never a violation)."""


class ArchModel:
    """Physical registers of one architecture: overlap relation and (class, colour) -> register."""

    def __init__(self, arch):
        self.arch = arch
        self.regs = {}  # id -> register object
        self._desc = {}
        self._overlap = {}
        self._phys = {}
        self.alias_extra = 0
        for rc in arch.info.register_classes:
            for r in rc.registers or ():
                self.add(r)
        for r, al in arch.info.alias.items():
            self.add(r)
            for a in al:
                self.add(a)

    def add(self, r):
        if id(r) in self.regs:
            return
        self.regs[id(r)] = r
        self._overlap.clear()
        self._phys.clear()
        for s in getattr(r, "aliases", ()) or ():
            self.add(s)
        for o in getattr(type(r), "registers", ()) or ():
            if getattr(o, "_num", None) is not None:
                self.add(o)

    def desc(self, r):
        d = self._desc.get(id(r))
        if d is None:
            d = {id(r)}
            for s in getattr(r, "aliases", ()) or ():
                d |= self.desc(s)
            self._desc[id(r)] = d
        return d

    def overlap(self, r):
        """Other physical registers sharing storage with r: structural (sub-register trees) united with ppci's alias map."""
        self.add(r)
        res = self._overlap.get(id(r))
        if res is None:
            mine = self.desc(r)
            out = {}
            for o in self.regs.values():
                if o is not r and (mine & self.desc(o)):
                    out[id(o)] = o
            for a in self.arch.info.alias.get(r, ()):
                if a is not r and id(a) not in out:
                    out[id(a)] = a
            res = tuple(out.values())
            self._overlap[id(r)] = res
        return res

    def phys(self, r):
        """The physical register object a (coloured) register denotes."""
        if r._num is not None:
            self.add(r)
            return r
        if r.color is None:
            raise ModelProblem("uncoloured register %r" % (r,))
        key = (type(r), r.color)
        p = self._phys.get(key)
        if p is None:
            cands = [o for o in self.regs.values() if o._num == r.color and isinstance(o, type(r))]
            if len(cands) != 1:
                exact = [o for o in cands if type(o) is type(r)]
                if len(exact) == 1:
                    cands = exact
            if len(cands) != 1:
                try:
                    p = type(r).from_num(r.color)
                except Exception:
                    raise ModelProblem("no unique physical register for class %s colour %s (%s)" % (type(r).__name__, r.color, cands))
                self.add(p)
            else:
                p = cands[0]
            self._phys[key] = p
        return p


class Ins:
    """Snapshot of one instruction (register lists as they were at snapshot time)."""

    __slots__ = ("ins", "uses", "defs", "ismove", "jumps", "clobbers", "text", "ureprs", "dreprs")

    def __init__(self, ins):
        self.ins = ins
        self.uses = list(ins.used_registers)
        self.defs = list(ins.defined_registers)
        self.ismove = bool(ins.ismove)
        self.jumps = list(ins.jumps)
        self.clobbers = list(ins.clobbers)
        try:
            self.text = str(ins)
        except Exception:
            self.text = repr(ins)
        if " object at 0x" in self.text:
            self.text = "<%s>" % type(ins).__name__
        self.ureprs = [repr(r) for r in self.uses]
        self.dreprs = [repr(r) for r in self.defs]

    @property
    def plain_move(self):
        return self.ismove and len(self.uses) == 1 and len(self.defs) == 1


def _rname(r):
    try:
        return "%s:%s" % (type(r).__name__, r.name)
    except Exception:
        return repr(r)


class FrameRec:
    def __init__(self, frame, model):
        self.name = frame.name
        self.model = model
        self.pre = [Ins(i) for i in frame.instructions]
        self.pre_index = {id(x.ins): k for k, x in enumerate(self.pre)}
        if len(self.pre_index) != len(self.pre):
            raise ModelProblem("an instruction object occurs twice in the frame")
        # which registers are fixed locations before allocation
        self.fixed = {}
        for x in self.pre:
            for r in x.uses + x.defs + x.clobbers:
                if id(r) not in self.fixed:
                    self.fixed[id(r)] = r.is_colored
        self.keep = [frame]
        self.roles = {}  # id(ins) -> role dict
        self.nseq = 0
        self.spill_loads = 0
        self.spill_stores = 0
        self.slots = set()
        self.seq_lens = collections.Counter()
        self.post = None

    def note_spill(self, kind, code, vreg, slot):
        """Record what a spill code sequence does.  The sequence as a whole copies slot -> vreg (load) or vreg -> slot
        (store); plain moves inside it are ordinary copies (they may be coalesced away later), so the slot access is
        attributed to the *root* instruction: the non-move that produces the loaded value / consumes the stored one."""
        code = list(code)
        self.keep.append(code)
        self.nseq += 1
        skey = (slot.offset, slot.size)
        self.slots.add(skey)
        if kind == "load":
            self.spill_loads += 1
        else:
            self.spill_stores += 1
        self.seq_lens["%s:%d" % (kind, len(code))] += 1
        snaps = [Ins(i) for i in code]
        for x in snaps:
            if x.jumps:
                raise ModelProblem("spill code contains a jump")
        root = None
        if kind == "load":
            for k, x in enumerate(snaps):
                for j, r in enumerate(x.defs):
                    if r is vreg:
                        root = (k, j)
            while root is not None and snaps[root[0]].plain_move:
                src = snaps[root[0]].uses[0]
                prev = None
                for k in range(root[0]):
                    for j, r in enumerate(snaps[k].defs):
                        if r is src:
                            prev = (k, j)
                if prev is None:
                    break
                root = prev
        else:
            carriers = {id(vreg)}
            for k, x in enumerate(snaps):
                if x.plain_move and id(x.uses[0]) in carriers:
                    carriers.add(id(x.defs[0]))
                    continue
                for ui, r in enumerate(x.uses):
                    if id(r) in carriers:
                        root = (k, ui)
        if root is None:
            raise ModelProblem("spill %s sequence does not mention the spilled register: %s" % (kind, [str(i) for i in code]))
        lastdef = {}  # id(reg) -> (k, j)
        for k, x in enumerate(snaps):
            deps, ext = [], []
            for ui, r in enumerate(x.uses):
                if id(r) in lastdef:
                    pk, pj = lastdef[id(r)]
                    deps.append((ui, id(code[pk]), pj))
                elif r._num is not None:
                    ext.append(ui)
            self.roles[id(x.ins)] = {
                "kind": kind,
                "slot": skey,
                "root": root[1] if root[0] == k else None,
                "deps": deps,
                "ext": ext,
                "seq": code,
                "pos": k,
            }
            for j, r in enumerate(x.defs):
                lastdef[id(r)] = (k, j)

    def finish(self, frame):
        self.post = [Ins(i) for i in frame.instructions]
        self.post_index = {id(x.ins): k for k, x in enumerate(self.post)}
        if len(self.post_index) != len(self.post):
            raise ModelProblem("an instruction object occurs twice in the allocated frame")
        self.removed = {id(x.ins) for x in self.pre if id(x.ins) not in self.post_index}
        self.new = {id(x.ins) for x in self.post if id(x.ins) not in self.pre_index}
        self.coalesced = len(self.removed)
        # spill-code instructions that were removed again (coalesced moves of spill code)
        self.new_removed = {}
        for role in self.roles.values():
            for i in role["seq"]:
                if id(i) not in self.post_index and id(i) not in self.new_removed:
                    x = Ins(i)
                    if not x.ismove:
                        raise ModelProblem("spill-code instruction [%s] vanished and is not a move" % x.text)
                    self.new_removed[id(i)] = x
        self.coalesced_spill_moves = len(self.new_removed)
        self.used_slots = len(self.slots)

    # ---- descriptions ------------------------------------------------------
    def key_text(self):
        return "\n".join("%s|%s|%s" % (x.text, ",".join(_rname(r) for r in x.uses), ",".join(_rname(r) for r in x.defs)) for x in self.pre)

    def dump(self, limit=400):
        out = ["pre-allocation:"]
        for k, x in enumerate(self.pre[:limit]):
            out.append("  %3d %-34s uses=%s defs=%s%s" % (k, x.text[:34], x.ureprs, x.dreprs, " MOVE" if x.ismove else ""))
        out.append("post-allocation:")
        for k, x in enumerate(self.post[:limit]):
            out.append("  %3d %-34s uses=%s defs=%s%s%s" % (k, x.text[:34], x.ureprs, x.dreprs, " MOVE" if x.ismove else "", " SPILL-CODE" if id(x.ins) in self.new else ""))
        return "\n".join(out)


class Capture:
    """Wraps alloc_frame / MiniGen.gen_load / gen_store for the duration of one compilation."""

    def __init__(self, arch, stop_after=True):
        self.arch = arch
        self.model = ArchModel(arch)
        self.frames = []
        self.problems = []
        self.alloc_errors = []
        self.fail_msgs = []
        self.cur = None
        self.stop_after = stop_after

    def __enter__(self):
        from ppci.codegen import registerallocator as ra

        cap = self
        RA, MG = ra.GraphColoringRegisterAllocator, ra.MiniGen
        self._saved = (RA.alloc_frame, MG.gen_load, MG.gen_store)
        o_alloc, o_load, o_store = self._saved

        def alloc_frame(self, frame):
            try:
                rec = FrameRec(frame, cap.model)
            except ModelProblem as e:
                cap.problems.append("%s: %s" % (frame.name, e))
                rec = None
            cap.cur = rec
            try:
                o_alloc(self, frame)
            except ModelProblem as e:
                cap.problems.append("%s: %s" % (frame.name, e))
                rec = None
                if cap.stop_after:
                    raise _StopAfterAlloc()
                raise
            except Exception as e:
                cap.alloc_errors.append("%s: %s" % (type(e).__name__, str(e)[:120]))
                raise
            finally:
                cap.cur = None
            if rec is not None:
                try:
                    rec.finish(frame)
                    cap.frames.append(rec)
                except ModelProblem as e:
                    cap.problems.append("%s: %s" % (frame.name, e))
            if cap.stop_after:
                raise _StopAfterAlloc()

        def gen_load(self, frame, vreg, slot):
            code = o_load(self, frame, vreg, slot)
            if cap.cur is not None:
                cap.cur.note_spill("load", code, vreg, slot)
            return code

        def gen_store(self, frame, vreg, slot):
            code = o_store(self, frame, vreg, slot)
            if cap.cur is not None:
                cap.cur.note_spill("store", code, vreg, slot)
            return code

        RA.alloc_frame, MG.gen_load, MG.gen_store = alloc_frame, gen_load, gen_store
        return self

    def __exit__(self, *exc):
        from ppci.codegen import registerallocator as ra

        RA, MG = ra.GraphColoringRegisterAllocator, ra.MiniGen
        RA.alloc_frame, MG.gen_load, MG.gen_store = self._saved
        return False


# ===========================================================================
# child side: the simulation (oracle 2)
# ===========================================================================

UNDEF = ("undef",)


class Mismatch(Exception):
    def __init__(self, kind, msg, info=None):
        super().__init__(msg)
        self.kind = kind
        self.msg = msg
        self.info = info or {}


def origin(sym):
    """Pre-allocation index of the instruction whose write produced this symbol (None: entry value, spill code, ...)."""
    import re

    while sym and sym[0] == "part":
        sym = sym[1]
    if sym and sym[0] in ("def", "clob") and isinstance(sym[1], str):
        m = re.match(r"#(\d+) before allocation", sym[1])
        if m:
            return int(m.group(1))
    return None


class Sim:
    """Lockstep run of the pre- and post-allocation lists along one path of branch choices."""

    def __init__(self, rec, dist=None):
        self.rec = rec
        self.model = rec.model
        self.pre_state = {}
        self.post_state = {}
        self.slots = {}
        self.occ = collections.Counter()
        self.last_out = {}
        self.post_writer = {}  # id(physical location) -> pre-allocation index of the last original instruction that wrote it
        self.cur_writer = None
        self.taken = []  # choices actually made (for the replay file)
        self.dist = dist
        self.reads_compared = 0
        self.undef_reads = 0
        self.exited = False

    # -- locations -------------------------------------------------------------
    def pre_loc(self, r):
        if self.rec.fixed.get(id(r), r._num is not None):
            return self.model.phys(r)
        return r

    def pre_get(self, r):
        loc = self.pre_loc(r)
        s = self.pre_state.get(id(loc))
        if s is None:
            return ("init", _rname(loc)) if loc._num is not None else UNDEF
        return s

    def post_get(self, r):
        loc = self.model.phys(r)
        s = self.post_state.get(id(loc))
        return ("init", _rname(loc)) if s is None else s

    def _write(self, state, loc, sym):
        state[id(loc)] = sym
        if loc._num is not None:
            for a in self.model.overlap(loc):
                state[id(a)] = ("part", sym, _rname(a))

    def pre_write(self, r, sym):
        self._write(self.pre_state, self.pre_loc(r), sym)

    def post_write(self, r, sym):
        loc = self.model.phys(r)
        self._write(self.post_state, loc, sym)
        self.post_writer[id(loc)] = self.cur_writer
        for a in self.model.overlap(loc):
            self.post_writer[id(a)] = self.cur_writer

    # -- describing symbols ------------------------------------------------------
    def uid(self, x):
        """Identity of an instruction inside symbols: distinct objects never share one (texts may coincide)."""
        k = self.rec.pre_index.get(id(x.ins))
        if k is not None:
            return "#%d before allocation: %s" % (k, x.text)
        k = self.rec.post_index.get(id(x.ins))
        return "spill code #%d after allocation: %s" % (k, x.text)

    def describe(self, sym):
        k = sym[0]
        if k == "init":
            return "the value %s had on entry" % sym[1]
        if k == "undef":
            return "undefined"
        if k == "def":
            return "result #%d of [%s] (execution %d)" % (sym[3], sym[1], sym[2] + 1)
        if k == "part":
            return "the part in %s of a register overwritten with %s" % (sym[2], self.describe(sym[1]))
        if k == "clob":
            return "garbage left in %s by the clobbers of [%s] (execution %d)" % (sym[3], sym[1], sym[2] + 1)
        if k == "noslot":
            return "stack slot %s before any store to it" % (sym[1],)
        return repr(sym)

    # -- execution ---------------------------------------------------------------
    def exec_pre_only(self, x):
        """A pre-allocation instruction that the allocator removed (a coalesced move)."""
        n = self.occ[id(x.ins)]
        self.occ[id(x.ins)] += 1
        if not x.ismove:
            raise Mismatch("structure", "the allocator removed [%s], which is not a move" % x.text)
        if x.plain_move:
            self.pre_write(x.defs[0], self.pre_get(x.uses[0]))
        else:
            u = self.uid(x)
            for r in x.clobbers:
                self.pre_write(r, ("clob", u, n, _rname(r)))
            for j, r in enumerate(x.defs):
                self.pre_write(r, ("def", u, n, j))

    def exec_both(self, xp, xq, where):
        n = self.occ[id(xp.ins)]
        self.occ[id(xp.ins)] += 1
        self.cur_writer = self.rec.pre_index[id(xp.ins)]
        if len(xp.uses) != len(xq.uses) or len(xp.defs) != len(xq.defs):
            raise Mismatch("structure", "[%s] changed its operand lists during allocation" % xp.text)
        ins_a, ins_b = [], []
        for k in range(len(xp.uses)):
            a = self.pre_get(xp.uses[k])
            b = self.post_get(xq.uses[k])
            ins_a.append(a)
            ins_b.append(b)
            if a is UNDEF or a == UNDEF:
                self.undef_reads += 1
                continue
            self.reads_compared += 1
            if a != b:
                pl = self.model.phys(xq.uses[k])
                raise Mismatch(
                    "read",
                    "%s reads operand %r from %s: before allocation it holds %s; after allocation %s holds %s"
                    % (where, xp.uses[k].name, pl.name, self.describe(a), pl.name, self.describe(b)),
                    {"reader": self.rec.pre_index[id(xp.ins)], "operand": k, "clobberer": self.post_writer.get(id(pl))},
                )
        if xp.plain_move:
            self.pre_write(xp.defs[0], ins_a[0])
            self.post_write(xq.defs[0], ins_b[0])
            return
        u = self.uid(xp)
        for r in xp.clobbers:
            g = ("clob", u, n, _rname(r))
            self.pre_write(r, g)
            self.post_write(r, g)
        for j in range(len(xp.defs)):
            s = ("def", u, n, j)
            self.pre_write(xp.defs[j], s)
            self.post_write(xq.defs[j], s)

    def exec_new(self, x, where):
        role = self.rec.roles.get(id(x.ins))
        if role is None:
            raise ModelProblem("instruction [%s] appeared during allocation but was not produced by gen_load/gen_store" % x.text)
        n = self.occ[id(x.ins)]
        self.occ[id(x.ins)] += 1
        self.cur_writer = ("spill", id(role["seq"]))
        inputs = [self.post_get(r) for r in x.uses]
        for ui, pid_, pj in role["deps"]:
            if pid_ in self.rec.new_removed or ui >= len(inputs):
                continue  # the producing move was coalesced away: its source is the operand itself
            if self.occ[pid_] != n + 1:
                raise Mismatch(
                    "spillorder",
                    "%s (spill %s code) reads temporary %r before the instruction of the same spill sequence that computes it has run"
                    % (where, role["kind"], x.uses[ui].name),
                )
            exp = self.last_out.get((pid_, pj))
            if exp is not None and inputs[ui] != exp:
                t = x.uses[ui]
                loc = self.model.phys(t)
                intruder = self.post_writer.get(id(loc))
                msg = "%s (spill %s code) reads temporary %r from %s, which no longer holds %s but %s" % (
                    where, role["kind"], t.name, loc.name, self.describe(exp), self.describe(inputs[ui]))
                # model of finding C06-KF2: the temporary is a FIXED physical register of the spill code (avr: Z), and the
                # value found in it was put there by a different spill sequence that a later spill round inserted in between
                if t._num is not None and isinstance(intruder, tuple) and intruder[0] == "spill" and intruder[1] != id(role["seq"]):
                    msg += "\n[KF2: fixed register %s of this spill sequence was reloaded by another spill sequence inserted into it by a later spill round]" % loc.name
                raise Mismatch("spilltemp", msg)
        for ui in role["ext"]:
            if ui < len(x.uses):
                r = x.uses[ui]
                a = self.pre_get(r)
                if a != inputs[ui]:
                    raise Mismatch(
                        "spillbase",
                        "%s (spill %s code) reads %s, which holds %s after allocation but %s before"
                        % (where, role["kind"], self.model.phys(r).name, self.describe(inputs[ui]), self.describe(a)),
                    )
        if role["kind"] == "store" and role["root"] is not None:
            self.slots[role["slot"]] = inputs[role["root"]]
        if x.plain_move:
            self.post_write(x.defs[0], inputs[0])
            self.last_out[(id(x.ins), 0)] = inputs[0]
            return
        u = self.uid(x)
        for r in x.clobbers:
            self.post_write(r, ("clob", u, n, _rname(r)))
        for j, r in enumerate(x.defs):
            if role["kind"] == "load" and role["root"] == j:
                s = self.slots.get(role["slot"], ("noslot", "%d(fp),%d bytes" % role["slot"]))
            else:
                s = ("def", u, n, j)
            self.post_write(r, s)
            self.last_out[(id(x.ins), j)] = s

    def run(self, choices, max_steps):
        rec = self.rec
        pre, post = rec.pre, rec.post
        p = q = 0
        ci = 0
        steps = 0
        while q < len(post):
            steps += 1
            if steps > max_steps:
                return
            x = post[q]
            where = "%s: instruction %d [%s]" % (rec.name, q, x.text)
            if id(x.ins) in rec.new:
                self.exec_new(x, where)
                q += 1
                continue
            pi = rec.pre_index[id(x.ins)]
            if pi < p:
                raise Mismatch("structure", "%s was moved backwards by the allocator" % where)
            while p < pi:
                y = pre[p]
                if id(y.ins) not in rec.removed:
                    raise Mismatch("structure", "%s: [%s] precedes it before allocation but not after" % (where, y.text))
                self.exec_pre_only(y)
                p += 1
            xp = pre[p]
            self.exec_both(xp, x, where)
            if xp.jumps:
                if len(xp.jumps) >= 2:
                    if ci < len(choices):
                        c = choices[ci] % len(xp.jumps)
                        ci += 1
                    else:
                        c = self.default_choice(xp)
                    self.taken.append(c)
                else:
                    c = 0
                t = xp.jumps[c]
                if id(t) not in rec.pre_index:
                    self.exited = True
                    return
                if id(t) not in rec.post_index:
                    raise Mismatch("structure", "%s jumps to [%s], which the allocator removed" % (where, t))
                p = rec.pre_index[id(t)]
                q = rec.post_index[id(t)]
            else:
                p += 1
                q += 1
        while p < len(pre):
            y = pre[p]
            if id(y.ins) not in rec.removed:
                raise Mismatch("structure", "%s: [%s] is missing at the end of the allocated list" % (rec.name, y.text))
            self.exec_pre_only(y)
            p += 1
        self.exited = True

    def default_choice(self, xp):
        best, bc = None, 0
        for c, t in enumerate(xp.jumps):
            d = self.dist.get(self.rec.pre_index.get(id(t), -1)) if self.dist is not None else None
            if id(t) not in self.rec.pre_index:
                d = 0
            if d is not None and (best is None or d < best):
                best, bc = d, c
        return bc


# ===========================================================================
# child side: flow graph of a list, edge cover, liveness, suspects (oracle 1)
# ===========================================================================


def succs_of(lst, index):
    """Successor index lists of an instruction list under ppci's convention (None = exit)."""
    res = []
    n = len(lst)
    for k, x in enumerate(lst):
        if x.jumps:
            res.append([index.get(id(t)) for t in x.jumps])
        else:
            res.append([k + 1 if k + 1 < n else None])
    return res


def dist_to_exit(succ):
    n = len(succ)
    preds = [[] for _ in range(n)]
    dist = {}
    frontier = []
    for k, ss in enumerate(succ):
        for s in ss:
            if s is None:
                if k not in dist:
                    dist[k] = 1
                    frontier.append(k)
            else:
                preds[s].append(k)
    while frontier:
        nxt = []
        for k in frontier:
            for p in preds[k]:
                if p not in dist:
                    dist[p] = dist[k] + 1
                    nxt.append(p)
        frontier = nxt
    return dist


def bfs_choices(lst, succ, start=0):
    """For every instruction reachable from `start`: the branch choices of a shortest path to it."""
    route = {start: ()}
    frontier = [start]
    while frontier:
        nxt = []
        for k in frontier:
            ss = succ[k]
            multi = len(lst[k].jumps) >= 2
            for c, s in enumerate(ss):
                if s is None or s in route:
                    continue
                route[s] = route[k] + ((c,) if multi else ())
                nxt.append(s)
        frontier = nxt
    return route


def edge_cover(rec):
    """Choice lists that together take every branch edge of the (pre-allocation) flow graph once."""
    succ = succs_of(rec.pre, rec.pre_index)
    route = bfs_choices(rec.pre, succ)
    paths = []
    for k in sorted(route):
        x = rec.pre[k]
        if len(x.jumps) >= 2:
            for c in range(len(x.jumps)):
                paths.append(list(route[k]) + [c])
    if not paths:
        paths.append([])
    return paths, succ


def liveness(lst, succ):
    """Per-instruction live-out sets (ids of register objects) by backward dataflow; independent of ppci's FlowGraph."""
    n = len(lst)
    use = [set(id(r) for r in x.uses) for x in lst]
    dfn = [set(id(r) for r in x.defs) for x in lst]
    preds = [[] for _ in range(n)]
    for k, ss in enumerate(succ):
        for s in ss:
            if s is not None:
                preds[s].append(k)
    live_in = [set() for _ in range(n)]
    live_out = [set() for _ in range(n)]
    work = list(range(n))
    inwork = [True] * n
    while work:
        k = work.pop()
        inwork[k] = False
        out = set()
        for s in succ[k]:
            if s is not None:
                out |= live_in[s]
        live_out[k] = out
        new_in = use[k] | (out - dfn[k])
        if new_in != live_in[k]:
            live_in[k] = new_in
            for p in preds[k]:
                if not inwork[p]:
                    inwork[p] = True
                    work.append(p)
    return live_in, live_out


def merged_list(rec):
    """The final list with the removed moves put back at their old places (definition points for liveness only)."""
    out = []
    p = 0
    gap = []
    emitted = set()
    for x in rec.post:
        if id(x.ins) in rec.new:
            role = rec.roles.get(id(x.ins))
            if role is None:
                gap.append(x)
                continue
            seq, k = role["seq"], role["pos"]
            a = k
            while a > 0 and id(seq[a - 1]) in rec.new_removed and id(seq[a - 1]) not in emitted:
                a -= 1
            for i in seq[a:k]:
                emitted.add(id(i))
                gap.append(rec.new_removed[id(i)])
            gap.append(x)
            b = k + 1
            while b < len(seq) and id(seq[b]) in rec.new_removed and id(seq[b]) not in emitted:
                emitted.add(id(seq[b]))
                gap.append(rec.new_removed[id(seq[b])])
                b += 1
            continue
        pi = rec.pre_index[id(x.ins)]
        removed = [y for y in rec.pre[p:pi] if id(y.ins) in rec.removed]
        p = pi + 1
        # spill stores belong to the previous instruction, loads to the next one
        cut = 0
        for k, g in enumerate(gap):
            if rec.roles.get(id(g.ins), {}).get("kind") == "store":
                cut = k + 1
        out.extend(gap[:cut])
        out.extend(removed)
        out.extend(gap[cut:])
        out.append(x)
        gap = []
    out.extend(gap)
    out.extend(y for y in rec.pre[p:] if id(y.ins) in rec.removed)
    return out


def find_suspects(rec):
    """Oracle 1: (index in merged list, written register, other live value) with overlapping physical registers."""
    model = rec.model
    lst = merged_list(rec)
    index = {id(x.ins): k for k, x in enumerate(lst)}
    succ = succs_of(lst, index)
    _, live_out = liveness(lst, succ)
    regobj = {}
    for x in lst:
        for r in x.uses + x.defs + x.clobbers:
            regobj[id(r)] = r
    suspects = []
    for k, x in enumerate(lst):
        if id(x.ins) in rec.removed or id(x.ins) in rec.new_removed:
            continue
        written = list(x.defs) + list(x.clobbers)
        if not written or not live_out[k]:
            continue
        for d in written:
            try:
                pd = model.phys(d)
            except ModelProblem:
                continue
            zone = {id(pd)} | {id(a) for a in model.overlap(pd)}
            for yid in live_out[k]:
                y = regobj[yid]
                if y is d:
                    continue
                try:
                    py = model.phys(y)
                except ModelProblem:
                    continue
                if id(py) not in zone:
                    continue
                if py is pd and y._num is not None and d._num is not None:
                    continue  # the same physical register object written and live: it IS the value
                if x.plain_move and x.defs[0] is d and x.uses[0] is y:
                    continue
                suspects.append((k, d, y))
    return lst, succ, suspects


def witness_choices(rec, lst, succ, k, y, route=None):
    """Branch choices of a path entry -> lst[k] -> ... -> a read of y (not redefined in between)."""
    if route is None:
        route = bfs_choices(lst, succ)
    if k not in route:
        return None
    # forward search from k for a use of y
    start = k
    seen = {start: ()}
    frontier = [start]
    found = None
    while frontier and found is None:
        nxt = []
        for a in frontier:
            multi = len(lst[a].jumps) >= 2
            for c, s in enumerate(succ[a]):
                if s is None or s in seen:
                    continue
                seen[s] = seen[a] + ((c,) if multi else ())
                if any(r is y for r in lst[s].uses):
                    found = s
                    break
                if any(r is y for r in lst[s].defs):
                    continue
                nxt.append(s)
            if found is not None:
                break
        frontier = nxt
    if found is None:
        return None
    return list(route[k]) + list(seen[found])


# ===========================================================================
# child side: checking one frame
# ===========================================================================


def run_path(rec, choices, dist, max_steps):
    """-> (failure message | None, Sim)."""
    sim = Sim(rec, dist)
    try:
        sim.run(choices, max_steps)
    except Mismatch as m:
        msg = m.msg
        why = explain_kf1(rec, m.info) if m.kind == "read" else None
        if why:
            msg += "\n[KF1: " + why + "]"
        return (m.kind, msg), sim
    return None, sim


def explain_kf1(rec, info):
    """Model of the wrong output for finding C06-KF1: ppci's FlowGraph has no fall-through edge from an instruction
    without `jumps` into a following jump target.  Returns the explanation iff (a) the frame has that shape and (b) with
    liveness computed WITHOUT those edges the clobbered value is dead at the clobbering definition, while it is live
    with them - i.e. exactly this defect accounts for the mismatch.  Anything else stays unexplained (and alarms)."""
    c, r, k = info.get("clobberer"), info.get("reader"), info.get("operand")
    if not isinstance(c, int) or r is None:
        return None
    pre = rec.pre
    n = len(pre)
    targets = set()
    for x in pre:
        for t in x.jumps:
            if id(t) in rec.pre_index:
                targets.add(rec.pre_index[id(t)])
    shape = [i for i in range(n - 1) if not pre[i].jumps and (i + 1) in targets]
    if not shape:
        return None
    full = succs_of(pre, rec.pre_index)
    ppci = []
    for i, x in enumerate(pre):
        if x.jumps:
            ppci.append(full[i])
        elif i + 1 < n and (i + 1) not in targets:
            ppci.append([i + 1])
        else:
            ppci.append([None])
    v = id(pre[r].uses[k])
    _, out_full = liveness(pre, full)
    _, out_ppci = liveness(pre, ppci)
    if v in out_full[c] and v not in out_ppci[c]:
        return "ppci's FlowGraph has no fall-through edge into the jump target(s) at #%s, so its liveness takes %r for dead at #%d [%s], which overwrites it" % (
            ",".join(str(i + 1) for i in shape[:4]), pre[r].uses[k].name, c, pre[c].text)
    return None


def check_frame(rec, tail, max_witness, stats):
    """All oracles on one frame.  -> None | {"func", "path", "msg", "kind"}"""
    slots = sorted(rec.slots)
    for i in range(len(slots) - 1):
        (o1, s1), (o2, s2) = slots[i], slots[i + 1]
        if o1 + s1 > o2:
            return {"func": rec.name, "path": [], "kind": "slots",
                    "msg": "%s: spill slots %d(fp) (%d bytes) and %d(fp) (%d bytes) overlap" % (rec.name, o1, s1, o2, s2)}
    paths, succ = edge_cover(rec)
    dist = dist_to_exit(succ)
    max_steps = 8 * len(rec.post) + 400
    todo = [p + list(tail) for p in paths]
    if tail:
        todo.append(list(tail))
    seen = set()
    for ch in todo:
        fail, sim = run_path(rec, ch, dist, max_steps)
        stats["paths"] += 1
        stats["reads_compared"] += sim.reads_compared
        stats["undef_reads"] += sim.undef_reads
        if not sim.exited and fail is None:
            stats["paths_truncated"] += 1
        if fail:
            return {"func": rec.name, "path": list(sim.taken), "kind": fail[0], "msg": fail[1]}
        seen.add(tuple(sim.taken))
    # oracle 1
    lst, msucc, suspects = find_suspects(rec)
    stats["suspects"] += len(suspects)
    done = 0
    tried = set()
    pairs = set()
    route = bfs_choices(lst, msucc)
    for k, d, y in suspects:
        if (k, id(y)) in pairs:
            stats["suspects_cleared"] += 1  # same witness path as an earlier suspect
            continue
        pairs.add((k, id(y)))
        if done >= max_witness:
            stats["suspects_unchecked"] += 1
            continue
        ch = witness_choices(rec, lst, msucc, k, y, route)
        if ch is None:
            stats["suspects_no_path"] += 1
            continue
        if tuple(ch) in tried:
            stats["suspects_cleared"] += 1
            continue
        tried.add(tuple(ch))
        done += 1
        fail, sim = run_path(rec, ch, dist, max_steps)
        stats["witness_paths"] += 1
        if fail:
            stats["suspects_confirmed"] += 1
            return {"func": rec.name, "path": list(sim.taken), "kind": fail[0], "msg": fail[1] + " [found by the liveness suspect detector]"}
        stats["suspects_cleared"] += 1
    return None


# ===========================================================================
# child side: compiling a case
# ===========================================================================


def build_module(case):
    """-> ppci ir.Module (raises Discard)."""
    import io

    from ppci.api import get_arch

    target = case["target"]
    arch = get_arch(target)
    if case["kind"] == "ir":
        from .. import genir

        try:
            m = genir.build(case["module"])
        except Exception:
            raise HarnessError("unbuildable module description:\n" + traceback.format_exc())
    elif case["kind"] == "c":
        from ppci.api import c_to_ir

        try:
            m = c_to_ir(io.StringIO(case["src"]), arch)
        except Exception as e:
            raise Discard("front-end: %s" % type(e).__name__)
    else:
        raise HarnessError("unknown case kind %r" % (case.get("kind"),))
    level = str(case.get("level", "0"))
    if level != "0":
        from ppci.api import optimize

        try:
            optimize(m, level=level)
        except Exception as e:
            raise Discard("optimizer: %s" % type(e).__name__)
    return arch, m


def compile_case(case):
    """Compile and capture.  -> Capture, function-level failures Counter"""
    from ppci.binutils.debuginfo import DebugDb
    from ppci.binutils.outstream import DummyOutputStream
    from ppci.codegen.codegen import CodeGenerator
    from ppci.irutils import verify_module
    from ppci.utils.reporting import DummyReportGenerator

    arch, m = build_module(case)
    try:
        verify_module(m)
    except Exception as e:
        raise Discard("verify_module: %s" % type(e).__name__)
    fails = collections.Counter()
    cap = Capture(arch)
    with cap:
        cg = CodeGenerator(arch, DummyReportGenerator())
        cg.debug_db = m.debug_db if m.debug_db else DebugDb()
        out = DummyOutputStream()
        for f in m.functions:
            n0 = len(cap.alloc_errors)
            try:
                cg.generate_function(f, out)
            except _StopAfterAlloc:
                pass
            except Exception as e:
                if len(cap.alloc_errors) > n0:
                    fails["allocator raised " + cap.alloc_errors[-1].split(":")[0]] += 1
                    cap.fail_msgs.append("alloc: " + cap.alloc_errors[-1])
                else:
                    fails["selection: " + type(e).__name__] += 1
                    cap.fail_msgs.append("%s: %s" % (type(e).__name__, str(e)[:160]))
    return cap, fails


def evaluate_case(compile_part, check_reader):
    """Runs in the forked child.  compile_part: dict; check_reader(): dict read AFTER compilation."""
    res = {"frames": [], "failure": None, "discard": None, "func_discards": {}, "problems": [], "stats": {}}
    t0 = time.process_time()
    try:
        cap, fails = compile_case(compile_part)
    except Discard as d:
        check_reader()
        res["discard"] = d.reason
        return res
    check = check_reader()
    t1 = time.process_time()
    res["cpu_compile"] = round(t1 - t0, 3)
    res["func_discards"] = dict(fails)
    res["problems"] = cap.problems[:5]
    res["fail_msgs"] = cap.fail_msgs[:4]
    stats = collections.Counter()
    want = check.get("func")
    for rec in cap.frames:
        if want is not None and rec.name != want:
            continue
        info = {
            "name": rec.name,
            "pre": len(rec.pre),
            "post": len(rec.post),
            "coalesced": rec.coalesced,
            "spill_loads": rec.spill_loads,
            "spill_stores": rec.spill_stores,
            "slots": rec.used_slots,
            "coalesced_spill_moves": rec.coalesced_spill_moves,
            "seq": dict(rec.seq_lens),
            "moves": sum(1 for x in rec.pre if x.ismove),
            "oddmoves": sum(1 for x in rec.pre if x.ismove and not x.plain_move),
            "branches": sum(1 for x in rec.pre if len(x.jumps) >= 2),
            "key": _h(rec.key_text()),
            "post_key": _h("\n".join("%s|%s|%s" % (x.text, x.ureprs, x.dreprs) for x in rec.post)),
            "fixed_regs": sorted({r.name for x in rec.pre for r in x.uses + x.defs if r._num is not None})[:40],
        }
        try:
            if "path" in check and check["path"] is not None:
                succ = succs_of(rec.pre, rec.pre_index)
                fail, sim = run_path(rec, list(check["path"]), dist_to_exit(succ), 8 * len(rec.post) + 400)
                stats["paths"] += 1
                stats["reads_compared"] += sim.reads_compared
                f = {"func": rec.name, "path": list(sim.taken), "kind": fail[0], "msg": fail[1]} if fail else None
            else:
                f = check_frame(rec, check.get("tail") or [], int(check.get("max_witness", 40)), stats)
        except ModelProblem as e:
            res["problems"].append("%s: %s" % (rec.name, e))
            info["model_problem"] = True
            f = None
        res["frames"].append(info)
        if f and res["failure"] is None:
            f["dump"] = rec.dump() if check.get("dump") else None
            res["failure"] = f
            break
    if want is not None and not res["frames"] and not res["problems"]:
        res["discard"] = "function %s produced no frame" % want
    res["stats"] = dict(stats)
    res["cpu_check"] = round(time.process_time() - t1, 3)
    return res


def _h(text):
    import hashlib

    return int.from_bytes(hashlib.blake2b(text.encode(), digest_size=8).digest(), "big")


# ===========================================================================
# zygote: fresh interpreter, fixed bootstrap, one forked child per case
# ===========================================================================


def _read_exact(fd, n):
    buf = b""
    while len(buf) < n:
        chunk = os.read(fd, n - len(buf))
        if not chunk:
            raise EOFError
        buf += chunk
    return buf


def _read_msg(fd):
    (n,) = struct.unpack("<I", _read_exact(fd, 4))
    return _read_exact(fd, n)


def _write_msg(fd, data):
    data = struct.pack("<I", len(data)) + data
    while data:
        k = os.write(fd, data)
        data = data[k:]


_JUNK = []


def _perturb(k):
    """Shift the small-object pools by k slots each: another (equally legitimate) heap layout, hence another order of
    ppci's id()-hashed sets.  Part of the case, so that a layout-dependent allocation can be replayed."""
    for i in range(k):
        for size in range(0, 520, 8):
            _JUNK.append(bytes(size + 1))
        _JUNK.append(object())
        _JUNK.append([None] * (i % 9))
        _JUNK.append({i: i})
        _JUNK.append({i})


def _child(fd_in, fd_out):
    import logging

    logging.disable(logging.WARNING)
    try:
        # The case comes in two regular files (fds 3 and 4), each read with ONE system call into ONE buffer: reading a
        # pipe would split the data at timing-dependent places, and the pattern of temporary buffers is part of the heap
        # history on which ppci's allocation depends.  Part 2 (function/path) is read only after compilation.
        part1 = json.loads(os.pread(CASE_FD1, os.fstat(CASE_FD1).st_size, 0))
        got = {}

        def reader():
            if "v" not in got:
                got["v"] = json.loads(os.pread(CASE_FD2, os.fstat(CASE_FD2).st_size, 0))
            return got["v"]

        try:
            _perturb(int(part1.get("perturb", 0)))
            res = evaluate_case(part1, reader)
        finally:
            reader()
        out = {"ok": res}
    except HarnessError as e:
        out = {"harness_error": str(e)}
    except BaseException:
        out = {"harness_error": traceback.format_exc()}
    _write_msg(fd_out, json.dumps(out).encode())


def zygote_imports():
    """Everything a child needs, imported in a fixed order.  Also run once as a separate warm-up process that fills the
    private bytecode cache, so that the zygote proper always *loads* bytecode (compiling a module from source instead
    leaves a different heap behind, and with it a different order of ppci's id()-hashed sets)."""
    import io  # noqa
    import ppci.api  # noqa
    import ppci.codegen.codegen  # noqa
    import ppci.codegen.registerallocator  # noqa
    import ppci.irutils  # noqa
    import ppci.binutils.debuginfo  # noqa
    import ppci.binutils.outstream  # noqa
    import ppci.utils.reporting  # noqa
    import ppci.lang.c  # noqa
    from ppci.api import get_arch
    from .. import genir  # noqa

    for t in TARGETS:
        get_arch(t)


def pycache_prefix():
    """Private bytecode cache of the zygote: independent of whatever other processes leave in __pycache__ directories.
    For the tree under test /repo it lives in /verif/.build; for a scratch copy (mutants, fix validation) next to it."""
    if os.path.abspath(REPO) == "/repo":
        return os.path.join(VERIF, ".build", "c06-pycache")
    return os.path.join(os.path.dirname(os.path.abspath(REPO)), "c06-pycache")


def _source_stamp():
    """Identity of every source file the zygote imports from the trees that change (sizes and mtimes)."""
    import hashlib

    h = hashlib.blake2b(digest_size=16)
    for root in (os.path.join(REPO, "ppci"), os.path.join(VERIF, "vf")):
        for d, dirs, files in os.walk(root):
            dirs[:] = sorted(x for x in dirs if x != "__pycache__")
            for f in sorted(files):
                if f.endswith(".py"):
                    st = os.stat(os.path.join(d, f))
                    h.update(("%s/%s:%d:%d;" % (d, f, st.st_size, st.st_mtime_ns)).encode())
    return h.hexdigest()


def zygote_main():
    """Entry of the fresh interpreter: import everything, warm the targets, then fork one child per request."""
    import logging

    logging.disable(logging.WARNING)
    fd_in, fd_out = 0, 1
    zygote_imports()
    sys.stdout = open(os.devnull, "w")
    import gc

    gc.collect()
    gc.freeze()  # children must not touch (copy) the zygote's heap during collections
    _write_msg(fd_out, b"ready")
    while True:
        try:
            tok = os.read(fd_in, 1)
        except OSError:
            break
        if tok != b"g":
            break
        pid = os.fork()
        if pid == 0:
            code = 0
            try:
                signal.alarm(CHILD_TIMEOUT_S)
                _child(fd_in, fd_out)
            except BaseException:
                code = 1
            os._exit(code)
        _, status = os.waitpid(pid, 0)
        if status != 0:
            _write_msg(fd_out, b'{"died": %d}' % status)
    os._exit(0)


class Zygote:
    """Client side: owns one zygote process."""

    def __init__(self):
        self.proc = None

    def start(self):
        env = {
            "PYTHONHASHSEED": "0",
            "PYTHONDONTWRITEBYTECODE": "1",
            "PYTHONPATH": VERIF + os.pathsep + REPO,
            "VERIF_REPO": REPO,
            "PATH": "/usr/local/bin:/usr/bin:/bin",
            "HOME": "/nonexistent",
            "LANG": "C",
        }
        env["PYTHONPYCACHEPREFIX"] = pycache_prefix()
        pre = [] if os.environ.get("VERIF_NO_SETARCH") else ["setarch", os.uname().machine, "-R"]
        # 1. warm-up: fill / refresh the private bytecode cache (writes allowed here)
        wenv = dict(env)
        del wenv["PYTHONDONTWRITEBYTECODE"]
        os.makedirs(env["PYTHONPYCACHEPREFIX"], exist_ok=True)
        stamp_file = os.path.join(env["PYTHONPYCACHEPREFIX"], "sources.stamp")
        stamp = _source_stamp()
        try:
            fresh = open(stamp_file).read() == stamp
        except OSError:
            fresh = False
        lock = None
        if not fresh:
            import fcntl

            lock = open(os.path.join(env["PYTHONPYCACHEPREFIX"], "warmup.lock"), "w")
            fcntl.flock(lock, fcntl.LOCK_EX)  # concurrent workers: one fills the cache, the others find it fresh
            try:
                fresh = open(stamp_file).read() == stamp
            except OSError:
                fresh = False
        if not fresh:
            w = subprocess.run(pre + [sys.executable, "-c", "from vf.props.c06 import zygote_imports; zygote_imports()"],
                               env=wenv, cwd=VERIF, stdin=subprocess.DEVNULL, stdout=subprocess.DEVNULL, stderr=subprocess.PIPE)
            if w.returncode != 0:
                lock.close()
                raise HarnessError("C06 zygote warm-up failed: %s" % w.stderr.decode(errors="replace")[-2000:])
            if _source_stamp() == stamp:
                tmp = stamp_file + ".%d" % os.getpid()
                with open(tmp, "w") as f:
                    f.write(stamp)
                os.replace(tmp, stamp_file)
        if lock is not None:
            lock.close()
        # 2. the zygote proper: never writes, always finds complete bytecode
        cmd = pre + [sys.executable, "-c", "import sys; from vf.props.c06 import zygote_main; zygote_main()"]
        import tempfile

        self.files = [tempfile.TemporaryFile(), tempfile.TemporaryFile()]

        def place():  # in the forked child, before exec: the two case files become fds 3 and 4
            a, b = self.files[0].fileno(), self.files[1].fileno()
            a2, b2 = os.dup(a), os.dup(b)  # move out of the way first
            os.dup2(a2, CASE_FD1, inheritable=True)
            os.dup2(b2, CASE_FD2, inheritable=True)

        self.proc = subprocess.Popen(cmd, stdin=subprocess.PIPE, stdout=subprocess.PIPE, env=env, cwd=VERIF, bufsize=0,
                                     preexec_fn=place, close_fds=False)
        try:
            hello = _read_msg(self.proc.stdout.fileno())
        except EOFError:
            raise HarnessError("C06 zygote did not start")
        if hello != b"ready":
            raise HarnessError("C06 zygote: unexpected greeting %r" % hello)

    def evaluate(self, case):
        """case -> result dict of evaluate_case (raises HarnessError)."""
        if self.proc is None or self.proc.poll() is not None:
            self.start()
        part1 = {"target": case["target"], "level": str(case.get("level", "0")), "kind": case["kind"], "perturb": int(case.get("perturb", 0))}
        if case["kind"] == "ir":
            part1["module"] = case["module"]
        else:
            part1["src"] = case["src"]
        part2 = {k: case[k] for k in ("func", "path", "tail", "max_witness", "dump") if k in case}
        fd = self.proc.stdin.fileno()
        try:
            for f, part in zip(self.files, (part1, part2)):
                f.seek(0)
                f.truncate()
                f.write(json.dumps(part, sort_keys=True).encode())
                f.flush()
            os.write(fd, b"g")
            out = json.loads(_read_msg(self.proc.stdout.fileno()))
        except (EOFError, OSError) as e:
            self.close()
            raise HarnessError("C06 zygote died: %s" % e)
        if "died" in out:
            self.close()
            if os.WIFSIGNALED(out["died"]) and os.WTERMSIG(out["died"]) == signal.SIGALRM:
                raise Discard("timeout")
            raise HarnessError("C06 child died with wait status %s" % out["died"])
        if "harness_error" in out:
            raise HarnessError("C06 child: " + out["harness_error"])
        return out["ok"]

    def close(self):
        if self.proc is not None:
            try:
                self.proc.stdin.close()
            except Exception:
                pass
            try:
                self.proc.wait(timeout=5)
            except Exception:
                self.proc.kill()
            self.proc = None
            for f in getattr(self, "files", ()):
                try:
                    f.close()
                except Exception:
                    pass


_ZYG = None


def close_zygote():
    """Close this process's own zygote (never one inherited from a parent process)."""
    global _ZYG
    if _ZYG is not None and getattr(_ZYG, "pid_owner", None) == os.getpid():
        _ZYG.close()
    _ZYG = None


def zygote():
    global _ZYG
    if _ZYG is None or _ZYG.proc is None or _ZYG.pid_owner != os.getpid():
        _ZYG = Zygote()
        _ZYG.pid_owner = os.getpid()
        import atexit

        atexit.register(_ZYG.close)
    return _ZYG


# ===========================================================================
# parent side: evaluation front ends
# ===========================================================================


class _TimeLimit:
    """SIGALRM guard around an in-process compilation (a runaway case is a discard, never a failure)."""

    def __init__(self, seconds):
        self.seconds = seconds

    def _fire(self, *a):
        raise Discard("timeout")

    def __enter__(self):
        self.old = signal.signal(signal.SIGALRM, self._fire)
        signal.setitimer(signal.ITIMER_REAL, self.seconds)

    def __exit__(self, *exc):
        signal.setitimer(signal.ITIMER_REAL, 0)
        signal.signal(signal.SIGALRM, self.old)
        return False


def _split(case):
    part1 = {"target": case["target"], "level": str(case.get("level", "0")), "kind": case["kind"]}
    if case["kind"] == "ir":
        part1["module"] = case["module"]
    else:
        part1["src"] = case["src"]
    part2 = {k: case[k] for k in ("func", "path", "tail", "max_witness", "dump") if k in case}
    return part1, part2


def evaluate_local(case, limit_s=120):
    """In-process evaluation (the search): fast, but the allocation depends on this process's heap history."""
    import logging

    logging.disable(logging.WARNING)
    part1, part2 = _split(case)
    out, saved = sys.stdout, None
    try:
        saved = sys.stdout
        sys.stdout = open(os.devnull, "w")
        with _TimeLimit(limit_s):
            return evaluate_case(part1, lambda: part2)
    finally:
        try:
            sys.stdout.close()
        except Exception:
            pass
        sys.stdout = saved


def _message(res):
    f = res.get("failure")
    if not f:
        return None
    msg = "[%s] %s\npath (branch choices) = %s" % (f["kind"], f["msg"], f["path"])
    if f.get("dump"):
        msg += "\n" + f["dump"]
    return msg


def replay(case):
    """One JSON case, evaluated in a forked child of a fresh zygote interpreter (reproducible heap).

    ppci's allocation depends on the heap layout, and the layout before compilation depends on every imported module,
    the harness included.  A case that records `perturb` (every failing case does: it is the layout under which the failure
    was confirmed) is therefore replayed as "fails under the recorded layout or one of the other MAX_PERTURB standard
    layouts", which stays a deterministic function of (case, tree) but survives edits of the harness.  A case without
    `perturb` (regression corpus) is evaluated once."""
    c = dict(case)
    c["dump"] = True
    ks = [int(case.get("perturb", 0))]
    if "perturb" in case:
        ks += [k for k in range(MAX_PERTURB) if k != ks[0]]
    first = None
    for k in ks:
        try:
            res = zygote().evaluate(dict(c, perturb=k))
        except Discard:
            if first is None:
                raise
            continue
        if first is None:
            first = res
            if res.get("discard"):
                raise Discard(res["discard"])
            if not res["frames"] and not res.get("failure"):
                raise Discard("no frame: %s %s" % (res.get("func_discards"), res.get("problems")))
        msg = _message(res)
        if msg is not None:
            return msg
    return None


def explicit_case(case, res):
    f = res["failure"]
    c = {k: v for k, v in case.items() if k not in ("tail", "gen", "max_witness", "dump")}
    c["func"] = f["func"]
    c["path"] = f["path"]
    return c


MAX_PERTURB = 8
CONFIRM_BUDGET_S = 150


def confirm_in_zygote(case, classify_fn=None):
    """A failure seen in-process -> replayable case (search form first, then explicit path), trying a few heap layouts.
    Returns (case, msg) or None when no tried layout reproduces it."""
    t_end = time.time() + CONFIRM_BUDGET_S
    for k in range(MAX_PERTURB):
        if k and time.time() > t_end:
            break
        c = dict(case)
        c["perturb"] = k
        c.pop("gen", None)
        try:
            res = zygote().evaluate(c)
        except Discard:
            continue
        if res.get("failure"):
            e = explicit_case(c, res)
            try:
                res2 = zygote().evaluate(dict(e, dump=True))
            except Discard:
                res2 = {}
            if res2.get("failure"):
                return e, _message(res2)
            return c, _message(res)
    return None


# ===========================================================================
# parent side: generators
# ===========================================================================

BITS = {"i8": 8, "u8": 8, "i16": 16, "u16": 16, "i32": 32, "u32": 32, "i64": 64, "u64": 64, "f32": 32, "f64": 64}
ALL_INT = ["i8", "u8", "i16", "u16", "i32", "u32", "i64", "u64"]


class TInfo:
    """What the harness needs to know about a target to generate for it (computed from arch.info)."""

    def __init__(self, target):
        from ppci.api import get_arch

        arch = get_arch(target)
        names = {str(getattr(t, "name", t)) for t in arch.info.value_classes}
        self.target = target
        self.ints = [t for t in ALL_INT if t in names]
        self.floats = [t for t in ("f32", "f64") if t in names]
        self.pbits = ptr_bits(target)
        self.ity = "i32" if "i32" in self.ints and self.pbits >= 32 else "i16"
        self.nregs = max(len(rc.registers or ()) for rc in arch.info.register_classes)
        self.c_ok = target not in ("avr",)


_TINFO = {}


def tinfo(target):
    if target not in _TINFO:
        _TINFO[target] = TInfo(target)
    return _TINFO[target]


def genir_profile(ti):
    from .. import genir

    floats = ti.floats if ti.target == "x86_64" else []
    return genir.Profile(
        name="c06-" + ti.target,
        int_types=ti.ints,
        float_types=floats,
        ptr_bits=ti.pbits,
        rotates=False,
        tailrec="i32" in ti.ints,
        float_int_casts=bool(floats),
        max_blocks=7,
        max_ins=9,
        max_funcs=3,
        permute_blocks=True,
        phi_liveout=True,
        observe=ti.pbits > 16,  # the accumulator idiom (x * 31 + v) is not covered by the 16-bit back-ends
    )


def narrow_c(src, ti):
    """gencc writes LP64 C; narrow the types textually to what the 16/32-bit back-ends cover (meaning is irrelevant here:
    the unit only has to compile)."""
    import re

    if ti.target == "x86_64":
        return src
    s = re.sub(r"\bunsigned long long\b", "unsigned int", src)
    s = re.sub(r"\blong long\b", "int", s)
    s = re.sub(r"\bunsigned long\b", "unsigned int", s)
    s = re.sub(r"\blong\b", "int", s)
    s = re.sub(r"\b(0[xX][0-9a-fA-F]+|\d+)(ULL|LL|UL|L)\b", lambda m: m.group(1) + ("U" if "U" in m.group(2) else ""), s)
    s = s.replace("int int", "int")
    return s


_BASIC = "+ - ^ & | << >>"
_FULL = "+ - ^ & | * << >> / %"
_NOX = "+ - & | * << >> / %"
_S8 = ("i8", "u8")
_S16 = ("i16", "u16")
_S32 = ("i32", "u32")
_S64 = ("i64", "u64")


def _capabilities():
    """What each back-end's instruction selector covers (measured with tools in notes/C06.md; only steers generation:
    a stale entry costs discards, never soundness)."""
    cap = {}
    cap["x86_64"] = {
        "ops": {**{t: _BASIC for t in _S8 + _S16}, **{t: _FULL for t in _S32 + _S64}, "f32": "+ - * /", "f64": "+ - * /"},
        "cmp": list(_S8 + _S16 + _S32 + _S64) + ["f32", "f64"],
        "call": list(_S8 + _S16 + _S32 + _S64) + ["f32", "f64"],
        "load": list(_S8 + _S16 + _S32 + _S64) + ["f32", "f64"],
    }
    cap["arm"] = {
        "ops": {"i8": _BASIC, "u8": "+ ^ & | << >>", "i16": _BASIC, "u16": _BASIC, "i32": _FULL, "u32": "+ - ^ & | * << >> /"},
        "cmp": list(_S8 + _S16 + _S32), "call": list(_S8 + _S16 + _S32), "load": list(_S8 + _S16 + _S32),
    }
    cap["arm:thumb"] = {
        "ops": {"i8": _BASIC, "u8": "^ & | << >>", "i16": "^ & | << >>", "u16": "^ & | << >>", "i32": _FULL, "u32": "+ - ^ & | * << >>"},
        "cmp": list(_S8 + _S16 + _S32), "call": list(_S8 + _S16 + _S32), "load": list(_S8 + _S16 + _S32),
    }
    rv = {
        "ops": {"i8": "+ - ^ & | * << >>", "u8": "+ - ^ & | * << >>", "i16": _BASIC, "u16": _FULL, "i32": _FULL, "u32": _FULL,
                "f32": "+ - * /", "f64": "+ - * /"},
        "cmp": list(_S8 + _S16 + _S32), "call": list(_S8 + _S16 + _S32), "load": list(_S8 + _S16 + _S32) + ["f32", "f64"],
    }
    cap["riscv"] = rv
    cap["riscv:rvc"] = rv
    cap["m68k"] = {"ops": {"i32": "+ - & |", "u32": "+ - & |"}, "cmp": ["i32", "u32"], "call": [], "load": [], "regs_only": True}
    cap["mips"] = {
        "ops": {"i8": "& |", "u8": "& |", "i16": "& |", "u16": "& |", "i32": "+ - ^ & | * << >> /", "u32": "+ - ^ & | * << >> /"},
        "cmp": ["i8", "u8", "i32"], "call": list(_S8 + _S16 + _S32), "load": list(_S8 + _S16 + _S32),
    }
    m16 = {"i8": "+ - & | << >>", "u8": "+ - & | << >>", "i16": _NOX, "u16": _NOX}
    cap["msp430"] = {"ops": m16, "cmp": ["i8", "i16"], "call": list(_S8 + _S16), "load": list(_S8 + _S16)}
    cap["avr"] = {"ops": m16, "cmp": list(_S8 + _S16), "call": list(_S16), "load": list(_S8 + _S16)}
    cap["xtensa"] = {
        "ops": {"i8": "& | << >>", "u8": "& | << >>", "i16": "& | << >>", "u16": "& | << >>", "i32": _NOX, "u32": _NOX},
        "cmp": list(_S8 + _S32), "call": list(_S8 + _S32), "load": list(_S8 + _S16 + _S32),
    }
    cap["or1k"] = {
        "ops": {"i8": _BASIC, "u8": "+ & | << >>", "i16": "& | << >>", "u16": "& | << >>", "i32": _FULL, "u32": "+ - & | * << >> /"},
        "cmp": list(_S8 + _S32), "call": list(_S8 + _S16 + _S32), "load": list(_S8 + _S16 + _S32),
    }
    cap["microblaze"] = {
        "ops": {t: _FULL for t in _S8 + _S16 + _S32},
        "cmp": list(_S8 + _S16 + _S32), "call": list(_S8 + _S16 + _S32), "load": list(_S8 + _S16 + _S32),
    }
    for c in cap.values():
        c["ops"] = {t: (o.split() if isinstance(o, str) else o) for t, o in c["ops"].items()}
    return cap


CAP = _capabilities()


def cast_ok(target, a, b):
    """Is `cast a -> b` covered by the target's selector (measured)?"""
    if a == b or a == "ptr" or b == "ptr":
        return False
    fa, fb = a[0] == "f", b[0] == "f"
    if target == "x86_64":
        if fa or fb:
            other = b if fa else a
            return other[0] == "f" or BITS[other] >= 32
        return True
    if target in ("riscv", "riscv:rvc"):
        if fa or fb:
            other = b if fa else a
            return other[0] == "f" or other == "i32"
        return True
    if fa or fb or target == "m68k":
        return False
    sa, sb = BITS[a], BITS[b]
    if target in ("msp430", "avr"):
        return (a, b) in {("i8", "u8"), ("i8", "i16"), ("u8", "i8"), ("u8", "i16"), ("i16", "i8"), ("i16", "u8"), ("i16", "u16"), ("u16", "i16")}
    if target == "mips":
        if sa == 16 or sb == 16:
            return sa == sb
        return True
    if target == "or1k" and a == "u32" and b == "i8":
        return False
    if sa < 32 and sb < 32:
        return sa == sb
    return True


class _FB:
    """Builder of one stress function as a genir description."""

    def __init__(self, draw, name, ti, mod):
        from hypothesis import strategies as st

        self.st = st
        self.draw = draw
        self.name = name
        self.ti = ti
        self.cap = CAP[ti.target]
        self.regs_only = bool(self.cap.get("regs_only"))
        self.mod = mod
        self.blocks = []
        self.counter = 0
        self.pool = {}
        self.cur = None

    def pick(self, seq):
        return seq[self.draw(self.st.integers(0, len(seq) - 1))]

    def chance(self, pct):
        return self.draw(self.st.integers(0, 99)) < pct

    def fresh(self, p="v"):
        self.counter += 1
        return "%s_%s%d" % (self.name, p, self.counter)

    def block(self):
        b = {"name": "%s_b%d" % (self.name, len(self.blocks)), "ins": []}
        self.blocks.append(b)
        return b

    def emit(self, ins):
        self.cur["ins"].append(ins)

    def add(self, name, ty):
        self.pool.setdefault(ty, []).append(name)

    def const(self, ty, v):
        n = self.fresh("c")
        self.emit(["const", n, ty, float(v) if ty[0] == "f" else v])
        return n

    def types(self, need_ops=False, only=None):
        ts = [t for t in sorted(self.pool) if t != "ptr" and self.pool[t]]
        if need_ops:
            ts = [t for t in ts if self.cap["ops"].get(t)]
        if only is not None:
            ts = [t for t in ts if t in only]
        return ts

    def value(self, ty):
        if self.pool.get(ty) and (self.regs_only or self.chance(92)):
            return self.pick(self.pool[ty])
        return self.const(ty, self.draw(self.st.integers(1, 100)))

    def binop(self, ty, a, op, b):
        n = self.fresh()
        self.emit(["binop", n, ty, a, op, b])
        return n

    def light_op(self, ty):
        ops = [o for o in self.cap["ops"].get(ty, ()) if o in ("+", "-", "^", "&", "|")]
        return self.pick(ops) if ops else None

    def rand_op(self, heavy, ty=None):
        ts = self.types(need_ops=True)
        if ty is None:
            ty = self.pick(ts)
        ops = self.cap["ops"][ty]
        light = [o for o in ops if o in ("+", "-", "^", "&", "|")]
        if light and not (heavy and self.chance(30)):
            ops = light
        op = self.pick(ops)
        a = self.value(ty)
        if op in ("<<", ">>"):
            b = self.const(ty, self.draw(self.st.integers(0, 7)))
        elif op in ("/", "%"):
            b = self.const(ty, self.pick([1, 2, 3, 5, 7, 10]))
        else:
            b = self.value(ty)
        return self.binop(ty, a, op, b), ty

    def load(self, ty, base, off):
        c = self.const("ptr", off)
        a = self.binop("ptr", base, "+", c)
        n = self.fresh()
        self.emit(["load", n, ty, a, False])
        return n

    def call_types(self):
        return [t for t in self.cap["call"] if t in self.mod.call_types]

    def call(self, ty):
        ext = self.mod.external(ty)
        args = [self.value(ty), self.value(ty)]
        n = self.fresh("r")
        self.emit(["call", n, ty, ext, args])
        return n

    def cmp_pair(self):
        ts = self.types(only=self.cap["cmp"])
        ty = self.pick(ts) if ts else None
        if ty is None:
            ty = self.cap["cmp"][0]
        return ty, self.value(ty), self.value(ty)

    # -- segments ------------------------------------------------------------------
    def seg_straight(self, heavy):
        for _ in range(self.draw(self.st.integers(1, 5))):
            n, ty = self.rand_op(heavy)
            self.add(n, ty)
        if self.call_types() and self.chance(40):
            ty = self.pick(self.call_types())
            self.add(self.call(ty), ty)

    def seg_callchain(self):
        if not self.call_types():
            return self.seg_straight(False)
        ty = self.pick(self.call_types())
        r = self.value(ty)
        for _ in range(self.draw(self.st.integers(2, 5))):
            ext = self.mod.external(ty)
            n = self.fresh("r")
            self.emit(["call", n, ty, ext, [r, self.value(ty)]])
            r = n
            if self.chance(50):
                self.add(n, ty)
        self.add(r, ty)

    def seg_castchain(self):
        target = self.ti.target
        ty = self.pick(self.types())
        v = self.value(ty)
        for _ in range(self.draw(self.st.integers(2, 6))):
            tos = [t for t in self.ti.ints if cast_ok(target, ty, t)]
            if not tos:
                break
            same = [t for t in tos if BITS[t] == BITS[ty]]
            t2 = self.pick(same) if same and self.chance(65) else self.pick(tos)
            n = self.fresh()
            self.emit(["cast", n, t2, v])
            v, ty = n, t2
            if self.chance(40):
                self.add(n, t2)
        self.add(v, ty)

    def arm_value(self, t):
        op = self.light_op(t)
        if op is None or self.chance(25):
            return self.value(t)  # a plain copy through the phi
        return self.binop(t, self.value(t), op, self.value(t))

    def seg_diamond(self, heavy):
        ty, a, b = self.cmp_pair()
        head = self.cur
        arm_a, arm_b = self.block(), self.block()
        head["ins"].append(["cjmp", a, self.pick(["==", "<", ">", "!=", "<=", ">="]), b, arm_a["name"], arm_b["name"]])
        r = self.draw(self.st.integers(1, 4))
        tys = [self.pick(self.types()) for _ in range(r)]
        outs = []
        for arm in (arm_a, arm_b):
            self.cur = arm
            vals = [self.arm_value(t) for t in tys]
            if heavy and self.call_types() and self.chance(30):
                self.call(self.pick(self.call_types()))
            outs.append(vals)
        join = self.block()
        for arm in (arm_a, arm_b):
            arm["ins"].append(["jmp", join["name"]])
        self.cur = join
        for i, t in enumerate(tys):
            n = self.fresh("phi")
            self.emit(["phi", n, t, {arm_a["name"]: outs[0][i], arm_b["name"]: outs[1][i]}])
            self.add(n, t)

    def seg_loop(self, heavy, rotate):
        pre = self.cur
        ty = self.pick(self.types())
        r = self.draw(self.st.integers(2, 5)) if rotate else self.draw(self.st.integers(1, 4))
        tys = [ty] * r if rotate else [self.pick(self.types()) for _ in range(r)]
        inits = [self.value(t) for t in tys]
        cty, ca, cb = self.cmp_pair()
        head, latch, after = self.block(), self.block(), self.block()
        pre["ins"].append(["jmp", head["name"]])
        self.cur = head
        phis = [self.fresh("phi") for _ in tys]
        for n, t in zip(phis, tys):
            self.add(n, t)
        hvals = []
        for _ in range(self.draw(self.st.integers(0, 3))):
            if self.types(need_ops=True):
                hvals.append(self.rand_op(heavy))
        if heavy and self.call_types() and self.chance(35):
            t = self.pick(self.call_types())
            hvals.append((self.call(t), t))
        for n, t in hvals:
            self.add(n, t)
        head_body = head["ins"]
        head["ins"] = []
        self.cur = latch
        if rotate:
            k = self.draw(self.st.integers(1, r - 1)) if r > 1 else 0
            if self.chance(30) and r >= 2:
                nexts = [phis[1], phis[0]] + phis[2:]  # swap
            else:
                nexts = [phis[(i + k) % r] for i in range(r)]
            op = self.light_op(ty)
            if op and self.chance(40):
                i = self.draw(self.st.integers(0, r - 1))
                nexts[i] = self.binop(ty, nexts[i], op, self.value(ty))
        else:
            nexts = []
            for p_, t in zip(phis, tys):
                op = self.light_op(t)
                if op is None or self.chance(20):
                    nexts.append(self.value(t))
                else:
                    nexts.append(self.binop(t, p_, op, self.value(t)))
        latch["ins"].append(["jmp", head["name"]])
        head["ins"] = [["phi", n, t, {pre["name"]: i0, latch["name"]: nx}] for n, t, i0, nx in zip(phis, tys, inits, nexts)]
        head["ins"] += head_body
        head["ins"].append(["cjmp", ca, self.pick(["<", "!=", ">"]), cb, latch["name"], after["name"]])
        self.cur = after

    def finish(self, value, loop_to):
        if loop_to is None:
            self.emit(["ret", value])
            return
        # the function's first block becomes a branch target (a loop around the whole body)
        ty, a, b = self.cmp_pair()
        last = self.block()
        self.emit(["cjmp", a, "<", b, loop_to, last["name"]])
        self.cur = last
        self.emit(["ret", value])

    def fold_all(self, ret_ty, q, loop_to=None):
        """Make every pooled value matter up to the end of the function."""
        target = self.ti.target
        accs = {}
        k = 0
        for ty in sorted(self.pool):
            if ty == "ptr":
                continue
            for v in self.pool[ty]:
                x, t = v, ty
                if ty != ret_ty and cast_ok(target, ty, ret_ty) and self.cap["ops"].get(ret_ty):
                    x, t = self.fresh(), ret_ty
                    self.emit(["cast", x, ret_ty, v])
                ops = [o for o in self.cap["ops"].get(t, ()) if o in ("+", "-", "^", "&", "|")]
                if t not in accs:
                    accs[t] = x
                elif ops:
                    accs[t] = self.binop(t, accs[t], ops[k % len(ops)], x)
                    k += 1
                elif q is not None:
                    self.emit(["store", x, q, False])
        for t, a in sorted(accs.items()):
            if t != ret_ty and q is not None:
                self.emit(["store", a, q, False])
        if ret_ty in accs:
            if q is not None:
                self.emit(["store", accs[ret_ty], q, False])
            self.finish(accs[ret_ty], loop_to)
        else:
            self.finish(self.value(ret_ty), loop_to)


class _SM:
    def __init__(self, ti):
        self.ti = ti
        self.externals = {}
        self.call_types = list(CAP[ti.target]["call"])

    def external(self, ty):
        name = "ext_" + ty
        self.externals[name] = {"name": name, "args": [ty, ty], "ret": ty}
        return name


def kf1_open():
    from ..core import open_finding_ids

    return "C06-KF1" in open_finding_ids(PID)


def kf2_open():
    from ..core import open_finding_ids

    return "C06-KF2" in open_finding_ids(PID)


AVR_KF2_MAX_VALUES = 18  # fewer simultaneously live values on avr: spill slots stay within Y+63, no Z-addressed spill code


def stress_module(ti, flavour):
    from hypothesis import strategies as st

    cap = CAP[ti.target]
    exclude_kf1 = kf1_open()
    exclude_kf2 = ti.target == "avr" and kf2_open()

    @st.composite
    def _m(draw):
        mod = _SM(ti)
        funcs = []
        excluded = 0
        excluded2 = 0
        for fi in range(draw(st.integers(1, 2))):
            fb = _FB(draw, "s%d" % fi, ti, mod)
            heavy = flavour == "spill"
            if fb.regs_only:
                ity = draw(st.sampled_from(["i32", "u32"]))
                params = [["%s_a%d" % (fb.name, i), ity] for i in range(draw(st.integers(2, 3)))]
                for pn, pt in params:
                    fb.add(pn, pt)
                fb.cur = fb.block()
                q = None
                for _ in range(draw(st.integers(1, 10 if heavy else 3))):
                    n, t = fb.rand_op(False)
                    fb.add(n, t)
            else:
                ity = ti.ity
                ptys = [t for t in cap["call"] if t[0] != "f"] or [ity]
                ta = ity if draw(st.integers(0, 99)) < 50 else fb.pick(ptys)
                tb = ity if draw(st.integers(0, 99)) < 50 else fb.pick(ptys)
                params = [["%s_p" % fb.name, "ptr"], ["%s_q" % fb.name, "ptr"], ["%s_a" % fb.name, ta], ["%s_b" % fb.name, tb]]
                fb.add(params[2][0], ta)
                fb.add(params[3][0], tb)
                fb.cur = fb.block()
                q = params[1][0]
                ltypes = [t for t in cap["load"] if t[0] != "f" or draw(st.integers(0, 99)) < 50]
                if heavy:
                    lo, hi = max(3, ti.nregs // 2), ti.nregs + 8
                else:
                    lo, hi = 1, 5
                k = draw(st.integers(lo, hi))
                if exclude_kf2 and k > AVR_KF2_MAX_VALUES:
                    k = AVR_KF2_MAX_VALUES
                    excluded2 += 1
                wide = draw(st.integers(0, 99)) < 60
                for i in range(k):
                    ty = ity if (wide and draw(st.integers(0, 99)) < 70) else fb.pick(ltypes)
                    fb.add(fb.load(ty, params[0][0], (i * 8) % 64), ty)
            nseg = draw(st.integers(0, 1)) if fb.regs_only else draw(st.integers(1, 4))
            # C06-KF1 (open): no fall-through edge into a jump target.  The shape that triggers it at will - the entry block
            # as a branch target - is not generated while the finding is open.  (The other way in, mips' CJMP patterns that
            # emit no jump, turned up only under a mutant; it is left to classify().)
            entry_loop = not fb.regs_only and draw(st.integers(0, 99)) < 15
            if entry_loop and exclude_kf1:
                entry_loop = False
                excluded += 1
            straight_only = False
            for _ in range(nseg):
                r = draw(st.integers(0, 99))
                if straight_only:
                    if r < 50:
                        fb.seg_straight(heavy)
                    elif r < 80:
                        fb.seg_callchain()
                    else:
                        fb.seg_castchain()
                elif heavy:
                    if r < 30:
                        fb.seg_straight(True)
                    elif r < 55:
                        fb.seg_diamond(True)
                    elif r < 80:
                        fb.seg_loop(True, False)
                    elif r < 90:
                        fb.seg_loop(True, True)
                    else:
                        fb.seg_callchain()
                else:
                    if r < 10:
                        fb.seg_straight(False)
                    elif r < 30:
                        fb.seg_diamond(False)
                    elif r < 60:
                        fb.seg_loop(False, True)
                    elif r < 75:
                        fb.seg_loop(False, False)
                    elif r < 88:
                        fb.seg_callchain()
                    else:
                        fb.seg_castchain()
            fb.fold_all(ity, q, loop_to=fb.blocks[0]["name"] if entry_loop else None)
            funcs.append({"name": fb.name, "params": params, "ret": ity, "bufs": {}, "tailrec": False, "blocks": fb.blocks,
                          "layout": list(range(len(fb.blocks)))})
        m = {"ptr_bits": ti.pbits, "globals": [], "externals": list(mod.externals.values()), "functions": funcs}
        if excluded:
            m["excluded_kf1"] = excluded
        if excluded2:
            m["excluded_kf2"] = excluded2
        return m

    return _m()


GEN_WEIGHTS = [("genir", 30), ("cc", 25), ("spill", 25), ("copy", 20)]


def mixed_width_c():
    """One C function over 6-9 locals of mixed widths loaded from a long array: ternaries, small-divisor / and %, shifts, a
    counted loop with an if/else, calls to external functions of three widths, a weighted sum at the end."""
    from hypothesis import strategies as st

    @st.composite
    def _src(draw):
        types = ["char", "unsigned char", "short", "int", "int", "long", "long", "unsigned int"]
        n = draw(st.integers(6, 9))
        vt = [draw(st.sampled_from(types)) for _ in range(n)]
        v = lambda: "v%d" % draw(st.integers(0, n - 1))  # noqa: E731
        k = lambda lo, hi: draw(st.integers(lo, hi))  # noqa: E731

        def expr():
            r = k(0, 9)
            if r < 3:
                return "(%s %s %d > %d) ? %s : %s" % (v(), draw(st.sampled_from(["+", "&", "|", "%"])), k(1, 9), k(0, 50), v(), v())
            if r < 5:
                return "%s %s ((%s & 7) + 1)" % (v(), draw(st.sampled_from(["/", "%"])), v())
            if r < 7:
                return "%s %s (%s & 3)" % (v(), draw(st.sampled_from([">>", "<<"])), v())
            if r < 8:
                return "%s(%s, %s)" % (draw(st.sampled_from(["gl", "gi", "gc"])), v(), v())
            return "%s %s %s" % (v(), draw(st.sampled_from(["^", "&", "|", "+", "-", "*"])), v())

        def assign(ind):
            return "%s%s = %s;" % (ind, v(), expr())

        L = ["long gl(long a, long b);", "int gi(int a, int b);", "char gc(char a, char b);", "int f(long *p) {"]
        for i, t in enumerate(vt):
            L.append("  %s v%d = (%s)p[%d];" % (t, i, t, i))
        for _ in range(k(1, 4)):
            L.append(assign("  "))
        if k(0, 3):
            L.append("  for (int k0 = 0; k0 < %d; k0++) {" % k(2, 4))
            L.append("    if (%s & %d > %d) {" % (v(), k(1, 9), k(0, 40)))
            for _ in range(k(1, 3)):
                L.append(assign("      "))
            L.append("    } else {")
            for _ in range(k(1, 3)):
                L.append(assign("      "))
            L.append("    }")
            L.append("  }")
        for _ in range(k(1, 3)):
            L.append(assign("  "))
        L.append("  return %s;" % " + ".join("v%d*%d" % (i, 2 * i + 1) for i in range(n)))
        L.append("}")
        return "\n".join(L) + "\n"

    return _src()


def case_strategy(targets):
    from hypothesis import strategies as st

    from .. import gencc, genir

    @st.composite
    def _c(draw):
        pool = [t for t in targets for _ in range(1 if CAP[t].get("regs_only") else 5)]
        target = pool[draw(st.integers(0, len(pool) - 1))]
        ti = tinfo(target)
        r = draw(st.integers(0, 99))
        gen = None
        for name, w in GEN_WEIGHTS:
            if r < w:
                gen = name
                break
            r -= w
        if target == "x86_64" and draw(st.integers(0, 99)) < 45:
            # values of DIFFERENT widths (char / short / int / long) under pressure, with calls, divisions and returns that
            # pin eax / rax: coalescing through aliasing registers (al, ax, eax, rax)
            return {"target": target, "gen": "mixc", "kind": "c", "src": draw(mixed_width_c()), "level": draw(st.sampled_from(["1", "2", "2"]))}
        if gen == "cc" and not ti.c_ok:
            gen = "genir"
        if CAP[target].get("regs_only"):
            gen = "copy" if gen in ("cc", "copy") else "spill"
        if ti.pbits == 16 and gen in ("genir", "cc") and draw(st.integers(0, 99)) < 70:
            gen = "copy" if gen == "cc" else "spill"  # genir's i32 loop guard and most gencc units do not compile there
        case = {"target": target, "gen": gen}
        if gen == "genir":
            case["kind"] = "ir"
            case["module"] = draw(genir.modules(genir_profile(ti)))
            case["level"] = draw(st.sampled_from(["0", "0", "1", "2"]))
        elif gen == "cc":
            opt = gencc.Options(floats=(target == "x86_64"), structs=True, pointers=True, max_funcs=3, max_stmts=6, max_depth=3)
            prog = draw(gencc.programs(opt))
            case["kind"] = "c"
            src = prog["src"]
            cut = src.find("long rd_0(void)")
            if cut > 0:
                src = src[:cut]  # the observer functions are trivial frames
            case["src"] = narrow_c(src, ti)
            case["level"] = draw(st.sampled_from(["0", "1", "2", "2"]))
        else:
            case["kind"] = "ir"
            case["module"] = draw(stress_module(ti, gen))
            for key, kid in (("excluded_kf1", "C06-KF1"), ("excluded_kf2", "C06-KF2")):
                if key in case["module"]:
                    case.setdefault("excluded", {})[kid] = case["module"].pop(key)
            case["level"] = draw(st.sampled_from(["0", "0", "2"]))
        case["tail"] = draw(st.lists(st.integers(0, 1), max_size=24))
        return case

    return _c()


# ===========================================================================
# parent side: the search
# ===========================================================================


def classify(case, msg):
    """C06-KF1: the mismatch is a read whose value was overwritten by a definition at which ppci's liveness (flow graph
    without fall-through edges into jump targets) takes the value for dead although it is live - decided in the child by
    `explain_kf1` on the frame itself (input shape AND model of the wrong liveness).
    C06-KF2: avr only; a spill sequence's fixed physical address register was overwritten by ANOTHER spill sequence
    (decided in the child from the last writer of the register).  Everything else stays a violation."""
    if msg and msg.startswith("[read]") and "\n[KF1: ppci's FlowGraph has no fall-through edge" in msg:
        return "C06-KF1"
    if msg and msg.startswith("[spilltemp]") and "\n[KF2: fixed register " in msg and case.get("target") == "avr":
        return "C06-KF2"
    return None


def record(stats, case, res):
    """Book-keeping for one evaluated module."""
    target = case["target"]
    gen = case.get("gen", case["kind"])
    for kid, n in (case.get("excluded") or {}).items():
        stats.excluded[kid] += n
    for reason, n in (res.get("func_discards") or {}).items():
        for _ in range(n):
            stats.discard("function: " + reason)
        stats.hist["codegen_failed:%s" % target] += n
    for p in res.get("problems") or ():
        stats.discard("model: " + p.split(":", 1)[-1].strip()[:60])
        if len(stats.notes) < 20:
            stats.notes.append("model problem (%s): %s" % (target, p[:200]))
    for f in res["frames"]:
        spills = f["spill_loads"] + f["spill_stores"]
        nt = bool(spills or f["coalesced"])
        classes = ["frames:" + target, "gen:" + gen, "level:" + str(case.get("level", "0"))]
        if spills:
            classes += ["spill:" + target, "frames_with_spills"]
        if f["coalesced"]:
            classes += ["coalesce:" + target, "frames_with_coalesced_moves"]
        if f.get("coalesced_spill_moves"):
            classes.append("frames_with_coalesced_spill_code_moves")
        if f["oddmoves"]:
            classes.append("frames_with_moves_that_read_two_registers")
        if f["branches"]:
            classes.append("frames_with_branches")
        for k in f["seq"]:
            classes.append("spillseq:" + k)
        sample = None
        if nt and len(stats.samples) < stats.MAX_SAMPLES:
            sample = {"target": target, "gen": gen, "level": case.get("level"), "function": f["name"], "pre_instructions": f["pre"],
                      "post_instructions": f["post"], "coalesced_moves": f["coalesced"], "spill_loads": f["spill_loads"],
                      "spill_stores": f["spill_stores"], "spill_slots": f["slots"], "branches": f["branches"],
                      "fixed_registers_in_pre_list": f["fixed_regs"][:12]}
        stats.case((target, f["key"]), nt, sample, classes=classes)
    for k, v in (res.get("stats") or {}).items():
        stats.hist["sim:" + k] += v


def _worker(arg):
    seed, n, targets, budget_s = arg
    from ..core import hyp_search

    stats = Stats()
    for t in targets:
        tinfo(t)
    state = {}

    def prop(case):
        res = evaluate_local(case)
        if res.get("discard"):
            raise Discard(res["discard"])
        record(stats, case, res)
        if not res["frames"]:
            return None
        msg = _message(res)
        if msg:
            state["last"] = (case, res)
        return msg

    fails = hyp_search(case_strategy(targets), prop, n, seed, stats, classify=classify, budget_s=budget_s, shrink_budget_s=20)
    out = []
    for case, msg in fails:
        got = confirm_in_zygote(case)
        if got is None:
            stats.unreproduced += 1
            stats.notes.append("failure seen in-process but not reproduced in the zygote (up to %d heap layouts, %d s): %s" % (MAX_PERTURB, CONFIRM_BUDGET_S, msg[:300]))
            continue
        out.append(got)
    close_zygote()
    return stats, out


def run(ctx):
    close_zygote()  # the one used for the witnesses: the workers must not inherit its pipes
    n = ctx.scale(16, 2500)
    budget = ctx.scale(40, 3000)
    args = []
    nt = len(TARGETS)
    for w in range(16):
        targets = [TARGETS[(3 * w + j) % nt] for j in range(3)]
        if "x86_64" not in targets:
            targets.append("x86_64")  # the target with aliasing registers of four widths gets a share of every shard
        args.append((subseed(ctx.seed, PID, w), n + 8, targets, budget))
    ctx.pmap(_worker, args)
    per = {}
    h = ctx.stats.hist
    for t in TARGETS:
        per[t] = {"frames": h.get("frames:" + t, 0), "with_spills": h.get("spill:" + t, 0), "with_coalesced_moves": h.get("coalesce:" + t, 0),
                  "functions_failing_codegen": h.get("codegen_failed:" + t, 0)}
    ctx.extra["per_target"] = per
    ctx.extra["targets_covered"] = [t for t in TARGETS if per[t]["frames"]]
    close_zygote()
