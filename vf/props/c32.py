"""C32 - generated LR parsers accept exactly their grammar's language."""

import itertools

from hypothesis import strategies as st

from .. import core
from ..core import Discard, Stats, hyp_search, subseed

PID = "C32"
RULE = (
    "all grammars (as sets of productions, up to renaming of the terminals) over terminals a,b and "
    "non-terminals S (start), A with at most 4 productions of right-hand-side length <= 2, and at most 2 "
    "productions of length <= 3 (thorough: also 3 productions of length <= 3), epsilon "
    "productions included, every used non-terminal defined and reachable; each against all token strings up "
    "to length 5 (thorough 6); plus Hypothesis grammars with up to 3 terminals, 4 non-terminals, 7 productions "
    "against all strings up to length 4 and sampled longer members. Oracle: bounded fixed-point enumeration "
    "of the strings each non-terminal derives. Builder accepts without resolving a conflict: accepted <=> "
    "member and the returned value (actions build (production, children) tuples over position-tagged tokens) "
    "is a derivation tree of the grammar with the input as yield; shift/reduce conflict auto-resolved: "
    "accepted => member only; ParserGenerationException: counted, not judged. A case = (grammar, string); "
    "non-trivial = builder accepted the grammar, it derives >= 2 strings within the bound and has an "
    "epsilon production, a recursive non-terminal or a resolved conflict; distinct = (grammar, string)"
)
ASSUMPTIONS = [
    "a grammar is a set of productions; the order in which they are added (sorted, start symbol first) is not varied in the exhaustive part",
    "whether a shift/reduce conflict was resolved is observed through a subclass of LrParserBuilder that wraps set_action()",
    "the lexer protocol is the one of the repository's tests: next_token() returns Token objects and EOF tokens at the end",
]
TRUSTED = ["CPython", "Hypothesis", "bounded language enumeration and derivation-tree validator in vf/props/c32.py"]
REGISTER = True
TECHNIQUE = "exhaustive small-grammar x all-short-strings enumeration + Hypothesis grammars against bounded language enumeration"
LEVEL_TEXT = (
    "Exploration, exhaustive over the stated small grammars and all strings up to the length bound: membership "
    "is decided by an obviously-correct fixed-point enumeration, returned values are validated as derivation "
    "trees. Item-closure and lookahead mistakes depend on small grammar shapes (nullable symbols, recursion "
    "through the start symbol), which the enumeration covers completely; larger grammars are sampled."
)

KF1 = "C32-KF1"  # FIRST/lookahead computation ignores nullable symbols
KF2 = "C32-KF2"  # Accept fires for an inner start-symbol phrase


# ---------------------------------------------------------------------------
# oracle: bounded language enumeration


def languages(prods, maxlen):
    """{nonterminal: set of terminal tuples of length <= maxlen it derives} (least fixed point)."""
    nts = {lhs for lhs, _ in prods}
    lang = {nt: set() for nt in nts}
    changed = True
    while changed:
        changed = False
        for lhs, rhs in prods:
            acc = {()}
            for sym in rhs:
                if sym in nts:
                    part = lang[sym]
                else:
                    part = {(sym,)}
                acc = {x + y for x in acc for y in part if len(x) + len(y) <= maxlen}
                if not acc:
                    break
            new = acc - lang[lhs]
            if new:
                lang[lhs] |= new
                changed = True
    return lang


def nullable_set(prods):
    nul = set()
    changed = True
    while changed:
        changed = False
        for lhs, rhs in prods:
            if lhs not in nul and all(s in nul for s in rhs):
                nul.add(lhs)
                changed = True
    return nul


def recursive_nts(prods):
    nts = {lhs for lhs, _ in prods}
    reach = {nt: {s for lhs, rhs in prods if lhs == nt for s in rhs if s in nts} for nt in nts}
    changed = True
    while changed:
        changed = False
        for nt in nts:
            new = set().union(*[reach[x] for x in reach[nt]]) - reach[nt] if reach[nt] else set()
            if new:
                reach[nt] |= new
                changed = True
    return {nt for nt in nts if nt in reach[nt]}


def all_strings(terminals, maxlen):
    out = []
    for n in range(maxlen + 1):
        out.extend(itertools.product(terminals, repeat=n))
    return out


# ---------------------------------------------------------------------------
# ppci side


class Runaway(BaseException):
    pass


class Lexer:
    def __init__(self, word):
        from ppci.lang.common import SourceLocation, Token
        from ppci.lang.tools.baselex import EOF

        loc = SourceLocation("", 1, 1, 1)
        self.toks = [Token(t, i, loc) for i, t in enumerate(word)]
        self.eof = Token(EOF, EOF, loc)
        self.pos = 0

    def next_token(self):
        if self.pos < len(self.toks):
            t = self.toks[self.pos]
            self.pos += 1
            return t
        return self.eof


def observing_builder(base):
    class Observing(base):
        def __init__(self, grammar):
            super().__init__(grammar)
            self.resolved = 0

        def set_action(self, state, t, action):
            old = self.action_table.get((state, t))
            if old is not None and old != action:
                self.resolved += 1  # either resolved (shift/reduce) or super() raises
            super().set_action(state, t, action)

    return Observing


def textbook_lookahead_builder():
    """LrParserBuilder with only FIRST sets and the closure lookaheads replaced by the textbook
    definitions (FIRST of the rest of the production followed by the item's lookahead).  Used as the
    counterfactual for C32-KF1: a failure that disappears under it is caused by that computation."""
    from ppci.lang.tools.baselex import EOF, EPS
    from ppci.lang.tools.lr import Item, LrParserBuilder

    class Textbook(LrParserBuilder):
        def _tables(self):
            if getattr(self, "_tb", None) is None:
                g = self.grammar
                prods = [(p.name, tuple(p.symbols)) for p in g.productions]
                nul = nullable_set(prods)
                first = {t: {t} for t in set(g.terminals) | {EOF}}
                for nt in g.nonterminals:
                    first[nt] = set()
                changed = True
                while changed:
                    changed = False
                    for lhs, rhs in prods:
                        for s in rhs:
                            new = first.get(s, {s}) - first[lhs]
                            if new:
                                first[lhs] |= new
                                changed = True
                            if s not in nul:
                                break
                self._tb = (nul, first)
            return self._tb

        def closure(self, itemset):
            nul, first = self._tables()
            worklist = list(itemset)
            while worklist:
                item = worklist.pop(0)
                if not item.is_shift or item.Next not in self.grammar.nonterminals:
                    continue
                la = set()
                for s in item.production.symbols[item.dotpos + 1 :]:
                    la |= first.get(s, {s})
                    if s not in nul:
                        break
                else:
                    la.add(item.look_ahead)
                for p in self.grammar.productions_for_name(item.Next):
                    for b in la:
                        it = Item(p, 0, b)
                        if it not in itemset:
                            itemset.add(it)
                            worklist.append(it)
            return frozenset(itemset)

    return Textbook


def make_action(i, counter):
    def act(*args):
        counter[0] += 1
        if counter[0] > counter[1]:
            raise Runaway()
        return ("node", i, args)

    return act


def build(case, counter, textbook=False):
    """Returns (kind, parser|message, resolved):  kind in built / rejected / crashed."""
    from ppci.lang.tools.common import ParserGenerationException
    from ppci.lang.tools.grammar import Grammar
    from ppci.lang.tools.lr import LrParserBuilder

    try:
        g = Grammar()
        g.add_terminals(case["terminals"])
        for i, (lhs, rhs) in enumerate(case["productions"]):
            g.add_production(lhs, list(rhs), make_action(i, counter))
        g.start_symbol = case["start"]
        base = textbook_lookahead_builder() if textbook else LrParserBuilder
        b = observing_builder(base)(g)
        parser = b.generate_parser()
    except ParserGenerationException as e:
        return "rejected", str(e), 0
    except Exception as e:  # the builder crashed: the grammar is not accepted; counted, not judged
        return "crashed", "%s: %s" % (type(e).__name__, e), 0
    return "built", parser, b.resolved


def run_parser(parser, word, counter):
    """('accept', value) | ('reject', exception name) | ('runaway', None)"""
    counter[0] = 0
    counter[1] = 200 + 60 * len(word)
    try:
        return "accept", parser.parse(Lexer(word))
    except Runaway:
        return "runaway", None
    except RecursionError:
        return "runaway", None
    except Exception as e:
        return "reject", type(e).__name__


def tree_problem(case, value, word):
    """None when value is a derivation tree of the grammar from the start symbol with yield == word;
    otherwise (description, yield positions or None)."""
    prods = case["productions"]
    nts = {lhs for lhs, _ in prods}
    leaves = []

    def walk(v, want):
        if not (isinstance(v, tuple) and len(v) == 3 and v[0] == "node" and isinstance(v[1], int)):
            return "value for %s is %r, not a result of a semantic action" % (want, v)
        lhs, rhs = prods[v[1]]
        if lhs != want:
            return "production %d (%s -> ...) used where %s is required" % (v[1], lhs, want)
        if len(v[2]) != len(rhs):
            return "production %d applied to %d children" % (v[1], len(v[2]))
        for sym, child in zip(rhs, v[2]):
            if sym in nts:
                r = walk(child, sym)
                if r:
                    return r
            else:
                if getattr(child, "typ", None) != sym:
                    return "child for terminal %s is %r" % (sym, child)
                leaves.append(child.val)
        return None

    r = walk(value, case["start"])
    if r:
        return r, None
    if leaves != list(range(len(word))):
        return "yield of the returned tree is token positions %r of %d tokens" % (leaves, len(word)), leaves
    return None


class Failure:
    def __init__(self, kind, msg, **info):
        self.kind = kind
        self.msg = msg
        self.info = info


def fmt_grammar(case):
    return "; ".join("%s -> %s" % (lhs, " ".join(rhs) or "eps") for lhs, rhs in case["productions"])


def normal_case(case):
    prods = [(str(lhs), tuple(str(s) for s in rhs)) for lhs, rhs in case["productions"]]
    terminals = [str(t) for t in case["terminals"]]
    nts = {lhs for lhs, _ in prods}
    if not prods or case["start"] not in nts or nts & set(terminals) or len(set(terminals)) != len(terminals):
        raise Discard("malformed grammar")
    for t in terminals:
        if t in ("EOF", "EPS"):
            raise Discard("reserved terminal name")
    for _lhs, rhs in prods:
        for s in rhs:
            if s not in nts and s not in terminals:
                raise Discard("undefined symbol")
    words = [tuple(w) for w in case.get("strings", ())]
    for w in words:
        if any(t not in terminals for t in w):
            raise Discard("string uses unknown terminal")
    return {
        "terminals": terminals,
        "productions": prods,
        "start": str(case["start"]),
        "maxlen": int(case.get("maxlen", 4)),
        "strings": words,
    }


def evaluate(case, stats=None, textbook=False):
    """Evaluate one grammar against all strings up to maxlen (+ extra strings)."""
    c = normal_case(case)
    counter = [0, 0]
    kind, parser, resolved = build(c, counter, textbook)
    if kind != "built":
        if stats is not None:
            stats.hist["builder_" + kind] += 1
            if kind == "crashed":
                stats.hist["builder_crashed:" + parser.split(":")[0]] += 1
        return None
    words = all_strings(c["terminals"], c["maxlen"]) + c["strings"]
    bound = max([c["maxlen"]] + [len(w) for w in c["strings"]])
    lang = languages(c["productions"], bound)[c["start"]]
    small = sum(1 for w in lang if len(w) <= c["maxlen"])
    prods = c["productions"]
    feature = any(not rhs for _l, rhs in prods) or bool(recursive_nts(prods)) or resolved > 0
    nontrivial = small >= 2 and feature
    if stats is not None:
        stats.hist["builder_built_resolved" if resolved else "builder_built_clean"] += 1
        if any(not rhs for _l, rhs in prods):
            stats.hist["grammar_with_epsilon"] += 1
        if recursive_nts(prods):
            stats.hist["grammar_recursive"] += 1
    n_ev = 0
    fail = None
    seen = set()
    for w in words:
        if w in seen:
            continue
        seen.add(w)
        res, value = run_parser(parser, w, counter)
        member = w in lang
        n_ev += 1
        if res == "runaway" and stats is not None:
            stats.hist["parse_runaway"] += 1
        if res == "accept" and not member:
            fail = Failure(
                "accepts_nonmember",
                "grammar {%s} (%s): parser accepts %r, which the grammar does not derive"
                % (fmt_grammar(c), "conflict resolved" if resolved else "no conflict", " ".join(w)),
            )
        elif resolved == 0 and res != "accept" and member:
            fail = Failure(
                "rejects_member",
                "grammar {%s} (no conflict reported or resolved): parser %s on %r, which the grammar derives"
                % (fmt_grammar(c), "does not terminate" if res == "runaway" else "raises " + value, " ".join(w)),
                how=res,
            )
        elif resolved == 0 and res == "accept":
            prob = tree_problem(c, value, w)
            if prob:
                fail = Failure(
                    "value",
                    "grammar {%s} (no conflict): parse of %r returns a value that is not its derivation tree: %s"
                    % (fmt_grammar(c), " ".join(w), prob[0]),
                    leaves=prob[1],
                    nword=len(w),
                )
        if fail is not None:
            break
    if stats is not None:
        stats.evaluations += n_ev
        if nontrivial:
            stats.nontrivial_counted += n_ev
    return fail


# ---------------------------------------------------------------------------
# known findings


def kf1_feature(prods):
    """a nullable symbol directly follows a non-terminal, or a production starts with a nullable symbol"""
    nts = {lhs for lhs, _ in prods}
    nul = nullable_set(prods)
    for _lhs, rhs in prods:
        if rhs and rhs[0] in nul:
            return True
        for i in range(len(rhs) - 1):
            if rhs[i] in nts and rhs[i + 1] in nul:
                return True
    return False


def kf2_feature(prods, start):
    return any(start in rhs for _l, rhs in prods)


def classify_failure(case, f):
    """KF2: (value failure) the start symbol occurs in a right-hand side and the returned value is a
            well-formed derivation tree from the start symbol for a proper suffix of the input.
       KF1: a nullable symbol follows a non-terminal (or starts a production) and the failure does not
            occur (or is a KF2 one) when only FIRST sets / closure lookaheads are the textbook ones."""
    if f is None:
        return None
    c = normal_case(case)
    prods = c["productions"]
    if f.kind == "value":
        leaves = f.info.get("leaves")
        n = f.info.get("nword")
        if kf2_feature(prods, c["start"]) and leaves is not None and leaves and leaves == list(range(n - len(leaves), n)) and len(leaves) < n:
            return KF2
        if kf2_feature(prods, c["start"]) and leaves == [] and n > 0:
            return KF2
    if kf1_feature(prods):
        f2 = evaluate(case, None, textbook=True)
        if f2 is None:
            return KF1
        if f2.msg != f.msg and classify_failure_kf2_only(c, f2):
            return KF1
    return None


def classify_failure_kf2_only(c, f):
    if f.kind != "value":
        return False
    leaves = f.info.get("leaves")
    n = f.info.get("nword")
    return bool(kf2_feature(c["productions"], c["start"]) and leaves is not None and len(leaves) < n and leaves == list(range(n - len(leaves), n)))


def classify(case, msg):
    try:
        f = evaluate(case)
    except Discard:
        return None
    if f is None or f.msg != msg:
        return None
    return classify_failure(case, f)


def replay(case):
    f = evaluate(case)
    return None if f is None else f.msg


# ---------------------------------------------------------------------------
# enumeration

ENUM_T = ("a", "b")
ENUM_N = ("S", "A")


def rhs_upto(n):
    out = []
    for k in range(n + 1):
        out.extend(itertools.product(ENUM_T + ENUM_N, repeat=k))
    return out


def swap_ab(g):
    m = {"a": "b", "b": "a"}
    return tuple(sorted((lhs, tuple(m.get(s, s) for s in rhs)) for lhs, rhs in g))


def order_key(p):
    return (0 if p[0] == "S" else 1, len(p[1]), p[1])


def enum_grammars(nprod, rhslen):
    """All grammars with exactly nprod distinct productions, rhs length <= rhslen: S defined; A defined iff
    used; A used by S when defined; canonical under a<->b."""
    prods = [(lhs, rhs) for lhs in ENUM_N for rhs in rhs_upto(rhslen)]
    prods.sort(key=order_key)
    for combo in itertools.combinations(prods, nprod):
        lhss = {p[0] for p in combo}
        if "S" not in lhss:
            continue
        a_used = any("A" in p[1] for p in combo)
        a_def = "A" in lhss
        if a_used != a_def:
            continue
        if a_def and not any("A" in p[1] for p in combo if p[0] == "S"):
            continue
        key = tuple(sorted(combo))
        if swap_ab(key) < key:
            continue
        yield combo


def enum_domain(quick):
    """list of (nprod, rhslen) blocks"""
    if quick:
        return [(1, 3), (2, 3), (3, 2), (4, 2)]
    return [(1, 3), (2, 3), (3, 3), (4, 2)]


def _enum_worker(arg):
    w, nw, blocks, maxlen = arg
    stats = Stats()
    fails = []
    idx = -1
    for nprod, rhslen in blocks:
        for combo in enum_grammars(nprod, rhslen):
            idx += 1
            if idx % nw != w:
                continue
            case = {
                "terminals": list(ENUM_T),
                "productions": [[lhs, list(rhs)] for lhs, rhs in combo],
                "start": "S",
                "maxlen": maxlen,
            }
            f = evaluate(case, stats)
            stats.hist["enumerated_grammars"] += 1
            if f is None:
                if len(stats.samples) < 2 and nprod >= 3 and idx % 7 == 0:
                    stats.sample(case)
                continue
            kid = classify_failure(case, f)
            if kid and kid in core.open_finding_ids(PID):
                stats.known[kid] += 1
            elif len(fails) < 3:
                fails.append((case, f.msg))
    return stats, fails


# ---------------------------------------------------------------------------
# Hypothesis part


@st.composite
def gen_grammar(draw, flags):
    avoid_kf1, avoid_kf2 = flags
    nt_count = draw(st.integers(1, 4))
    t_count = draw(st.integers(1, 3))
    nts = ["S", "A", "B", "C"][:nt_count]
    terms = ["a", "b", "c"][:t_count]
    # under the KF2 exclusion the start symbol never occurs in a right-hand side
    rhs_nts = [n for n in nts if not (avoid_kf2 and n == "S")]
    syms = terms * 2 + rhs_nts
    prods = []
    for nt in nts:
        for _ in range(draw(st.integers(1, 2 if nt_count > 2 else 3))):
            rhs = draw(st.lists(st.sampled_from(syms), min_size=0, max_size=4))
            prods.append((nt, tuple(rhs)))
    # make every non-terminal reachable: S gets a production mentioning each otherwise unused one
    used = {s for _l, rhs in prods for s in rhs}
    for nt in nts[1:]:
        if nt not in used:
            k = draw(st.integers(0, len(prods) - 1))
            lhs, rhs = prods[k]
            if lhs == nt and not any(l != nt for l, _ in prods):
                continue
            pos = draw(st.integers(0, len(rhs)))
            prods[k] = (lhs, rhs[:pos] + (nt,) + rhs[pos:])
    if avoid_kf1:
        # no nullable symbol directly after a non-terminal or at the start of a production: put a
        # terminal in front of it (this can only shrink the set of nullable symbols)
        for _round in range(6):
            nul = nullable_set(prods)
            changed = False
            out = []
            for lhs, rhs in prods:
                new = []
                for i, s in enumerate(rhs):
                    if s in nul and (i == 0 or rhs[i - 1] in nts):
                        new.append(terms[(i + len(rhs)) % len(terms)])
                        changed = True
                    new.append(s)
                out.append((lhs, tuple(new)))
            prods = out
            if not changed:
                break
    # distinct productions
    seen = []
    for p in prods:
        if p not in seen:
            seen.append(p)
    return terms, seen


@st.composite
def gen_ebnf_grammar(draw):
    """Grammars lowered from small EBNF expressions (sequence, alternative, optional, repetition): the shapes hand-written
    grammars have - nullable non-terminals followed by DIFFERENT continuations after a common prefix
    (S: H O ';' | H O '=' n), optional and repeated parts next to each other, separated lists."""
    t_count = draw(st.integers(2, 4))
    terms = ["a", "b", "c", "d"][:t_count]
    names = ["A", "B", "C", "D", "E", "F"]
    prods = []
    fresh = [0]

    def new_nt():
        fresh[0] += 1
        return names[fresh[0] - 1] if fresh[0] <= len(names) else None

    def lower(depth):
        """-> list of symbols (a sequence) standing for one drawn EBNF expression"""
        k = draw(st.integers(0, 9)) if depth > 0 else 0
        if k <= 3:
            return [draw(st.sampled_from(terms))]
        nt = new_nt()
        if nt is None:
            return [draw(st.sampled_from(terms))]
        if k <= 5:  # optional
            prods.append((nt, tuple(lower(depth - 1) + (lower(depth - 1) if draw(st.booleans()) else []))))
            prods.append((nt, ()))
        elif k <= 7:  # repetition, left or right recursive, possibly with a separator
            body = lower(depth - 1)
            if draw(st.booleans()):
                prods.append((nt, (nt,) + tuple(body)))
            else:
                prods.append((nt, tuple(body) + (nt,)))
            prods.append((nt, ()) if draw(st.integers(0, 2)) else (nt, tuple(body)))
        else:  # alternative
            for _ in range(draw(st.integers(2, 3))):
                prods.append((nt, tuple(lower(depth - 1) + (lower(depth - 1) if draw(st.booleans()) else []))))
        return [nt]

    nalt = draw(st.integers(1, 3))
    prefix = []
    for _ in range(draw(st.integers(0, 2))):
        prefix += lower(2)
    for i in range(nalt):
        tail = []
        for _ in range(draw(st.integers(0 if prefix else 1, 2))):
            tail += lower(2)
        # the alternatives of S share the prefix (possibly ending in a nullable symbol) and continue differently
        prods.append(("S", tuple((prefix if draw(st.integers(0, 3)) else []) + tail)))
    seen = []
    for pr in prods:
        if pr not in seen:
            seen.append(pr)
    seen.sort(key=lambda pr: pr[0] != "S")
    return terms, seen


@st.composite
def gen_stmt_grammar(draw):
    """'Statement' grammars: the alternatives of S share a prefix of simple / optional / list non-terminals and continue with
    different terminals (S: H O ';' | H O '=' n) - mostly conflict free, so the parser is judged in both directions, and the
    look-ahead sets of the prefix's non-terminals must be the union over all continuations."""
    t_count = draw(st.integers(2, 4))
    terms = ["a", "b", "c", "d"][:t_count]
    names = ["A", "B", "C", "D", "E"]
    prods = []

    def atom():
        k = draw(st.integers(0, 9))
        if k <= 2 or not names:
            return draw(st.sampled_from(terms))
        nt = names.pop(0)
        t1, t2 = draw(st.sampled_from(terms)), draw(st.sampled_from(terms))
        if k <= 4:  # simple
            prods.append((nt, (t1,)))
            if draw(st.booleans()):
                prods.append((nt, (t1, t2)))
        elif k <= 7:  # optional
            prods.append((nt, (t1,) if draw(st.booleans()) else (t1, t2)))
            prods.append((nt, ()))
        else:  # list
            prods.append((nt, (nt, t1)) if draw(st.booleans()) else (nt, (t1, nt)))
            prods.append((nt, ()) if draw(st.booleans()) else (nt, (t1,)))
        return nt

    prefix = [atom() for _ in range(draw(st.integers(1, 3)))]
    nalt = draw(st.integers(2, 3))
    starts = draw(st.permutations(terms + [None]))[:nalt]
    for t in starts:
        tail = ([t] if t is not None else []) + [atom() for _ in range(draw(st.integers(0, 2 if t is not None else 0)))]
        prods.append(("S", tuple(prefix + tail)))
    seen = []
    for pr in prods:
        if pr not in seen:
            seen.append(pr)
    seen.sort(key=lambda pr: pr[0] != "S")
    return terms, seen


@st.composite
def gen_case(draw, flags):
    family = draw(st.integers(0, 3)) if not any(flags) else 0
    if family == 1:
        terms, prods = draw(gen_ebnf_grammar())
    elif family == 2:
        terms, prods = draw(gen_stmt_grammar())
    else:
        terms, prods = draw(gen_grammar(flags))
    lang = sorted(languages(prods, 8)["S"])
    longer = [w for w in lang if len(w) > 4]
    strings = []
    if longer:
        for _ in range(draw(st.integers(0, 4))):
            w = draw(st.sampled_from(longer))
            if draw(st.integers(0, 3)) == 0:
                i = draw(st.integers(0, len(w) - 1))
                w = w[:i] + (draw(st.sampled_from(terms)),) + w[i + draw(st.integers(0, 1)) :]
            strings.append(list(w))
    return {
        "terminals": terms,
        "productions": [[lhs, list(rhs)] for lhs, rhs in prods],
        "start": "S",
        "maxlen": 4 if len(terms) < 3 else 3 if len(terms) < 4 else 3,
        "strings": strings,
    }


def _hyp_worker(arg):
    seed, n, flags = arg
    stats = Stats()

    def prop(case):
        local = Stats()
        f = evaluate(case, local)
        stats.hist.update(local.hist)
        key = (tuple((l, tuple(r)) for l, r in case["productions"]), tuple(map(tuple, case["strings"])))
        nontriv = local.nontrivial_counted > 0
        stats.case(key, nontriv, case if nontriv else None, classes=("random_grammar",))
        for kid, on in zip((KF1, KF2), flags):
            if on:
                stats.excluded[kid] += 1
        return None if f is None else f.msg

    fails = hyp_search(gen_case(flags), prop, n, seed, stats, classify=classify, budget_s=600)
    return stats, fails


def active_exclusions():
    """An exclusion is active while its finding is open and its witness still reproduces."""
    findings = {e["id"]: e for e in core.load_findings(PID) if e.get("status") == "open"}
    flags = []
    for kid in (KF1, KF2):
        on = False
        e = findings.get(kid)
        if e is not None:
            try:
                f = evaluate(e["witness"])
                on = f is not None and classify_failure(e["witness"], f) == kid
            except Discard:
                on = False
        flags.append(on)
    return tuple(flags)


def run(ctx):
    blocks = enum_domain(ctx.quick)
    maxlen = ctx.scale(5, 6)
    nw = ctx.scale(16, 64)
    ctx.pmap(_enum_worker, [(w, nw, blocks, maxlen) for w in range(nw)])
    ctx.exhaustive = True
    ctx.extra["exhaustive_domain"] = (
        "grammars over terminals a,b / non-terminals S,A (sets of productions, canonical under a<->b) with "
        + ", ".join("%d production(s) of rhs length <= %d" % b for b in blocks)
        + "; all strings of length <= %d" % maxlen
    )
    flags = active_exclusions()
    ctx.extra["exclusions_active"] = dict(zip((KF1, KF2), flags))
    n = ctx.scale(3200, 160000)
    ctx.pmap(_hyp_worker, [(subseed(ctx.seed, PID, w), n // 16, flags) for w in range(16)])
