"""C27 - C integer constant expressions are evaluated as C prescribes (oracle: gcc, LP64).

case = {"kind": "init" | "bound" | "enum" | "case" | "bitfield",
        "expr": <tree of vf/cconst.py>, "minparen": bool,
        "enums": [[name, value], ...]           enumerators usable in the expression (one preamble enum)
        "dtype": <integer type>                  init: type of the object; case: type of the controlling expression;
                                                 bound: element type
        "place": "global" | "static" | "local"   init only: file scope, file scope static, block scope static
        "other", "args"                          case only: a second (literal) label and the argument vector
        "two"                                    enum only: is there a second, implicit enumerator}

One case is one *item*: a one-line C fragment plus the functions that make its value observable.
ppci compiles each item as its own translation unit (ppci.api.c_to_ir(src, 'x86_64')); the observation is read
from ir.Variable.value / .amount and from running the item's functions under vf/irsem.  gcc compiles a driver
with many items (one per line, so diagnostics map to items) and the driver prints the same observation.
"""

import io
import json
import os
import re
import shutil
import subprocess
import tempfile
import traceback

from hypothesis import strategies as st

from .. import cconst as cc
from ..core import Discard, HarnessError, Stats, hyp_search, jhash, open_finding_ids, subseed

PID = "C27"
RULE = (
    "Hypothesis-generated integer constant expression trees (depth <= 4) over decimal/octal/hex literals with every "
    "suffix and boundary-biased values, character literals, enumerators, sizeof(type), sizeof(expression), casts to "
    "the 11 integer types, unary - ~ + !, binary + - * / % << >> & | ^ < > <= >= == != && ||, ?: (defined by "
    "construction on a C99/LP64 reference evaluator: no signed overflow, zero divisors or bad shifts), rendered fully "
    "or minimally parenthesised, used as (a) initialiser of a global / file-scope static / block-scope static of each "
    "of the 11 integer types (values that do not fit included), (b) array bound, (c) enumerator value, (d) case label "
    "of a switch over int/unsigned/long/unsigned long/long long and narrow types, (e) bit-field width.  ppci: "
    "c_to_ir(x86_64) -> Variable.value/amount and the item's functions run under vf/irsem; oracle: the same item "
    "compiled by gcc -std=c99 and printed by a driver; items with a gcc diagnostic other than value-changing "
    "conversion/parentheses/sign-compare are discarded, as are items on which the reference evaluator and gcc differ. "
    "Items on which the defect model of an open finding (vf/cconst.model_eval) predicts a wrong outcome are excluded and counted. "
    "non-trivial = a negative operand of / % >>, or unsigned/narrowing wrap-around inside the expression, or a value "
    "that does not fit the destination; distinct = hash of (kind, destination, expression text)"
)
ASSUMPTIONS = [
    "gcc 12 x86-64 evaluates integer constant expressions as C99 prescribes; its implementation-defined choices "
    "(signed char, modulo conversion to signed types, arithmetic >> of negative values, LP64) are those of ppci's x86_64 target",
    "items for which gcc reports a diagnostic about the expression (overflow, division by zero, shift, non-constant, pedantic) are outside the domain",
    "struct layout is not compared: bit-field widths are observed by storing all-ones into the field and reading it back",
    "the item's functions are executed by the reference IR interpreter vf/irsem.py on ppci's IR (no back end involved)",
]
TRUSTED = ["CPython", "Hypothesis", "gcc 12", "vf/cconst.py (reference evaluator; must agree with gcc on every judged item)", "vf/irsem.py"]
TECHNIQUE = "differential testing against gcc on generated constant-expression items (global images, sizeof, enumerators, switch behaviour, bit-field widths)"
LEVEL_TEXT = (
    "Exploration: thousands of generated constant expressions in each of the five constant-expression contexts are "
    "compiled by ppci and by gcc and the resulting memory images / sizes / switch behaviour compared; a C99 reference "
    "evaluator keeps the generator inside defined behaviour and must agree with gcc on each judged item.  The input "
    "space (expression trees) is unbounded, so structured sampling with boundary-biased literals is the fitting level."
)
REGISTER = True

GCC = shutil.which("gcc")
GCC_FLAGS = ["-std=c99", "-pedantic", "-Wall", "-Wextra", "-Woverflow", "-Wno-unused", "-O0", "-fno-diagnostics-show-caret", "-fdiagnostics-color=never"]

# gcc warnings that do not put an item outside the domain (implementation-defined conversions and style)
BENIGN = re.compile(
    r"changes value|suggest parentheses|different signedness|changes signedness|comparison is always|"
    r"comparison of constant|case label value (exceeds|is less than)|in boolean context|unused|"
    r"logical .(and|or). (of|applied)|promoted ~|always evaluate as|comparison of unsigned expression|"
    r"will always evaluate|self-comparison|bitwise comparison always"
)

# finding id -> quirk of vf/cconst.model_eval that reproduces it (order = attribution priority)
FINDINGS = [
    ("C27-KF1", ("missing",)),
    ("C27-KF2", ("floor",)),
    ("C27-KF3", ("noconv",)),
    ("C27-KF4", ("enumtype",)),
    ("C27-KF5", ("charlit",)),
    ("C27-KF6", ("littype", "sizet")),  # sizeof's result type is repaired by the same patch (only visible once KF3 is fixed)
    ("C27-KF7", ("eqprec",)),  # masked by KF1 (every comparison raises) until the operators patch is applied
]

# what ppci does when the modelled evaluator stops: kind -> accepted (exception type, innermost frame | None, text fragment | None)
SIGNATURES = {
    "missing": [
        ("KeyError", "lang/c/eval.py:eval_binop", None),
        ("NotImplementedError", "lang/c/eval.py:eval_expr", None),
        ("NotImplementedError", "lang/c/eval.py:eval_unop", None),
        ("CompilerError", None, "must be constant"),
    ],
    "enum-op": [("KeyError", "lang/c/eval.py:eval_binop", None)],
    "literal-rejected": [("CompilerError", None, "Integer value too big for type")],
    "ZeroDivisionError": [("ZeroDivisionError", "lang/c/eval.py:<lambda>", None), ("ZeroDivisionError", "lang/c/eval.py:int_div", None)],
    "ValueError": [("ValueError", "lang/c/eval.py:<lambda>", None)],
    "pack": [("error", "lang/c/context.py:pack", None)],
    "undef-const": [("irsem.Undef", None, "constant outside any reading of its type")],
}

CTRL_TYPES = ["int", "unsigned int", "long", "unsigned long", "long long", "unsigned long long", "char", "unsigned char", "short", "unsigned short", "signed char"]
ELEM_TYPES = ["char", "short", "int", "long"]


# ---------------------------------------------------------------------------
# items


def enum_map(case):
    return {n: v for n, v in case.get("enums", ())}


def preamble(case):
    en = case.get("enums")
    if not en:
        return ""
    return "enum pre { %s }; " % ", ".join("%s = %d" % (n, v) if v >= 0 else "%s = -%d" % (n, -v) for n, v in en)


def expr_text(case):
    return cc.render(case["expr"], case.get("minparen", False))


def item_source(case, sfx=""):
    """-> (one-line C fragment, [(function name, [args], C return type)] to call, [global names to dump])"""
    e = expr_text(case)
    k = case["kind"]
    pre = preamble(case)
    if sfx:  # the driver holds many items: rename the preamble's enumerators per item
        for n, _ in case.get("enums", ()):
            pre = re.sub(r"\b%s\b" % n, n + sfx, pre)
            e = re.sub(r"\b%s\b" % n, n + sfx, e)
        pre = pre.replace("enum pre", "enum pre" + sfx)
    if k == "init":
        t = case["dtype"]
        place = case.get("place", "global")
        if place == "local":
            return pre + "%s sl%s(void) { static %s v = %s; return v; }" % (t, sfx, t, e), [("sl" + sfx, [], t)], []
        return pre + "%s%s g%s = %s;" % ("static " if place == "static" else "", t, sfx, e), [], [("g" + sfx, t)]
    if k == "bound":
        t = case["dtype"]
        return pre + "%s arr%s[%s]; unsigned long sz%s(void) { return sizeof(arr%s); }" % (t, sfx, e, sfx, sfx), [("sz" + sfx, [], "unsigned long")], []
    if k == "enum":
        two = case.get("two", True)
        body = "A%s = %s%s" % (sfx, e, ", B%s" % sfx if two else "")
        src = pre + "enum en%s { %s }; long long ga%s = A%s; long long fa%s(void) { return A%s; }" % (sfx, body, sfx, sfx, sfx, sfx)
        g = [("ga" + sfx, "long long")]
        if two:
            src += " long long gb%s = B%s;" % (sfx, sfx)
            g.append(("gb" + sfx, "long long"))
        return src, [("fa" + sfx, [], "long long")], g
    if k == "case":
        t = case["dtype"]
        src = pre + "int sw%s(%s x) { switch (x) { case %s: return 1; case %d: return 2; default: return 0; } }" % (sfx, t, e, case["other"])
        return src, [("sw" + sfx, [a], "int") for a in case["args"]], []
    if k == "bitfield":
        src = pre + (
            "struct bs%s { unsigned a : %s; unsigned b : 3; unsigned pad; } s%s; "
            "unsigned bfa%s(void) { s%s.b = 5; s%s.a = ~0u; return s%s.a; } unsigned bfb%s(void) { return s%s.b; }"
        ) % (sfx, e, sfx, sfx, sfx, sfx, sfx, sfx, sfx)
        return src, [("bfa" + sfx, [], "unsigned int"), ("bfb" + sfx, [], "unsigned int")], []
    raise HarnessError("unknown kind %r" % k)


def obs_from_value(case, v):
    """The observation C prescribes when the constant expression has value v (before conversion to the destination)."""
    k = case["kind"]
    if k == "init":
        t = case["dtype"]
        c = cc.convert(v, t)
        if case.get("place") == "local":
            return [c]
        return [(c & ((1 << cc.bits(t)) - 1)).to_bytes(cc.bits(t) // 8, "little").hex()]
    if k == "bound":
        return [v * cc.bits(case["dtype"]) // 8] * 2  # Variable.amount, sizeof
    if k == "enum":
        c = cc.convert(v, "int")
        g = lambda x: (x & (2**64 - 1)).to_bytes(8, "little").hex()
        return [c, g(c)] + ([g(c + 1)] if case.get("two", True) else [])
    if k == "case":
        p = cc.promote(case["dtype"])
        lab = cc.convert(v, p)
        out = []
        for a in case["args"]:
            x = cc.convert(a, p)
            out.append(1 if x == lab else 2 if x == case["other"] else 0)
        return out
    if k == "bitfield":
        return [(1 << v) - 1, 5]
    raise HarnessError(k)


def expected(case):
    """Reference observation; raises Discard when the reference evaluator finds the item outside the domain."""
    try:
        t, v = cc.ref_eval(case["expr"], enum_map(case))
    except cc.UB as e:
        raise Discard("reference: " + str(e).split(" in ")[0])
    k = case["kind"]
    if k == "bound" and not 1 <= v <= 1 << 20:
        raise Discard("reference: array bound out of range")
    if k == "bitfield" and not 1 <= v <= 32:
        raise Discard("reference: bit-field width out of range")
    if k == "enum" and not (cc.fits(v, "int") and (not case.get("two", True) or v < cc.tmax("int"))):
        raise Discard("reference: enumerator outside int")
    return obs_from_value(case, v)


# ---------------------------------------------------------------------------
# ppci side


def _frame(e):
    frame = "?"
    for fs in traceback.extract_tb(e.__traceback__):
        fn = fs.filename.replace("\\", "/")
        if "/ppci/" in fn and "/verif/" not in fn:
            frame = "%s:%s" % (fn.split("/ppci/")[-1], fs.name)
    return frame


def run_ppci(case):
    """-> ("ok", observation) | ("exc", type name, innermost ppci frame, text)"""
    from ppci.api import c_to_ir

    from .. import irsem

    src, calls, globs = item_source(case)
    try:
        m = c_to_ir(io.StringIO(src + "\n"), "x86_64")
    except Exception as e:  # noqa
        text = getattr(e, "msg", None) or str(e)
        return ("exc", type(e).__name__, _frame(e), str(text)[:160])
    k = case["kind"]
    obs = []
    byname = {v.name: v for v in m.variables}
    try:
        if k == "bound":
            v = byname.get("arr")
            obs.append(v.amount if v is not None else "missing")
        rets = []
        if any(not isinstance(v.amount, int) or v.amount < 0 for v in m.variables):
            return ("ok", obs + ["invalid object size"])
        if calls:
            o = irsem.observe_call(m, calls[0][0], list(calls[0][1]), calls=[(c[0], list(c[1])) for c in calls[1:]])
            rets = [o["ret"]] + list(o.get("more", []))
        for (fn, args, rt), r in zip(calls, rets):
            obs.append(cc.convert(r, rt) if isinstance(r, int) else r)
    except irsem.Undef as e:
        return ("exc", "irsem.Undef", "-", e.reason)
    except irsem.Unsupported as e:
        return ("exc", "irsem.Unsupported", "-", e.reason)
    for g, t in globs:
        v = byname.get(g)
        if v is None:
            obs.append("missing")
        elif v.value is None:
            obs.append("00" * v.amount)
        else:
            obs.append(b"".join(p if isinstance(p, bytes) else b"<reloc>" for p in v.value).hex())
    return ("ok", obs)


# ---------------------------------------------------------------------------
# gcc side


def _driver(cases):
    """-> (source text, {line number: item index})"""
    lines = ["int printf(const char *, ...);", "static void dump(const void *p, unsigned n) { const unsigned char *c = p; while (n--) printf(\"%02x\", *c++); }"]
    linemap = {}
    body = []
    for i, case in enumerate(cases):
        sfx = "_%d" % i
        src, calls, globs = item_source(case, sfx)
        lines.append(src)
        linemap[len(lines)] = i
        b = ['printf("@%d");' % i]
        if case["kind"] == "bound":
            b.append('printf(" %%llu", (unsigned long long)sizeof(arr%s));' % sfx)
        for fn, args, rt in calls:
            a = ", ".join(_clit(x, case["dtype"]) for x in args)
            if cc.signed(rt):
                b.append('printf(" %%lld", (long long)%s(%s));' % (fn, a))
            else:
                b.append('printf(" %%llu", (unsigned long long)%s(%s));' % (fn, a))
        for g, t in globs:
            b.append('printf(" "); dump(&%s, sizeof(%s));' % (g, g))
        b.append('printf("\\n");')
        body.append((i, " ".join(b)))
    lines.append("int main(void) {")
    for i, b in body:
        lines.append(b)
    lines.append("return 0; }")
    return "\n".join(lines) + "\n", linemap


def _clit(x, t):
    """A C expression of value x converted to type t (used for switch arguments only)."""
    if x < 0:
        return "(%s)(-%dLL%s)" % (t, -x - 1, " - 1")
    return "(%s)%dULL" % (t, x)


_DIAG = re.compile(r"^[^:\n]+:(\d+):\d+: (warning|error): (.*)$", re.M)


def gcc_batch(cases, tmp=None):
    """-> list of ("ok", observation) | ("diag", message) per case."""
    if not GCC:
        raise HarnessError("gcc not found")
    own = tmp is None
    if own:
        tmp = tempfile.mkdtemp(prefix="vf-C27-")
    try:
        return _gcc_batch(cases, tmp)
    finally:
        if own:
            shutil.rmtree(tmp, ignore_errors=True)


def _gcc_batch(cases, tmp):
    res = [None] * len(cases)
    live = list(range(len(cases)))
    for _attempt in range(4):
        if not live:
            break
        sub = [cases[i] for i in live]
        text, linemap = _driver(sub)
        cfile = os.path.join(tmp, "drv.c")
        exe = os.path.join(tmp, "drv")
        with open(cfile, "w") as f:
            f.write(text)
        p = subprocess.run([GCC] + GCC_FLAGS + ["-o", exe, cfile], capture_output=True, text=True, env=dict(os.environ, LC_ALL="C"))
        bad = {}
        errors = False
        for mo in _DIAG.finditer(p.stderr):
            ln, sev, msg = int(mo.group(1)), mo.group(2), mo.group(3)
            if sev == "error":
                errors = True
            if ln in linemap:
                if sev == "error" or not BENIGN.search(msg):
                    bad.setdefault(linemap[ln], "%s: %s" % (sev, re.sub(r"\[-W[^\]]*\]", "", msg).strip()))
            elif sev == "error":
                raise HarnessError("gcc error outside an item line:\n" + p.stderr[:2000])
        if p.returncode != 0:
            if not errors or not bad:
                raise HarnessError("gcc failed without an attributable error:\n" + p.stderr[:2000])
            for j, msg in bad.items():
                res[live[j]] = ("diag", msg)
            live = [live[j] for j in range(len(sub)) if j not in bad]
            continue
        out = subprocess.run([exe], capture_output=True, text=True, timeout=60)
        if out.returncode != 0:
            raise HarnessError("gcc-built driver exited with %d" % out.returncode)
        got = {}
        for line in out.stdout.splitlines():
            if line.startswith("@"):
                parts = line[1:].split()
                got[int(parts[0])] = [int(x) if re.fullmatch(r"-?\d+", x) and not _is_hex_field(sub[int(parts[0])], n) else x for n, x in enumerate(parts[1:])]
        for j, i in enumerate(live):
            if j in bad:
                res[i] = ("diag", bad[j])
            elif j in got:
                res[i] = ("ok", got[j])
            else:
                raise HarnessError("driver printed nothing for item %d" % j)
        live = []
    for i in live:
        res[i] = ("diag", "error: not isolated")
    return res


def _is_hex_field(case, n):
    """Is the n-th printed field of this item a byte dump (hex) rather than a number?"""
    _, calls, globs = item_source(case)
    first_glob = (1 if case["kind"] == "bound" else 0) + len(calls)
    return n >= first_glob


def _norm_gcc(case, gobs):
    """Bring gcc's printed observation into the shape of obs_from_value."""
    if case["kind"] == "bound":
        return [gobs[0], gobs[1]] if len(gobs) == 2 else gobs
    return gobs


# ---------------------------------------------------------------------------
# judging one case


def describe(case):
    return "%s %s%s: %s" % (case["kind"], case.get("dtype", ""), "/" + case["place"] if case.get("place") else "", item_source(case)[0])


def compare(case, exp, res):
    if res[0] == "exc":
        return "%s\nppci raised %s @ %s: %s\nEXPECTED=%s\nOBSERVED=%s" % (describe(case), res[1], res[2], res[3], json.dumps(exp), json.dumps(list(res)))
    if res[1] != exp:
        return "%s\nexpected %r (gcc), ppci gives %r\nEXPECTED=%s\nOBSERVED=%s" % (describe(case), exp, res[1], json.dumps(exp), json.dumps(list(res)))
    return None


def replay(case):
    exp = expected(case)
    g = gcc_batch([case])[0]
    if g[0] == "diag":
        raise Discard("gcc: " + g[1])
    if _norm_gcc(case, g[1]) != exp:
        raise Discard("reference evaluator and gcc disagree")
    return compare(case, exp, run_ppci(case))


def _parse_obs(msg):
    mo = re.search(r"^OBSERVED=(.*)$", msg, re.M)
    return json.loads(mo.group(1)) if mo else None


def open_quirks(open_ids):
    return frozenset(q for kid, qs in FINDINGS if kid in open_ids for q in qs)


def predict(case, Q):
    """Outcome predicted by the defect model with quirks Q -> ("ok", obs) | ("exc", kind)."""
    expr = case["expr"]
    if "eqprec" in Q and case.get("minparen"):
        expr = cc.eqprec_shape(expr)
    try:
        t, v = cc.model_eval(expr, enum_map(case), Q)
    except cc.ModelExc as e:
        return ("exc", e.kind)
    if not isinstance(v, int):
        return ("exc", "unknown")
    noconv = "noconv" in Q
    k = case["kind"]
    if k == "init":
        if noconv and not cc.fits(v, case["dtype"]):
            return ("exc", "pack")
        return ("ok", obs_from_value(case, v))
    if k == "enum":
        if not noconv:
            return ("ok", obs_from_value(case, v))
        if not cc.fits(v + 1, "long long") or not cc.fits(v, "long long"):
            return ("exc", "pack")
        if not -(2**31) <= v < 2**32:
            return ("exc", "undef-const")
        g = lambda x: (x & (2**64 - 1)).to_bytes(8, "little").hex()
        return ("ok", [cc.convert(v, "int"), g(v)] + ([g(v + 1)] if case.get("two", True) else []))
    if k == "case":
        p = cc.promote(case["dtype"])
        if noconv and not cc.tmin(p) <= v < 1 << cc.bits(p):
            return ("exc", "undef-const")  # the IR constant fits neither reading of its type
        return ("ok", obs_from_value(case, v))
    if k == "bound":
        if v < 1:
            return ("exc", "unknown")
        return ("ok", obs_from_value(case, v))
    if k == "bitfield":
        if not 1 <= v <= 32:
            return ("exc", "unknown")
        return ("ok", obs_from_value(case, v))
    raise HarnessError(k)


def _matches(pred, res):
    """Does the observed outcome `res` (run_ppci) equal the model's prediction?"""
    if pred[0] == "ok":
        return res[0] == "ok" and res[1] == pred[1]
    if pred[1] == "unknown":
        return True
    if res[0] != "exc":
        return False
    for typ, frame, frag in SIGNATURES.get(pred[1], ()):
        if res[1] == typ and (frame is None or res[2] == frame) and (frag is None or frag in res[3]):
            return True
    return False


def _attribute(case, Q, pred_all, ids):
    """The first finding whose quirk changes the modelled outcome of this case."""
    for kid, qs in FINDINGS:
        if kid in ids and predict(case, Q - set(qs)) != pred_all:
            return kid
    for kid, qs in FINDINGS:
        if kid in ids:
            return kid
    return None


def _assumed_fixed():
    return {x.strip() for x in os.environ.get("VERIF_C27_FIXED", "").split(",") if x.strip()}


def active_ids():
    """Open findings whose defect is assumed present in the tree under test (VERIF_C27_FIXED=id,id removes some:
    used to validate a fix patch with the exclusions of the repaired findings switched off)."""
    return set(open_finding_ids(PID)) - _assumed_fixed()


def classify(case, msg):
    res = _parse_obs(msg)
    if res is None:
        return None
    try:
        exp = expected(case)
    except Discard:
        return None
    ids = active_ids()
    Q = open_quirks(ids)
    if not Q:
        return None
    pred = predict(case, Q)
    if pred == ("ok", exp) or not _matches(pred, res):
        return None
    return _attribute(case, Q, pred, ids)


def triggers(case, exp, ids):
    """Id of the open finding (if any) whose defect model predicts a wrong outcome for this case."""
    Q = open_quirks(ids)
    if not Q:
        return None
    pred = predict(case, Q)
    if pred == ("ok", exp):
        return None
    return _attribute(case, Q, pred, ids)


# ---------------------------------------------------------------------------
# generator

BOUNDARY = [0, 1, 2, 3, 5, 7, 8, 10, 31, 32, 63, 64, 100, 127, 128, 255, 256, 1000, 32767, 32768, 65535, 65536,
            2**31 - 1, 2**31, 2**32 - 1, 2**32, 2**63 - 1, 2**63, 2**64 - 1]  # fmt: skip
SUFFIXES = ["", "", "", "u", "U", "l", "L", "ul", "UL", "lu", "ll", "LL", "ull", "ULL", "llu"]


@st.composite
def literals(draw, avoid=frozenset(), hits=None):
    if draw(st.integers(0, 11)) == 0:
        if "charlit" in avoid:
            hits.append("C27-KF5")
        else:
            return ["lit", draw(st.sampled_from(sorted(cc.CHAR_LITS)))]
    which = draw(st.integers(0, 9))
    if which < 5:
        v = draw(st.integers(0, 20))
    elif which < 8:
        v = draw(st.sampled_from(BOUNDARY)) + draw(st.sampled_from([0, 0, -1, 1]))
        v = max(v, 0)
    else:
        v = draw(st.integers(0, 2 ** draw(st.sampled_from([8, 16, 32, 64])) - 1))
    base = draw(st.sampled_from([10, 10, 10, 16, 16, 8]))
    suf = draw(st.sampled_from(SUFFIXES))
    while True:
        body = {10: "%d", 16: "0x%X" if draw(st.booleans()) else "0x%x", 8: "0%o"}[base] % v
        if base == 8 and v == 0:
            body = "0"
        try:
            cc.parse_literal(body + suf)
            return ["lit", body + suf]
        except cc.UB:
            v >>= 1


def _defined(e, enums):
    try:
        return cc.ref_eval(e, enums)
    except cc.UB:
        return None


@st.composite
def exprs(draw, depth, enums, avoid, hits):
    """A defined expression tree.  avoid: shapes not to generate (exclusion of open findings by construction:
    "missing" operators, "enum" operands, "charlit"); every avoided draw appends the finding id to hits."""
    if depth <= 0 or draw(st.integers(0, 9)) < 1:
        k = draw(st.integers(0, 19))
        if k < 2:
            return ["sizeoft", draw(st.sampled_from(sorted(cc.SIZEOF_TYPES)))]
        if k < 5 and enums:
            if "enum" in avoid:
                hits.append("C27-KF4")
            else:
                return ["enum", draw(st.sampled_from(sorted(enums)))]
        return draw(literals(avoid, hits))
    k = draw(st.integers(0, 99))
    if k < 50:
        op = draw(st.sampled_from(["+", "-", "*", "/", "%", "<<", ">>", "&", "|", "^", "+", "-", "*", "/", "%", ">>", "/", "%", "/", "%",
                                   "<", ">", "<=", ">=", "==", "!=", "&&", "||"]))  # fmt: skip
        if "missing" in avoid and op in cc.MISSING_BINOPS:
            hits.append("C27-KF1")
            op = draw(st.sampled_from(["+", "-", "*", "/", "<<", ">>", "&", "|", "^"]))
        a = draw(exprs(depth - 1, enums, avoid, hits))
        if op in ("<<", ">>"):
            ta, _ = cc.ref_eval(a, enums)
            n = cc.bits(cc.promote(ta))
            cnt = draw(st.sampled_from([0, 1, 2, 3, 4, 7, 8, 15, 16, 24, 31, 32, 33, 40, 63]))
            cnt = min(cnt, n - 1)
            b = ["lit", "%d%s" % (cnt, draw(st.sampled_from(["", "", "u", "L", "ul"])))]
            if draw(st.integers(0, 5)) == 0:
                b = ["bin", "-", ["lit", str(cnt + 3)], ["lit", "3"]]
        else:
            b = draw(exprs(depth - 1, enums, avoid, hits))
        e = ["bin", op, a, b]
        if _defined(e, enums) is None:
            for alt in draw(st.permutations([">>" if op == "<<" else "&", "|", "^"])):
                e = ["bin", alt, a, b]
                if _defined(e, enums) is not None:
                    break
            else:
                e = a
        return e
    if k < 68:
        op = draw(st.sampled_from(["-", "-", "~", "~", "+", "!"]))
        if "missing" in avoid and op == "!":
            hits.append("C27-KF1")
            op = "~"
        a = draw(exprs(depth - 1, enums, avoid, hits))
        e = ["un", op, a]
        if _defined(e, enums) is None:
            e = ["un", "~", a]
        return e
    if k < 88:
        return ["cast", draw(st.sampled_from(cc.INT_TYPES)), draw(exprs(depth - 1, enums, avoid, hits))]
    if k < 92:
        return ["sizeofe", draw(exprs(depth - 1, enums, avoid, hits))]
    if "missing" in avoid:
        hits.append("C27-KF1")
        return ["cast", draw(st.sampled_from(cc.INT_TYPES)), draw(exprs(depth - 1, enums, avoid, hits))]
    c = draw(exprs(depth - 1, enums, avoid, hits))
    a = draw(exprs(depth - 1, enums, avoid, hits))
    b = draw(exprs(depth - 1, enums, avoid, hits))
    return ["tern", c, a, b]


AVOID = {"C27-KF1": "missing", "C27-KF4": "enum", "C27-KF5": "charlit"}


@st.composite
def cases(draw, max_depth=4, avoid=frozenset()):
    kind = draw(st.sampled_from(["init"] * 6 + ["bound", "enum", "enum", "case", "case", "case", "bitfield"]))
    enums = []
    if draw(st.integers(0, 2)) == 0:
        for i in range(draw(st.integers(1, 3))):
            v = draw(st.sampled_from([0, 1, 5, -1, -3, 7, 100, -128, 2**31 - 1, -(2**31), 65536]))
            enums.append(["K%d" % i, v])
    em = {n: v for n, v in enums}
    hits = []
    e = draw(exprs(draw(st.sampled_from([1, 2, 2, 3, 3, max_depth])), em, avoid, hits))
    case = {"kind": kind, "expr": e, "minparen": draw(st.integers(0, 3)) == 0, "enums": enums, "excluded": sorted(set(hits))}
    t, v = cc.ref_eval(e, em)
    if kind == "init":
        case["dtype"] = draw(st.sampled_from(cc.INT_TYPES))
        case["place"] = draw(st.sampled_from(["global", "global", "static", "local"]))
    elif kind == "bound":
        case["dtype"] = draw(st.sampled_from(ELEM_TYPES))
        if not 1 <= v <= 4096:
            m = draw(st.sampled_from(["0xf", "0xff", "0xfff"]))
            case["expr"] = ["bin", "+", ["bin", "&", e, ["lit", m]], ["lit", "1"]]
    elif kind == "enum":
        case["two"] = draw(st.booleans())
        if not (cc.fits(v, "int") and v < cc.tmax("int")):
            if draw(st.booleans()):
                case["expr"] = ["cast", "int", e]
                if cc.convert(v, "int") == cc.tmax("int"):
                    case["two"] = False
            else:
                case["expr"] = ["bin", "&", e, ["lit", draw(st.sampled_from(["0x7ffffffe", "0xffff", "0x7f"]))]]
    elif kind == "case":
        case["dtype"] = dt = draw(st.sampled_from(CTRL_TYPES))
        p = cc.promote(dt)
        lab = cc.convert(v, p)
        if not cc.fits(lab, dt):
            case["dtype"] = dt = p
        other = next(o for o in (77, 1000, 3, 0) if all(cc.convert(lab + d, p) != o for d in (-1, 0, 1)))
        case["other"] = other
        args = []
        for x in (lab - 1, lab, lab + 1, other, lab ^ (1 << 32), -lab):
            x = cc.convert(cc.convert(x, p), dt)
            if x not in args:
                args.append(x)
        case["args"] = args
    elif kind == "bitfield":
        if not 1 <= v <= 32:
            case["expr"] = ["bin", "+", ["bin", "&", e, ["lit", "31"]], ["lit", "1"]]
    return case


# ---------------------------------------------------------------------------
# search


def nontrivial_classes(case, exp):
    em = enum_map(case)
    cl = set()
    for n in cc.walk(case["expr"]):
        if n[0] == "bin" and n[1] in ("/", "%", ">>"):
            va = cc.ref_eval(n[2], em)[1]
            vb = cc.ref_eval(n[3], em)[1]
            if va < 0 or (vb < 0 and n[1] != ">>"):
                cl.add("negative_operand_of_" + n[1])
    try:
        nv = cc.model_eval(case["expr"], em, frozenset(["noconv"]))[1]
    except cc.ModelExc:
        nv = None
    rv = cc.ref_eval(case["expr"], em)[1]
    if nv is not None and nv != rv:
        cl.add("wraparound_inside_expression")
    if case["kind"] == "init" and not cc.fits(rv, case["dtype"]):
        cl.add("value_outside_destination")
    if case["kind"] == "case" and not cc.fits(rv, cc.promote(case["dtype"])):
        cl.add("value_outside_destination")
    return cl


def strip(case):
    return {k: v for k, v in case.items() if k != "excluded"}


def case_key(case):
    return jhash([case["kind"], case.get("dtype"), case.get("place"), item_source(case)[0]])


def _worker(arg):
    seed, n, max_depth = arg
    stats = Stats()
    open_ids = active_ids()
    pool = {}
    tmp = tempfile.mkdtemp(prefix="vf-C27-")

    avoid = frozenset(AVOID[k] for k in open_ids if k in AVOID)

    def prop(case):
        exp = expected(case)
        for kid in case.get("excluded", ()):
            stats.excluded[kid] += 1
        trig = triggers(case, exp, open_ids)
        if trig:
            stats.excluded[trig] += 1
            return None
        res = run_ppci(case)
        key = case_key(case)
        if key not in pool:
            pool[key] = (case, exp, res)
        return compare(case, exp, res)

    try:
        fails = hyp_search(cases(max_depth, avoid), prop, n, seed, stats, classify=classify)
        # gcc is the oracle: confirm every judged item
        items = list(pool.values())
        out = []
        CH = 64
        for c0 in range(0, len(items), CH):
            chunk = items[c0 : c0 + CH]
            gres = _gcc_batch([c for c, _, _ in chunk], tmp)
            for (case, exp, res), g in zip(chunk, gres):
                if g[0] == "diag":
                    stats.discard("gcc: " + re.sub(r"'[^']*'|\d+", "_", g[1])[:60])
                    continue
                if _norm_gcc(case, g[1]) != exp:
                    stats.discard("reference evaluator and gcc disagree")
                    if len(stats.notes) < 5:
                        stats.notes.append("reference %r, gcc %r on: %s" % (exp, g[1], describe(case)))
                    continue
                cl = nontrivial_classes(case, exp)
                nt = bool(cl)
                sample = {"item": item_source(case)[0], "observation": exp} if nt else None
                stats.case(case_key(case), nt, sample, classes=sorted(cl) + ["kind:" + case["kind"]] + sorted("op:" + f for f in cc.features(case["expr"])))
                msg = compare(case, exp, res)
                if msg is not None:
                    kid = classify(case, msg)
                    if kid and kid in open_ids:
                        continue  # counted by hyp_search
                    if not fails and len(out) < 2:
                        out.append((case, msg))
        # failures found by Hypothesis are shrunk; they are confirmed against gcc by replay() in the runner
        return stats, [(strip(c), m) for c, m in (fails or out)]
    finally:
        shutil.rmtree(tmp, ignore_errors=True)


def run(ctx):
    if not GCC:
        raise HarnessError("gcc not found")
    import ppci.api  # noqa: F401  (imported before the fork: the workers share it)

    ppci.api.get_arch("x86_64")
    n = ctx.scale(3200, 400000)
    ctx.pmap(_worker, [(subseed(ctx.seed, PID, w), n // 16, ctx.scale(4, 5)) for w in range(16)])
