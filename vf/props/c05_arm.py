"""C05 helper for arm (ARMv7-A A32, not thumb).  NOT a registered property module; vf/props/c05.py calls it.

    prog = compile_ir(ir_module, level)          # Program: one compilation + link, many calls
    obs  = prog.run(fname, args, buffers=(), calls=None, ext=None)
    obs  = run_ir_on_arm(ir_module, fname, args, level, buffers=(), calls=None, ext=None)

compiles `ir_module` (a ppci.ir.Module; it is optimised IN PLACE with ppci.api.optimize(level) - pass a fresh build)
with ppci.api.ir_to_object for target 'arm', links it with ppci's own linker and the architecture's own runtime
(ArmArch.get_runtime(): the hand-written `__sdiv`, which is part of the machine code under test) at fixed addresses
(code 0x10000, data 0x400000), loads the images into the emulator vf/arm32.py and calls `fname` through *ppci's* ARM
calling convention (ppci/arch/arm/arch.py; this is not the AAPCS):

  * ArmArch.determine_arg_locations: the first four arguments in r1, r2, r3, r4; every further one in a stack slot
    StackLocation(offset) with offset = 8, 8 + size, ... relative to the CALLEE's frame pointer (the prologue is
    `push {lr, r11}; mov r11, sp`, so fp + 8 is the caller's sp at the call): the caller's slot is [sp + offset - 8].
    The slot size is whatever determine_arg_locations says (StackLocation.size); the value is written little endian
    in that many bytes.
  * result in r0 (determine_rv_location); only the low `bits` of a narrow result are looked at.
  * gen_call lists r0-r4 as clobbered by a call; r5-r10 are callee saved (ArmArch.callee_save), r11 (frame pointer) and
    lr are pushed/popped by every prologue/epilogue; r12 is never allocated.  After the return the glue checks that sp
    and r5..r11 have the values they had at the call (a generated caller keeps live values in r5..r11 across calls).
  * at entry every register that carries no argument holds a fixed junk value (nothing may depend on it).
  * globals and functions are addressed through the literal pool (`ldr rd, =label`: Dcd2(label) words emitted between
    blocks and after the epilogue, absolute 32 bit relocations), calls are `bl label` (+-32 MiB) or `blx reg`.

External functions of the module are bound to hook addresses (extra_symbols of the linker); a hook reads its arguments
by the same convention, appends (name, args) to the trace, returns irsem.ext_default(...) (or `ext`) in r0 exactly like
the reference interpreter, and then overwrites the caller-saved registers r1-r4 and r12 (and r0 of a procedure) with
junk, as any real callee may.

Runtime routines: the arm patterns call `__sdiv` (DIVI32, REMI32), `__udiv` (DIVU32) and `__inv32` (INVI32/INVU32).
Only `__sdiv` exists (get_runtime()); it is linked in and executed as it is.  `__udiv` and `__inv32` are defined nowhere
in ppci, so a module that needs them cannot be linked: CompileError with .missing = the symbol (c05.py counts them).
No host model of a missing routine is substituted: there is no ppci machine code whose behaviour it would stand for.

The result is comparable with vf/irsem.observe_call through irsem.obs_equal(ref, obs):
    {"ret": int | None, "globals": {name: hex}, "buffers": [hex...], "trace": [[name, [args...]]...], "more": [...]}
args: python ints, or ("buf", i) for the address of buffers[i].  `calls`: further [(fname, args)] in the same machine.

Raises  Unsupported   - the glue cannot express the call (64 bit / float arguments or results, blob arguments)
        CompileError  - ppci raised while optimising / compiling / linking (C29's subject: discard)
        ExecError     - the emulator stopped or the convention was broken; .kind is 'steps' | 'illegal' |
                        'unpredictable' | 'unsupported' | 'memory' | 'trap' | 'stack' | 'callee-saved'
"""

import io
import re

from .. import arm32, irsem

CODE_BASE = 0x10000
DATA_BASE = 0x400000
BUF_BASE = 0x30000000
HOOK_BASE = 0x8000  # within bl range of the code
LAYOUT = "MEMORY flash LOCATION=0x%x SIZE=0x300000 { SECTION(code) }\nMEMORY ram LOCATION=0x%x SIZE=0x300000 { SECTION(data) }\n" % (CODE_BASE, DATA_BASE)
ARG_REGS = (1, 2, 3, 4)
CALLEE_SAVED = (5, 6, 7, 8, 9, 10, 11)
JUNK = 0x5EED0000  # | register number


class Unsupported(Exception):
    pass


class CompileError(Exception):
    missing = None  # name of an undefined runtime symbol, if that is why linking failed


class ExecError(Exception):
    def __init__(self, kind, msg):
        super().__init__(msg)
        self.kind = kind


_ARCH = []
_RUNTIME = []


def get_arch():
    from ppci.api import get_arch as ga

    if not _ARCH:
        _ARCH.append(ga("arm"))
    return _ARCH[0]


def _runtime():
    if not _RUNTIME:
        _RUNTIME.append(get_arch().get_runtime())
    return _RUNTIME[0]


_SELFCHECK = {}


def available(level="quick"):
    """(ok, note): the ARM part of C05 only runs when the emulator passes its own self-check (cached by arm32.py).
    VERIF_ARM32_FORCE_FAIL=1 exercises the refusal path (same switch as C07)."""
    import os

    if level not in _SELFCHECK:
        if os.environ.get("VERIF_ARM32_FORCE_FAIL"):
            _SELFCHECK[level] = (False, "forced failure (VERIF_ARM32_FORCE_FAIL)")
        else:
            try:
                r = arm32.selfcheck(level)
                _SELFCHECK[level] = (bool(r.get("ok")), "; ".join(str(p) for p in r.get("problems", [])[:3])[:300])
            except Exception as e:  # the self-check itself broke: no ARM part, never a violation
                _SELFCHECK[level] = (False, "self-check raised %s: %s" % (type(e).__name__, str(e)[:200]))
    return _SELFCHECK[level]


def _int_like(ty, ir):
    return ty is ir.ptr or (isinstance(ty, ir.IntegerTyp) and ty.bits <= 32)


class Program:
    def __init__(self, ir_module, level):
        from ppci import ir
        from ppci.api import ir_to_object, optimize
        from ppci.binutils.layout import Layout
        from ppci.binutils.linker import Linker

        self.ir = ir
        self.module = ir_module
        self.arch = get_arch()
        self.externals = [e for e in ir_module.externals if isinstance(e, ir.ExternalSubRoutine)]
        self.hook_addr = {e.name: HOOK_BASE + 16 * i for i, e in enumerate(self.externals)}
        if [e for e in ir_module.externals if not isinstance(e, ir.ExternalSubRoutine)]:
            raise Unsupported("external variables")
        try:
            if level is not None and str(level) != "0":
                optimize(ir_module, level=str(level))
            self.unlinked = ir_to_object([ir_module], self.arch)
        except Exception as e:
            raise CompileError("%s: %s" % (type(e).__name__, str(e)[:300])) from e
        try:
            self.obj = Linker(self.arch).link([self.unlinked, _runtime()], layout=Layout.load(io.StringIO(LAYOUT)), extra_symbols=dict(self.hook_addr))
        except Exception as e:
            err = CompileError("link: %s: %s" % (type(e).__name__, str(e)[:300]))
            m = re.search(r"(__udiv|__inv32)\b", str(e))
            if m:
                err.missing = m.group(1)
            raise err from e
        self.functions = {f.name: f for f in ir_module.functions}
        self.variables = [(v.name, v.amount) for v in ir_module.variables]

    def symbol(self, name):
        return self.obj.get_symbol_id_value(self.obj.get_symbol(name).id)

    # -- calling convention -------------------------------------------------
    def _locations(self, types):
        from ppci.arch.stack import StackLocation

        for t in types:
            if not _int_like(t, self.ir):
                raise Unsupported("argument of type %s" % t)
        res = []
        for loc in self.arch.determine_arg_locations(types):
            if isinstance(loc, StackLocation):
                res.append(("stack", loc.offset - 8, loc.size))
            else:
                res.append(("reg", loc.num, 4))
        return res

    def _norm(self, v, ty):
        if ty is self.ir.ptr:
            return v & 0xFFFFFFFF
        return irsem.norm_int(v, ty.bits, ty.is_signed)

    def run(self, fname, args, buffers=(), calls=None, ext=None, fuel=3_000_000):
        ir = self.ir
        ext = ext or irsem.ext_default
        m = arm32.Machine(step_limit=fuel)
        m.load_object(self.obj)
        m.map_stack()
        baddr = []
        a = BUF_BASE
        for b in buffers:
            m.map(a, max(len(b), 1), bytes(b), name="buf%d" % len(baddr))
            baddr.append(a)
            a += (len(b) + 0x1000 + 15) & ~15
        trace = []

        def make_hook(e):
            types = list(e.argument_types)
            locs = self._locations(types)

            def hook(mach):
                vals = []
                for (kind, x, size), ty in zip(locs, types):
                    raw = mach.regs[x] if kind == "reg" else int.from_bytes(mach.read(mach.regs[13] + x, size), "little")
                    vals.append(self._norm(raw, ty))
                idx = len(trace)
                r0 = JUNK
                if isinstance(e, ir.ExternalFunction):
                    rty = e.return_ty
                    if not _int_like(rty, ir):
                        raise Unsupported("external returning %s" % rty)
                    r0 = ext(e.name, vals, idx, rty) & 0xFFFFFFFF
                trace.append([e.name, vals])
                if len(trace) > 50_000:
                    raise arm32.StepLimit("more than 50000 external calls")
                # what any callee may do to the registers gen_call declares clobbered
                mach.regs[0] = r0
                for r in ARG_REGS + (12,):
                    mach.regs[r] = JUNK | 0x100 | r

            return hook

        for e in self.externals:
            m.hooks[self.hook_addr[e.name]] = make_hook(e)

        def one(fn, fargs):
            f = self.functions.get(fn)
            if f is None:
                raise Unsupported("no function %s" % fn)
            types = [p.ty for p in f.arguments]
            if len(types) != len(fargs):
                raise Unsupported("argument count")
            locs = self._locations(types)
            is_fn = isinstance(f, ir.Function)
            if is_fn and not _int_like(f.return_ty, ir):
                raise Unsupported("result of type %s" % f.return_ty)
            vals = []
            for v in fargs:
                if isinstance(v, (tuple, list)) and len(v) == 2 and v[0] == "buf":
                    v = baddr[v[1]]
                if not isinstance(v, int):
                    raise Unsupported("argument value %r" % (v,))
                vals.append(v & 0xFFFFFFFF)
            nstack = max([x + size for k, x, size in locs if k == "stack"] + [0])
            sp = (m.stack_top - nstack - 8) & ~7
            for r in range(13):
                m.regs[r] = JUNK | r
            for (k, x, size), v in zip(locs, vals):
                if k == "reg":
                    m.regs[x] = v
                else:
                    m.write(sp + x, (v & ((1 << (8 * size)) - 1)).to_bytes(size, "little"))
            saved = [m.regs[r] for r in CALLEE_SAVED]
            m.regs[13] = sp
            m.regs[14] = arm32.SENTINEL
            try:
                m.run(self.symbol(fn), arm32.SENTINEL)
            except arm32.StepLimit as e:
                raise ExecError("steps", str(e))
            except arm32.IllegalInstruction as e:
                raise ExecError("illegal", str(e))
            except arm32.Unpredictable as e:
                raise ExecError("unpredictable", str(e))
            except arm32.Unsupported as e:
                raise ExecError("unsupported", str(e))
            except arm32.MemoryFault as e:
                raise ExecError("memory", str(e))
            except arm32.Trap as e:
                raise ExecError("trap", str(e))
            if m.regs[13] != sp:
                raise ExecError("stack", "sp = %#x after return, %#x at the call" % (m.regs[13], sp))
            for r, v in zip(CALLEE_SAVED, saved):
                if m.regs[r] != v:
                    raise ExecError("callee-saved", "r%d = %#x after return, %#x at the call" % (r, m.regs[r], v))
            if not is_fn:
                return None
            return self._norm(m.regs[0], f.return_ty)

        ret = one(fname, args)
        more = [one(fn2, a2) for fn2, a2 in calls or ()]
        obs = {"ret": ret, "globals": {}, "buffers": [], "trace": trace}
        for name, size in self.variables:
            obs["globals"][name] = m.read(self.symbol(name), size).hex()
        for adr, b in zip(baddr, buffers):
            obs["buffers"].append(m.read(adr, len(b)).hex())
        if calls:
            obs["more"] = more
        obs["steps"] = m.steps
        self.last_machine = m
        return obs

    def disassemble(self, fname=None):
        """text of the linked code section (debugging aid): address, word, arm32.disasm"""
        out = []
        names = {}
        for s in self.obj.symbols:
            if s.defined and s.section == "code":
                names.setdefault(self.obj.get_symbol_id_value(s.id), []).append(s.name)
        for image in self.obj.images:
            if image.name != "flash":
                continue
            data = bytes(image.data)
            for o in range(0, len(data) - 3, 4):
                adr = image.address + o
                for n in names.get(adr, []):
                    out.append("%s:" % n)
                w = int.from_bytes(data[o : o + 4], "little")
                try:
                    t = arm32.disasm(w)
                except Exception:
                    t = "?"
                out.append("  %08x: %08x  %s" % (adr, w, t))
        return "\n".join(out)


def compile_ir(ir_module, level):
    return Program(ir_module, level)


def run_ir_on_arm(ir_module, fname, args, level, buffers=(), calls=None, ext=None, fuel=3_000_000):
    return Program(ir_module, level).run(fname, args, buffers=buffers, calls=calls, ext=ext, fuel=fuel)
