"""C25 - dominator and post-dominator analyses match their path-based definitions."""

import itertools

from hypothesis import strategies as st

from .. import core
from ..core import Discard, Stats, hyp_search, subseed

PID = "C25"
RULE = (
    "labelled digraphs on inner nodes 0..n-1 (0 = entry) plus an exit node that is a sink, every inner node "
    "reachable from the entry: ALL of them for n <= 3 with self loops and for n = 4 without self loops, and a "
    "systematic sixteenth of n = 5 with out-degree <= 2 and no self loops (thorough: all of n = 4 with self "
    "loops and of n = 5 with out-degree <= 2); plus Hypothesis CFG-like graphs up to 32 (thorough 60) nodes (spanning tree from the entry, extra forward/back/self edges, sinks wired to the "
    "exit). Per graph, against brute-force path definitions (d dom n iff n unreachable from the entry once d is "
    "removed): Lengauer-Tarjan idom (lt.calculate_idom and ControlFlowGraph.get_immediate_dominator), "
    "dominates/strictly_dominates for all pairs, dominance frontier, the fixed-point calculate_dominators / "
    "calculate_immediate_dominators, post_dominates and immediate post-dominators for nodes that can reach the "
    "exit, can_reach for all pairs. non-trivial = the graph has a join (node with >= 2 predecessors) or a "
    "cycle; distinct = edge set"
)
ASSUMPTIONS = [
    "the exit node is a sink and inner nodes are all reachable from the entry (what ir_function_to_graph builds); "
    "the exit itself may be unreachable (endless loops) - dominance queries then leave it out",
    "post-dominance of a node that cannot reach the exit is not judged (vacuous under the path definition; "
    "ppci's fixed point returns 'every node' and has no immediate post-dominator entry for such nodes)",
    "results must not depend on set iteration order; each graph is evaluated once, in the order the nodes are created",
]
TRUSTED = ["CPython", "Hypothesis", "brute-force reachability oracle in vf/props/c25.py"]
REGISTER = True
TECHNIQUE = "exhaustive small-digraph enumeration + Hypothesis CFGs against brute-force path definitions"
LEVEL_TEXT = (
    "Exploration, exhaustive over all labelled digraphs of the stated sizes: every dominator, dominance "
    "frontier, post-dominator and reachability answer is compared with its definition computed by node "
    "removal and graph search. Path-compression and bucket mistakes in Lengauer-Tarjan need particular small "
    "shapes, which the enumeration contains; larger CFG-like graphs are sampled."
)

KF1 = "C25-KF1"  # calculate_dominators: an edge into the entry node destroys every dominator set


# ---------------------------------------------------------------------------
# oracle


def succ_map(n, edges):
    """nodes 0..n-1 inner, n = exit"""
    suc = {i: set() for i in range(n + 1)}
    for u, v in edges:
        suc[u].add(v)
    return suc


def reach_from(suc, start, removed=None):
    """nodes reachable from start by a path of length >= 0 that avoids `removed`"""
    if start == removed:
        return set()
    seen = {start}
    todo = [start]
    while todo:
        u = todo.pop()
        for v in suc[u]:
            if v != removed and v not in seen:
                seen.add(v)
                todo.append(v)
    return seen


def oracle(n, edges):
    suc = succ_map(n, edges)
    nodes = list(range(n + 1))
    pre = {i: set() for i in nodes}
    for u, v in edges:
        pre[v].add(u)
    live = reach_from(suc, 0)
    # proper reachability (path length >= 1)
    reach = {}
    for u in nodes:
        r = set()
        for v in suc[u]:
            r |= reach_from(suc, v)
        reach[u] = r
    # dominators by node removal
    dom = {}
    for x in live:
        dom[x] = set()
    for d in live:
        rest = reach_from(suc, 0, removed=d)
        for x in live:
            if x == d or x not in rest:
                dom[x].add(d)
    idom = {}
    for x in live:
        strict = dom[x] - {x}
        if not strict:
            idom[x] = None
            continue
        cands = [d for d in strict if all(s in dom[d] for s in strict)]
        assert len(cands) == 1, "oracle: idom not unique"
        idom[x] = cands[0]
    df = {}
    for x in live:
        df[x] = {y for y in live if any(x in dom[p] for p in pre[y] if p in live) and not (x in dom[y] and x != y)}
    # post dominators: removal in the reversed graph, for nodes that can reach the exit
    exit_ = n
    rsuc = {i: set() for i in nodes}
    for u, v in edges:
        rsuc[v].add(u)
    can_exit = reach_from(rsuc, exit_)
    pdom = {x: set() for x in can_exit}
    for p in nodes:
        rest = reach_from(rsuc, exit_, removed=p)
        for x in can_exit:
            if x == p or x not in rest:
                pdom[x].add(p)
    ipdom = {}
    for x in can_exit:
        strict = pdom[x] - {x}
        if not strict:
            ipdom[x] = None
            continue
        cands = [d for d in strict if all(s in pdom[d] for s in strict)]
        assert len(cands) == 1, "oracle: ipdom not unique"
        ipdom[x] = cands[0]
    return {"live": live, "reach": reach, "dom": dom, "idom": idom, "df": df, "can_exit": can_exit, "pdom": pdom, "ipdom": ipdom, "pre": pre, "suc": suc}


def nontrivial(n, edges):
    indeg = {}
    for u, v in edges:
        indeg[v] = indeg.get(v, 0) + 1
    if any(c >= 2 for c in indeg.values()):
        return True
    suc = succ_map(n, edges)
    for u in range(n):
        for v in suc[u]:
            if u in reach_from(suc, v):
                return True
    return False


# ---------------------------------------------------------------------------
# ppci side


def normal_case(case):
    n = int(case["n"])
    if not (1 <= n <= 200):
        raise Discard("node count out of range")
    edges = sorted({(int(u), int(v)) for u, v in case["edges"]})
    for u, v in edges:
        if not (0 <= u < n and 0 <= v <= n):
            raise Discard("edge outside the domain (the exit is a sink)")
    suc = succ_map(n, edges)
    if reach_from(suc, 0) | {n} != set(range(n + 1)):
        raise Discard("inner node not reachable from the entry")
    return n, edges


def build(n, edges):
    from ppci.graph import cfg

    g = cfg.ControlFlowGraph()
    nodes = [cfg.ControlFlowNode(g, name="n%d" % i) for i in range(n)]
    nodes.append(cfg.ControlFlowNode(g, name="exit"))
    g.entry_node = nodes[0]
    g.exit_node = nodes[n]
    for u, v in edges:
        nodes[u].add_edge(nodes[v])
    return g, nodes


def name(i, n):
    return "exit" if i == n else "n%d" % i


def evaluate(case):
    """Returns the list of failures [(kind, message)], at most one per analysis (the analyses are
    independent: a failure in one does not hide the others)."""
    import sys
    import traceback

    n, edges = normal_case(case)
    o = oracle(n, edges)
    g, nodes = build(n, edges)
    index = {node: i for i, node in enumerate(nodes)}
    live = sorted(o["live"])
    desc = "graph n=%d edges=%s" % (n, edges)
    want_idom = {x: o["idom"][x] for x in live if o["idom"][x] is not None}

    from ppci.graph import lt
    from ppci.graph.algorithm import fixed_point_dominator as fp

    def nm(i):
        return i if i is None else name(i, n)

    class Fail(Exception):
        def __init__(self, kind, msg):
            self.kind = kind
            self.msg = "%s: %s" % (desc, msg)

    def call(what, fn):
        try:
            return fn()
        except Exception as e:
            frame = None
            for fs in traceback.extract_tb(sys.exc_info()[2]):
                if "/ppci/" in fs.filename:
                    frame = "%s:%s" % (fs.filename.rsplit("/", 1)[-1], fs.name)
            raise Fail("exception", "%s raised %s: %s at %s" % (what, type(e).__name__, e, frame))

    def part_lt():
        r = call("lt.calculate_idom", lambda: lt.calculate_idom(g, nodes[0]))
        got = {index[k]: (None if v is None else index[v]) for k, v in r.items()}
        if got != want_idom:
            bad = sorted(x for x in set(got) | set(want_idom) if got.get(x) != want_idom.get(x))[0]
            raise Fail("idom_lt", "lt.calculate_idom gives idom(%s) = %s, by definition %s" % (nm(bad), nm(got.get(bad)), nm(want_idom.get(bad))))

    def part_dom():
        for x in live:
            r = call("get_immediate_dominator", lambda: g.get_immediate_dominator(nodes[x]))
            gi = None if r is None else index[r]
            if gi != o["idom"][x]:
                raise Fail("idom_cfg", "get_immediate_dominator(%s) = %s, by definition %s" % (nm(x), nm(gi), nm(o["idom"][x])))
        for a in live:
            for b in live:
                r = call(
                    "dominates",
                    lambda: (g.dominates(nodes[a], nodes[b]), g.strictly_dominates(nodes[a], nodes[b]), nodes[a].dominates(nodes[b])),
                )
                d = a in o["dom"][b]
                if bool(r[0]) != d or bool(r[2]) != d:
                    raise Fail("dominates", "dominates(%s, %s) = %s, by definition %s" % (nm(a), nm(b), r[0], d))
                if bool(r[1]) != (d and a != b):
                    raise Fail("sdominates", "strictly_dominates(%s, %s) = %s, by definition %s" % (nm(a), nm(b), r[1], d and a != b))

    def part_df():
        call("calculate_dominance_frontier", lambda: g.calculate_dominance_frontier())
        for x in live:
            gdf = g.df.get(nodes[x])
            gset = None if gdf is None else {index[y] for y in gdf}
            if gset != o["df"][x]:
                raise Fail(
                    "df",
                    "dominance frontier of %s = %s, by definition %s"
                    % (nm(x), None if gset is None else [nm(y) for y in sorted(gset)], [nm(y) for y in sorted(o["df"][x])]),
                )

    def part_fp():
        # the other public implementation; it is given the nodes reachable from the entry
        live_nodes = [nodes[i] for i in live]
        fdom = call("calculate_dominators", lambda: fp.calculate_dominators(live_nodes, nodes[0]))
        for x in live:
            gset = {index[y] for y in fdom[nodes[x]]}
            if gset != o["dom"][x]:
                raise Fail(
                    "fp_dom",
                    "fixed_point_dominator.calculate_dominators: dom(%s) = %s, by definition %s"
                    % (nm(x), [nm(y) for y in sorted(gset)], [nm(y) for y in sorted(o["dom"][x])]),
                )
        sdom = {k: v - {k} for k, v in fdom.items()}
        r = call("calculate_immediate_dominators", lambda: fp.calculate_immediate_dominators(live_nodes, fdom, sdom))
        got = {index[k]: index[v] for k, v in r.items()}
        if got != want_idom:
            raise Fail("fp_idom", "fixed_point_dominator.calculate_immediate_dominators = %s, by definition %s" % (sorted(got.items()), sorted(want_idom.items())))

    def part_pdom():
        for b in sorted(o["can_exit"]):
            for a in range(n + 1):
                r = call("post_dominates", lambda: (g.post_dominates(nodes[a], nodes[b]), nodes[a].post_dominates(nodes[b])))
                d = a in o["pdom"][b]
                if bool(r[0]) != d or bool(r[1]) != d:
                    raise Fail("pdom", "post_dominates(%s, %s) = %s, by definition %s" % (nm(a), nm(b), r[0], d))
            r = call("get_immediate_post_dominator", lambda: g.get_immediate_post_dominator(nodes[b]))
            gi = None if r is None else index[r]
            if gi != o["ipdom"][b]:
                raise Fail("ipdom", "get_immediate_post_dominator(%s) = %s, by definition %s" % (nm(b), nm(gi), nm(o["ipdom"][b])))

    def part_reach():
        for a in range(n + 1):
            for b in range(n + 1):
                r = call("can_reach", lambda: (g.can_reach(nodes[a], nodes[b]), nodes[a].can_reach(nodes[b])))
                d = b in o["reach"][a]
                if bool(r[0]) != d or bool(r[1]) != d:
                    raise Fail("reach", "can_reach(%s, %s) = %s, by definition %s" % (nm(a), nm(b), r[0], d))

    out = []
    for part in (part_lt, part_dom, part_df, part_fp, part_pdom, part_reach):
        try:
            part()
        except Fail as f:
            out.append((f.kind, f.msg))
    return out


def classify_failure(case, f):
    """KF1: fixed-point calculate_dominators on a graph with an edge into the entry node, and the wrong
    result is the one the missing entry guard produces: the entry's own set is overwritten from its
    predecessors in the first sweep, after which no set can shrink - every node is 'dominated' by
    every node."""
    if f is None:
        return None
    kind, msg = f
    n, edges = normal_case(case)
    if kind == "fp_dom" and any(v == 0 for _u, v in edges):
        from ppci.graph.algorithm import fixed_point_dominator as fp

        g, nodes = build(n, edges)
        live = sorted(reach_from(succ_map(n, edges), 0))
        live_nodes = [nodes[i] for i in live]
        try:
            fdom = fp.calculate_dominators(live_nodes, nodes[0])
        except Exception:
            return None
        if all(set(fdom[x]) == set(live_nodes) for x in live_nodes):
            return KF1
    return None


def classify(case, msg):
    try:
        fs = evaluate(case)
    except Discard:
        return None
    for f in fs:
        if f[1] == msg:
            return classify_failure(case, f)
    return None


def first_failure(case):
    """The first failure that is not attributed to a known finding, else the first failure."""
    fs = evaluate(case)
    open_ids = core.open_finding_ids(PID)
    for f in fs:
        if classify_failure(case, f) not in open_ids:
            return f
    return fs[0] if fs else None


def replay(case):
    f = first_failure(case)
    return None if f is None else f[1]


# ---------------------------------------------------------------------------
# enumeration


def enum_blocks(quick, seed=1):
    """(n, self_loops, max_outdegree or None, stride, offset): stride 1 = the whole block; stride 16 =
    a systematic sixteenth of it (which one is chosen by the seed)"""
    if quick:
        return [(1, True, None, 1, 0), (2, True, None, 1, 0), (3, True, None, 1, 0), (4, False, None, 1, 0), (5, False, 2, 16, seed % 16)]
    return [(1, True, None, 1, 0), (2, True, None, 1, 0), (3, True, None, 1, 0), (4, True, None, 1, 0), (5, False, 2, 1, 0)]


def block_graphs(n, loops, maxout, w, nw):
    """Yield edge lists of the block's graphs whose running index is congruent w mod nw."""
    targets = []
    for u in range(n):
        t = [v for v in range(n + 1) if loops or v != u]
        targets.append(t)
    if maxout is None:
        slots = [(u, v) for u in range(n) for v in targets[u]]
        total = 1 << len(slots)
        for mask in range(total):
            # mix the bits so that every shard gets graphs of every shape
            if (mask ^ (mask >> 5) ^ (mask >> 11) ^ (mask >> 17)) % nw == w:
                yield [slots[i] for i in range(len(slots)) if mask >> i & 1]
    else:
        per_node = []
        for u in range(n):
            opts = []
            for k in range(maxout + 1):
                for c in itertools.combinations(targets[u], k):
                    opts.append([(u, v) for v in c])
            per_node.append(opts)
        idx = -1
        for combo in itertools.product(*per_node):
            idx += 1
            if (idx ^ (idx >> 5) ^ (idx >> 11) ^ (idx >> 17)) % nw == w:
                yield [e for part in combo for e in part]


def _enum_worker(arg):
    w, nw, blocks = arg
    stats = Stats()
    fails = []
    kinds = {}
    for n, loops, maxout, stride, offset in blocks:
        for edges in block_graphs(n, loops, maxout, w + nw * offset, nw * stride):
            suc = succ_map(n, edges)
            if len(reach_from(suc, 0) - {n}) != n:
                continue  # some inner node is unreachable: outside the domain
            case = {"n": n, "edges": [list(e) for e in edges]}
            fs = evaluate(case)
            nt = nontrivial(n, edges)
            stats.evaluations += 1
            if nt:
                stats.nontrivial_counted += 1
            stats.hist["enumerated_n%d%s" % (n, "" if stride == 1 else "_sampled")] += 1
            if n not in reach_from(suc, 0):
                stats.hist["exit_unreachable"] += 1
            if not fs:
                if nt and len(stats.samples) < 2 and len(edges) >= n + 2:
                    stats.sample(case)
                continue
            for f in fs:
                kid = classify_failure(case, f)
                if kid and kid in core.open_finding_ids(PID):
                    stats.known[kid] += 1
                elif kinds.get(f[0], 0) < 2 and len(fails) < 4:
                    kinds[f[0]] = kinds.get(f[0], 0) + 1
                    fails.append((case, f[1]))
    return stats, fails


# ---------------------------------------------------------------------------
# Hypothesis part


@st.composite
def gen_case(draw, maxn, avoid_kf1):
    n = draw(st.integers(2, maxn))
    # KF1 exclusion: half of the graphs have no edge into the entry; the other half keep such edges
    # (the fixed-point part then reports KF1, which is counted, and all other analyses are still judged)
    avoid_kf1 = avoid_kf1 and draw(st.booleans())
    edges = set()
    for i in range(1, n):
        # spanning tree: a parent among the earlier nodes, biased towards recent ones (deep graphs)
        lo = 0 if draw(st.integers(0, 2)) == 0 else max(0, i - 3)
        edges.add((draw(st.integers(lo, i - 1)), i))
    extra = draw(st.integers(0, n + 2))
    for _ in range(extra):
        u = draw(st.integers(0, n - 1))
        v = draw(st.integers(1 if avoid_kf1 else 0, n - 1))
        edges.add((u, v))
    for u in range(n):
        if not any(a == u for a, _b in edges) or draw(st.integers(0, 7)) == 0:
            if draw(st.integers(0, 9)) != 0:
                edges.add((u, n))
    return {"n": n, "edges": [list(e) for e in sorted(edges)]}


def _hyp_worker(arg):
    seed, count, maxn, avoid_kf1 = arg
    stats = Stats()

    def prop(case):
        f = first_failure(case)
        n, edges = normal_case(case)
        nt = nontrivial(n, edges)
        cls = ["random_n<=%d" % next(b for b in (5, 10, 20, 40, 80, 200) if n <= b)]
        suc = succ_map(n, edges)
        if n not in reach_from(suc, 0):
            cls.append("random_exit_unreachable")
        elif len(reach_from({i: {u for u, v in edges if v == i} for i in range(n + 1)}, n)) < n + 1:
            cls.append("random_has_stuck_nodes")
        if any(v == 0 for _u, v in edges):
            cls.append("random_edge_into_entry")
        stats.case(tuple(edges), nt, case if nt else None, classes=cls)
        if avoid_kf1 and not any(v == 0 for _u, v in edges):
            stats.excluded[KF1] += 1
        return None if f is None else f[1]

    fails = hyp_search(gen_case(maxn, avoid_kf1), prop, count, seed, stats, classify=classify, budget_s=600)
    return stats, fails


def active_exclusions():
    findings = {e["id"]: e for e in core.load_findings(PID) if e.get("status") == "open"}
    e = findings.get(KF1)
    if e is None:
        return False
    try:
        fs = evaluate(e["witness"])
    except Discard:
        return False
    return any(classify_failure(e["witness"], f) == KF1 for f in fs)


def run(ctx):
    blocks = enum_blocks(ctx.quick, ctx.seed)
    nw = ctx.scale(16, 64)
    ctx.pmap(_enum_worker, [(w, nw, blocks) for w in range(nw)])
    ctx.exhaustive = True
    ctx.extra["exhaustive_domain"] = "; ".join(
        "n=%d inner nodes + exit, %s self loops%s" % (n, "with" if loops else "without", "" if maxout is None else ", out-degree <= %d" % maxout)
        for n, loops, maxout, stride, _o in blocks
        if stride == 1
    )
    ctx.extra["systematic_samples"] = [
        "every %dth graph (offset %d) of: n=%d inner nodes + exit, %s self loops, out-degree <= %s" % (stride, o, n, "with" if loops else "without", maxout)
        for n, loops, maxout, stride, o in blocks
        if stride != 1
    ]
    avoid = active_exclusions()
    ctx.extra["exclusions_active"] = {KF1: avoid}
    count = ctx.scale(2000, 200000)
    ctx.pmap(_hyp_worker, [(subseed(ctx.seed, PID, w), count // 16, ctx.scale(32, 60), avoid) for w in range(16)])
