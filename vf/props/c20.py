"""C20 - LEB128 encoding is the canonical specification encoding."""

import os
import subprocess

from hypothesis import strategies as st

from ..core import Stats, hyp_search, subseed

PID = "C20"
RULE = (
    "every integer in [-2^16, 2^16] (enumerated), 2^(7k)+d and -2^(7k)+d for k<=19, |d|<=2, "
    "and Hypothesis integers up to 2^128; compared byte-for-byte with reference encoders written "
    "from the DWARF pseudo-code, decode(encode(v))==v, decoder consumes exactly the encoding, "
    "unsigned encoder raises on negatives; a sample is cross-checked against GNU as .uleb128/.sleb128. "
    "non-trivial = |value| >= 64 (multi-byte encoding); distinct = (signedness, value)"
)
ASSUMPTIONS = ["GNU as is a correct LEB128 encoder (cross-check of a sample only)"]
TRUSTED = ["CPython", "Hypothesis", "reference encoders in vf/props/c20.py", "GNU as"]


# --- reference (DWARF 5, appendix C, figures C.1/C.2) -----------------------
def ref_uleb(v):
    assert v >= 0
    out = bytearray()
    while True:
        byte = v % 128
        v = v // 128
        if v != 0:
            byte += 128
        out.append(byte)
        if v == 0:
            return bytes(out)


def ref_sleb(v):
    out = bytearray()
    more = True
    while more:
        byte = v % 128  # low order 7 bits (python % is non-negative)
        v = (v - byte) // 128  # arithmetic shift
        sign = byte >= 64
        if (v == 0 and not sign) or (v == -1 and sign):
            more = False
        else:
            byte += 128
        out.append(byte)
    return bytes(out)


def check_value(v):
    """Returns failure message or None."""
    from ppci.utils import leb128

    # signed
    enc = leb128.signed_leb128_encode(v)
    ref = ref_sleb(v)
    if bytes(enc) != ref:
        return "signed_leb128_encode(%d) = %s, reference %s" % (v, bytes(enc).hex(), ref.hex())
    it = iter(ref + b"\xaa")
    dec = leb128.signed_leb128_decode(it)
    if dec != v:
        return "signed_leb128_decode(%s) = %d, expected %d" % (ref.hex(), dec, v)
    if next(it, None) != 0xAA:
        return "signed_leb128_decode did not consume exactly the encoding of %d" % v
    if v >= 0:
        enc = leb128.unsigned_leb128_encode(v)
        ref = ref_uleb(v)
        if bytes(enc) != ref:
            return "unsigned_leb128_encode(%d) = %s, reference %s" % (v, bytes(enc).hex(), ref.hex())
        it = iter(ref + b"\xaa")
        dec = leb128.unsigned_leb128_decode(it)
        if dec != v:
            return "unsigned_leb128_decode(%s) = %d, expected %d" % (ref.hex(), dec, v)
        if next(it, None) != 0xAA:
            return "unsigned_leb128_decode did not consume exactly the encoding of %d" % v
    else:
        try:
            r = leb128.unsigned_leb128_encode(v)
        except Exception:
            pass
        else:
            return "unsigned_leb128_encode(%d) returned %r instead of raising" % (v, bytes(r))
    return None


def replay(case):
    return check_value(int(case["value"]))


def _enum_worker(arg):
    lo, hi = arg
    stats = Stats()
    fails = []
    nt = 0
    for v in range(lo, hi):
        msg = check_value(v)
        if msg and len(fails) < 3:
            fails.append(({"value": str(v)}, msg))
        if abs(v) >= 64:
            nt += 1
    stats.bulk(hi - lo, nt, {"enumerated": hi - lo})
    stats.sample({"value": lo, "signed": ref_sleb(lo).hex()})
    return stats, fails


def _hyp_worker(arg):
    seed, n = arg
    stats = Stats()

    def prop(v):
        msg = check_value(v)
        stats.case(("r", v), abs(v) >= 64, None, classes=("random_%dbytes" % len(ref_sleb(v)),))
        return msg

    mag = st.integers(0, 128).flatmap(lambda b: st.integers(0, 2**b))
    strat = st.builds(lambda m, s: -m if s else m, mag, st.booleans())
    fails = hyp_search(strat, prop, n, seed, stats)
    return stats, [({"value": str(c)}, m) for c, m in fails]


def gas_crosscheck(ctx, values):
    """Encode values with GNU as and compare with the reference encoders."""
    tmp = ctx.tmpdir()
    src = os.path.join(tmp, "leb.s")
    obj = os.path.join(tmp, "leb.o")
    binf = os.path.join(tmp, "leb.bin")
    with open(src, "w") as f:
        f.write(".data\n")
        for v in values:
            f.write(".sleb128 %d\n" % v)
            if v >= 0:
                f.write(".uleb128 %d\n" % v)
    try:
        subprocess.run(["as", "-o", obj, src], check=True, capture_output=True)
        subprocess.run(["objcopy", "-O", "binary", "-j", ".data", obj, binf], check=True, capture_output=True)
    except (OSError, subprocess.CalledProcessError) as e:
        ctx.stats.notes.append("GNU as cross-check unavailable: %s" % e)
        return
    data = open(binf, "rb").read()
    pos = 0
    from ppci.utils import leb128

    n = 0
    for v in values:
        forms = [("signed", leb128.signed_leb128_encode)]
        if v >= 0:
            forms.append(("unsigned", leb128.unsigned_leb128_encode))
        for name, fn in forms:
            enc = bytes(fn(v))
            got = data[pos : pos + len(enc)]
            # as' encoding must be a complete encoding: last byte has no continuation bit
            if got != enc or (got and got[-1] & 0x80):
                ctx.fail({"value": str(v)}, "%s leb128 of %d: ppci %s, GNU as %s" % (name, v, enc.hex(), data[pos : pos + len(enc) + 2].hex()))
                return
            pos += len(enc)
            n += 1
    ctx.stats.hist["gas_crosschecked"] += n
    if pos != len(data) and not all(b == 0 for b in data[pos:]):
        ctx.stats.notes.append("GNU as output has %d trailing bytes" % (len(data) - pos))


def run(ctx):
    lo, hi = -(2**16), 2**16 + 1
    step = (hi - lo + 15) // 16
    ctx.pmap(_enum_worker, [(a, min(a + step, hi)) for a in range(lo, hi, step)])
    ctx.exhaustive = True
    ctx.extra["exhaustive_domain"] = "all integers in [-2^16, 2^16]"
    # group boundaries
    bvals = []
    for k in range(1, 20):
        for d in range(-2, 3):
            bvals += [2 ** (7 * k) + d, -(2 ** (7 * k)) + d, 2 ** (7 * k - 1) + d, -(2 ** (7 * k - 1)) + d]
    for v in bvals:
        msg = check_value(v)
        ctx.stats.case(("b", v), True, {"value": str(v), "signed": ref_sleb(v).hex()}, classes=("group_boundary",))
        if msg:
            ctx.fail({"value": str(v)}, msg)
    n = ctx.scale(4000, 400000)
    ctx.pmap(_hyp_worker, [(subseed(ctx.seed, PID, w), n // 16) for w in range(16)])
    gas_crosscheck(ctx, bvals[:: ctx.scale(4, 1)] + list(range(-300, 300, 7)))

REGISTER = True
TECHNIQUE = "exhaustive enumeration + Hypothesis big integers against DWARF reference encoders; GNU as cross-check"
LEVEL_TEXT = (
    "Exploration, exhaustive on [-2^16, 2^16]: every value is encoded by ppci and by reference encoders "
    "written from the DWARF pseudo-code and compared byte for byte, decoded back, and the decoder's "
    "consumption is checked; group boundaries up to 2^133 and random integers up to 2^128 extend it. "
    "A pure function of one integer has no state, so enumeration plus boundary search is the right level."
)
