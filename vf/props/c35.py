"""C35 - GDB remote-serial-protocol framing and acknowledgement are reliable.

A *case* is a schedule: which bytes reach ppci's RspHandler at which point of
which operation.  The same driver runs the schedule against

  * ppci's RspHandler (ack queue replaced by a scripted single-slot queue whose
    get() lets the schedule deliver the bytes that arrive while the sender waits;
    transport replaced by a recording mock, or by ppci's own TCP transport class
    around a fake socket object) - no threads, no clock; and
  * RefHandler, a reference RSP endpoint written here from the GDB manual
    (appendix E "Remote Serial Protocol", Overview).

and the observations (bytes written, messages delivered, result of each send)
are compared.  The known defects of the pinned tree are expressed as *quirks* of
the reference (a failure is attributed to a known finding only when the
reference with exactly those quirks reproduces the observation).

case = {"retries": R, "transport": "mock"|"tcp", "send_limit": null|k,
        "ops": [ {"op": "recv", "events": [EV...], "chunks": [n...]},
                 {"op": "send", "payload": "...", "waits": [[EV...], ...]} ]}
EV   = ["pkt", payload, delta, by]   framed packet, checksum + delta, by = "ppci" (RspHandler.rsp_pack)
                                     or "ref" (reference packer, lower-case hex) or "ref+" (escapes letters too)
     | ["raw", text]                 literal bytes (junk, notifications, halves of a split packet)
     | ["ack", "+" | "-"]            acknowledgement character on the wire
     | ["qack", "+" | "-"]           acknowledgement put straight into the ack queue (bypasses the decoder)
A send's waits[i] are the bytes that arrive while the sender waits for the i-th time; a wait that
surfaces no acknowledgement is a timeout.  Bytes the sender did not wait for arrive after it returned.
"""

import itertools
import logging
import queue as _queue

from hypothesis import strategies as st

from ..core import Discard, HarnessError, Stats, hyp_search, jhash, open_finding_ids, subseed

PID = "C35"
RULE = (
    "schedules for ppci's RspHandler driven single-threaded: (a) frame cases - 1..3 packets packed by "
    "RspHandler.rsp_pack or by a reference packer (payload <= 8 chars, thorough 16, over letters, digits and "
    "$ # } * + - ' ]), good or corrupted checksum, junk and notifications between them, fed byte-wise or through "
    "ppci's TCP.recv_thread around a fake socket in a generated chunking; every chunking enumerated for every "
    "payload of length <= 2 over an 8-character alphabet; (b) histories - up to 8 operations (thorough 30) of "
    "send(payload, waits) and recv(events) with acks, nacks (on the wire or injected into the ack queue), stray acks, "
    "timeouts, incoming packets inside waits, and packets split across operations.  Compared with a reference RSP "
    "endpoint: tokens written to the transport, messages delivered, acknowledged sends return.  "
    "non-trivial = payload with one of $ # } * ', a nack, a stray ack, a timeout, a corrupted checksum, or a packet "
    "split across deliveries/chunks; distinct = hash of the whole schedule"
)
ASSUMPTIONS = [
    "payloads are ASCII (sendpkt encodes with 'ascii'); run-length encoding is not produced by rsp_pack and not demanded of the receiver",
    "the peer sends a packet contiguously and at most one acknowledgement per transmission; an acknowledgement that "
    "arrives while no send is waiting is stray and must have no effect",
    "when no acknowledgement arrives (timeout) the sender gives up without retransmitting, as the pinned code does; "
    "the property does not prescribe timeout behaviour, so only the absence of further effects is compared",
    "a blocking put on the full ack queue with no sender running ends in queue.Full (the 0.5 s timeout elapses)",
    "ppci's TCP transport is exercised with a fake socket object: recv(n) returns at most n bytes of the current chunk, "
    "send(data) accepts at most send_limit bytes and returns the count (socket API contract)",
]
TRUSTED = ["CPython", "Hypothesis", "reference RSP endpoint RefHandler/RefRx in vf/props/c35.py (self-tested on packets from the GDB manual)"]
TECHNIQUE = "schedule-owning harness: generated RSP histories and chunkings against a reference endpoint"
LEVEL_TEXT = (
    "Exploration: the handler's ack queue and transport are replaced by scripted fakes so that every interleaving of "
    "sender waits and incoming bytes is a generated value; short frames are enumerated over all chunkings, longer ones "
    "and histories are sampled with Hypothesis and compared with a reference endpoint.  Real threads and timers are "
    "not exercised; the schedule granularity is the ack queue, which is the only synchronisation point of the code."
)
REGISTER = True

for _name in ("rsp-handler", "decoder", "transport"):
    logging.getLogger(_name).setLevel(logging.CRITICAL + 1)

FINDINGS = ("C35-KF1", "C35-KF2", "C35-KF3", "C35-KF4", "C35-KF5")
KF1, KF2, KF3, KF4, KF5 = FINDINGS

MUST_ESCAPE = "$#}"
PPCI_ESCAPES = "}*#$"


# ---------------------------------------------------------------------------
# reference model


def ref_escape(payload, also=""):
    out = []
    for c in payload:
        if c in MUST_ESCAPE or c in also:
            out.append("}" + chr(ord(c) ^ 0x20))
        else:
            out.append(c)
    return "".join(out)


def ref_pack(payload, also="", upper=False):
    body = ref_escape(payload, also)
    cs = sum(body.encode("ascii")) % 256
    return "$%s#%s" % (body, ("%02X" if upper else "%02x") % cs)


def corrupt(frame, delta):
    """Add delta (mod 256) to the checksum digits of a frame; delta -1: checksum digits 00."""
    if not delta:
        return frame
    if delta == -1:
        return frame[:-2] + "00"
    try:
        cs = (int(frame[-2:], 16) + delta) % 256
    except ValueError:
        return frame  # not a frame at all: sender_check reports it
    return frame[:-2] + "%02x" % cs


HEXDIGITS = b"0123456789abcdefABCDEF"


class RefRx:
    """Byte-wise RSP receiver.  feed(b) -> None | ("ack", c) | ("good", payload, raw) | ("bad", raw)."""

    def __init__(self, quirks=()):
        self.quirks = quirks
        self.state = 0
        self.body = bytearray()
        self.cs = bytearray()
        self.features = set()

    def feed(self, b):
        s = self.state
        if s == 0:
            if b == 0x24:
                self.state = 1
                self.body = bytearray()
            elif b == 0x2B:
                return ("ack", "+")
            elif b == 0x2D:
                self.features.add(KF3)
                if KF3 not in self.quirks:
                    return ("ack", "-")
            return None
        if s == 1:
            if b == 0x23:
                if self.body[-1:] == b"'":
                    self.features.add(KF2)
                    if KF2 in self.quirks:
                        self.body.append(b)
                        return None
                self.state = 2
                self.cs = bytearray()
            else:
                self.body.append(b)
            return None
        self.cs.append(b)
        if s == 2:
            self.state = 3
            return None
        self.state = 0
        raw = b"$" + bytes(self.body) + b"#" + bytes(self.cs)
        if self.cs[0] not in HEXDIGITS or self.cs[1] not in HEXDIGITS:
            return ("bad", raw)
        if sum(self.body) % 256 != int(self.cs.decode("ascii"), 16):
            return ("bad", raw)
        body = self.body.decode("latin1")
        if "}" in body:
            self.features.add(KF1)
            if KF1 in self.quirks:
                return ("good", body, raw)
        out = []
        it = iter(body)
        for c in it:
            if c == "}":
                n = next(it, None)
                if n is None:
                    return ("bad", raw)
                c = chr(ord(n) ^ 0x20)
            out.append(c)
        return ("good", "".join(out), raw)

    def partial(self):
        if self.state == 0:
            return None
        raw = b"$" + bytes(self.body)
        if self.state >= 2:
            raw += b"#" + bytes(self.cs)
        return raw


def tokens(data):
    """Reference view of a byte string written to the transport."""
    rx = RefRx()
    out = []
    for b in data:
        idle = rx.state == 0
        ev = rx.feed(b)
        if ev is None:
            if idle and rx.state == 0:
                out.append(["junk", b])
        elif ev[0] == "ack":
            out.append(ev[1])
        elif ev[0] == "good":
            out.append(["pkt", ev[1]])
        else:
            out.append(["bad", ev[1].decode("latin1")])
    p = rx.partial()
    if p is not None:
        out.append(["partial", p.decode("latin1")])
    return out


def frames_raw(data):
    rx = RefRx()
    out = []
    for b in data:
        ev = rx.feed(b)
        if ev and ev[0] == "good":
            out.append(ev[2])
    return out


class RxDead(Exception):
    pass


class Full(RxDead):
    pass


class RefHandler:
    """Reference endpoint (receiver + stop-and-wait sender).  quirks model the known defects of ppci."""

    def __init__(self, case, quirks=()):
        self.quirks = frozenset(quirks)
        self.rx = RefRx(self.quirks)
        self.sent = []
        self.delivered = []
        self.q = []
        self.waiting = False
        self.limit = case.get("send_limit")
        self.features = self.rx.features
        self.ntx = []

    def _emit(self, data):
        if self.limit is not None and len(data) > self.limit:
            self.features.add(KF5)
            if KF5 in self.quirks:
                data = data[: self.limit]
        self.sent.append(data)

    def on_byte(self, b):
        ev = self.rx.feed(b)
        if ev is None:
            return
        if ev[0] == "ack":
            self._ack(ev[1])
        elif ev[0] == "good":
            self._emit(b"+")
            self.delivered.append(ev[1])
        else:
            self._emit(b"-")

    def recv_chunks(self, data, chunks):
        for b in data:
            self.on_byte(b)

    def inject_ack(self, v):
        self._ack(v)

    def _ack(self, v):
        if not self.waiting:
            self.features.add(KF4)
        if KF4 in self.quirks:
            # ppci: every acknowledgement goes into the single-slot queue, whoever waits or not
            if self.q:
                raise Full("Full")
            self.q.append(v)
        elif self.waiting and not self.q:
            self.q.append(v)

    def has_ack(self):
        return bool(self.q)

    def _get(self, wait):
        if not self.q:
            self.waiting = True
            try:
                wait()
            finally:
                self.waiting = False
        return self.q.pop() if self.q else None

    def sendpkt(self, payload, retries, wait):
        frame = ref_pack(payload, also="*", upper=True).encode("ascii")
        if KF4 not in self.quirks:
            del self.q[:]
        n = 1
        self._emit(frame)
        res = self._get(wait)
        retx = 0
        while res == "-" and retx < retries:
            self._emit(frame)
            n += 1
            retx += 1
            res = self._get(wait)
        self.ntx.append(n)
        if res == "+":
            return "ok@budget" if retx == retries else "ok"
        if res == "-":
            return "fail"
        return "timeout"


# ---------------------------------------------------------------------------
# ppci under the schedule


class FakeQueue:
    """Single-slot stand-in for queue.Queue(maxsize=1); the schedule decides what a blocked get() sees."""

    def __init__(self):
        self.items = []
        self.waiter = None

    def qsize(self):
        return len(self.items)

    def empty(self):
        return not self.items

    def full(self):
        return bool(self.items)

    def put(self, item, block=True, timeout=None):
        if self.items:
            raise _queue.Full()
        self.items.append(item)

    def put_nowait(self, item):
        return self.put(item, False)

    def get(self, block=True, timeout=None):
        if not self.items and block and self.waiter is not None:
            self.waiter()
        if not self.items:
            raise _queue.Empty()
        return self.items.pop()

    def get_nowait(self):
        return self.get(False)

    def task_done(self):
        pass


class MockTransport:
    def __init__(self, sent):
        self.sent = sent
        self.on_byte = None

    def send(self, data):
        self.sent.append(bytes(data))


class FakeSocket:
    """recv(n): at most n bytes of the current chunk; send(data): accepts at most `limit` bytes."""

    def __init__(self, sent, limit):
        self.sent = sent
        self.limit = limit
        self.chunks = []
        self.idx = 0
        self.pos = 0

    def load(self, chunks):
        self.chunks = chunks
        self.idx = 0
        self.pos = 0

    def rx_avail(self):
        if self.idx >= len(self.chunks):
            return True  # end of stream is "readable"
        if self.pos < len(self.chunks[self.idx]):
            return True
        self.idx += 1
        self.pos = 0
        return False  # nothing there yet

    def recv(self, n, *flags):
        if self.idx >= len(self.chunks):
            return b""
        data = self.chunks[self.idx][self.pos : self.pos + n]
        self.pos += len(data)
        return data

    def unread(self):
        rest = b"".join(self.chunks[self.idx :])[self.pos :] if self.idx < len(self.chunks) else b""
        return rest

    def send(self, data, *flags):
        data = bytes(data)
        if self.limit is not None:
            data = data[: self.limit]
        self.sent.append(data)
        return len(data)

    def sendall(self, data, *flags):
        data = bytes(data)
        while data:
            n = self.send(data)
            data = data[n:]

    def close(self):
        pass


class _Recognised:
    def __init__(self, v):
        self.v = v

    def send(self, byte):
        return self.v


class PpciHandler:
    def __init__(self, case):
        from ppci.binutils.dbg.gdb.rsp import RspHandler

        self.sent = []
        self.delivered = []
        self.sock = None
        if case.get("transport") == "tcp":
            from ppci.binutils.dbg.gdb.transport import TCP

            try:
                t = TCP(0)
                t.sock.close()
            except OSError:
                t = TCP.__new__(TCP)
                t._port = 0
                t.on_byte = None
                t._rxthread = None
            self.sock = FakeSocket(self.sent, case.get("send_limit"))
            t.sock = self.sock
            t.rx_avail = self.sock.rx_avail
            t._running = True
        else:
            t = MockTransport(self.sent)
        self.t = t
        self.h = RspHandler(t)
        self.h.on_message = self.delivered.append
        self.q = FakeQueue()
        self.h._ack_queue = self.q

    def on_byte(self, b):
        self.t.on_byte(bytes([b]))

    def recv_chunks(self, data, chunks):
        if self.sock is None:
            for b in data:
                self.on_byte(b)
            return
        parts = []
        pos = 0
        for n in chunks:
            if pos >= len(data):
                break
            parts.append(data[pos : pos + n])
            pos += n
        if pos < len(data):
            parts.append(data[pos:])
        self.sock.load(parts)
        self.t._running = True
        self.t.recv_thread()

    def inject_ack(self, v):
        # what _process_byte does once the decoder has recognised an acknowledgement
        real = self.h._packet_decoder
        self.h._packet_decoder = _Recognised(v)
        try:
            self.h._process_byte(v.encode("ascii"))
        finally:
            self.h._packet_decoder = real

    def has_ack(self):
        return bool(self.q.items)

    def sendpkt(self, payload, retries, wait):
        self.q.waiter = wait
        try:
            self.h.sendpkt(payload, retries=retries)
            return "ok"
        except _queue.Empty:
            return "timeout"
        except Exception as e:  # noqa
            return "fail:%s" % type(e).__name__
        finally:
            self.q.waiter = None


# ---------------------------------------------------------------------------
# the schedule driver (shared by both endpoints)


def event_atoms(ev):
    kind = ev[0]
    if kind == "qack":
        return [("q", ev[1])]
    if kind == "ack":
        return list(ev[1].encode("ascii"))
    if kind == "raw":
        return list(ev[1].encode("ascii"))
    if kind == "pkt":
        return list(frame_of(ev).encode("ascii"))
    raise HarnessError("unknown event %r" % (ev,))


def frame_of(ev):
    _, payload, delta, by = ev
    if by == "ppci":
        from ppci.binutils.dbg.gdb.rsp import RspHandler

        frame = RspHandler.rsp_pack(payload)
    elif by == "ref+":
        frame = ref_pack(payload, also="*abOK")
    else:
        frame = ref_pack(payload)
    return corrupt(frame, delta)


def drive(case, impl):
    """Run the schedule; returns the observation."""
    state = {"dead": None, "left": []}
    outcomes = []

    def deliver(atoms, until_ack):
        for i, a in enumerate(atoms):
            if state["dead"]:
                return []
            try:
                if isinstance(a, tuple):
                    impl.inject_ack(a[1])
                else:
                    impl.on_byte(a)
            except Exception as e:  # the receiver thread would die here
                state["dead"] = type(e).__name__
                return []
            if until_ack and impl.has_ack():
                return atoms[i + 1 :]
        return []

    for op in case["ops"]:
        if op["op"] == "recv":
            atoms = state["left"] + [a for ev in op["events"] for a in event_atoms(ev)]
            state["left"] = []
            if state["dead"]:
                continue
            if all(isinstance(a, int) for a in atoms):
                try:
                    impl.recv_chunks(bytes(atoms), op.get("chunks") or [1])
                except Exception as e:
                    state["dead"] = type(e).__name__
            else:
                deliver(atoms, False)
        elif op["op"] == "send":
            waits = [[a for ev in w for a in event_atoms(ev)] for w in op["waits"]]
            pos = [0]

            def wait():
                atoms = state["left"]
                state["left"] = []
                if pos[0] < len(waits):
                    atoms = atoms + waits[pos[0]]
                    pos[0] += 1
                if atoms:
                    state["left"] = deliver(atoms, True)

            outcomes.append(impl.sendpkt(op["payload"], case["retries"], wait))
            # whatever the sender did not wait for arrives afterwards
            rest = state["left"] + [a for w in waits[pos[0] :] for a in w]
            state["left"] = []
            deliver(rest, False)
        else:
            raise HarnessError("unknown op %r" % (op,))
    wire = b"".join(impl.sent)
    return {
        "wire": tokens(wire),
        "delivered": list(impl.delivered),
        "outcomes": outcomes,
        "rxdead": state["dead"],
        "raw": wire,
    }


def compare(exp, obs, ntx):
    if obs["wire"] != exp["wire"]:
        i = 0
        while i < len(exp["wire"]) and i < len(obs["wire"]) and exp["wire"][i] == obs["wire"][i]:
            i += 1
        return "written to the transport differs at token %d: ppci %r, reference %r (ppci wrote %r)" % (
            i,
            obs["wire"][i : i + 3],
            exp["wire"][i : i + 3],
            obs["raw"],
        )
    if obs["delivered"] != exp["delivered"]:
        return "messages delivered to on_message: ppci %r, reference %r" % (obs["delivered"], exp["delivered"])
    if obs["rxdead"] != exp["rxdead"]:
        return "receive path raised %s (reference: %s); the receiver thread would terminate" % (obs["rxdead"], exp["rxdead"])
    for i, (m, o) in enumerate(zip(exp["outcomes"], obs["outcomes"])):
        if m == "ok" and o != "ok":
            return "send #%d was acknowledged but sendpkt ended with %s" % (i, o)
        if m == "ok@budget" and not (o == "ok" or o.startswith("fail")):
            return "send #%d was acknowledged on its last retransmission but sendpkt ended with %s" % (i, o)
    # nack => the SAME bytes again
    raws = frames_raw(obs["raw"])
    k = 0
    for n in ntx:
        grp = raws[k : k + n]
        k += n
        if len(set(grp)) > 1:
            return "retransmission differs from the first transmission: %r" % (grp,)
    return None


def check_case(case):
    if not isinstance(case, dict) or "ops" not in case:
        raise Discard("malformed")
    case.setdefault("retries", 10)
    if case["retries"] < 1:
        raise Discard("retries<1")
    for op in case["ops"]:
        texts = [op.get("payload", "")]
        for ev in op.get("events", []) + [e for w in op.get("waits", []) for e in w]:
            texts.append(ev[1])
        for t in texts:
            if any(ord(c) > 127 for c in t):
                raise Discard("non-ascii")


def sender_check(case):
    """rsp_pack output, read by the reference receiver, is exactly one good packet with the payload."""
    for op in case["ops"]:
        evs = op.get("events", []) + [e for w in op.get("waits", []) for e in w]
        for ev in evs:
            if ev[0] == "pkt" and ev[3] == "ppci":
                from ppci.binutils.dbg.gdb.rsp import RspHandler

                frame = RspHandler.rsp_pack(ev[1])
                try:
                    tk = tokens(frame.encode("ascii"))
                except (UnicodeError, AttributeError) as e:
                    return "rsp_pack(%r) = %r is not ASCII text (%s)" % (ev[1], frame, e)
                if tk != [["pkt", ev[1]]]:
                    return "rsp_pack(%r) = %r is read by a conforming receiver as %r" % (ev[1], frame, tk)
    return None


def evaluate(case):
    """-> (failure message | None, observation of ppci | None, features seen by the reference run)"""
    check_case(case)
    msg = sender_check(case)
    if msg is not None:
        return msg, None, set()
    ref = RefHandler(case)
    exp = drive(case, ref)
    obs = drive(case, PpciHandler(case))
    return compare(exp, obs, ref.ntx), obs, set(ref.features)


def replay(case):
    return evaluate(case)[0]


def classify(case, msg):
    """A failure is a known finding only if the reference endpoint with exactly the quirks of a set of
    findings whose trigger occurs in this schedule reproduces ppci's observation."""
    try:
        m, obs, primary = evaluate(case)
    except Exception:
        return None
    if m is None or obs is None or not primary:
        return None
    allq = RefHandler(case, FINDINGS)
    drive(case, allq)
    feats = [f for f in FINDINGS if f in primary or f in allq.features]
    for r in range(1, len(feats) + 1):
        for sub in itertools.combinations(feats, r):
            if not primary & set(sub):
                continue
            exp = drive(case, RefHandler(case, sub))
            if exp["wire"] == obs["wire"] and exp["delivered"] == obs["delivered"] and exp["rxdead"] == obs["rxdead"] and _same_outcomes(exp, obs):
                return [f for f in sub if f in primary][0]
    return None


def _same_outcomes(exp, obs):
    if len(exp["outcomes"]) != len(obs["outcomes"]):
        return False
    for m, o in zip(exp["outcomes"], obs["outcomes"]):
        oo = "fail" if o.startswith("fail") else o
        if m == "ok@budget":
            if oo not in ("ok", "fail"):
                return False
        elif m != oo:
            return False
    return True


# ---------------------------------------------------------------------------
# features / non-triviality of a case (measured on the reference run)


def case_classes(case, feats):
    cl = set()
    specials = set("$#}*'")
    nack = stray = timeout = split = badcs = False
    for op in case["ops"]:
        evs = op.get("events", []) + [e for w in op.get("waits", []) for e in w]
        if op["op"] == "send":
            if specials & set(op["payload"]):
                cl.add("special_char_payload")
            for w in op["waits"]:
                if not any(e[0] in ("ack", "qack") for e in w):
                    timeout = True
        for e in evs:
            if e[0] == "pkt":
                if specials & set(e[1]):
                    cl.add("special_char_payload")
                if e[2]:
                    badcs = True
            if e[0] in ("ack", "qack") and e[1] == "-":
                nack = True
            if e[0] == "raw" and "$" in e[1] and e[1][-3:-2] != "#":
                split = True
        if op["op"] == "recv" and len(op.get("chunks") or []) > 1 and case.get("transport") == "tcp":
            cl.add("chunked")
    if KF4 in feats:
        stray = True
    for name, v in (("nack", nack), ("stray_ack", stray), ("timeout", timeout), ("split_packet", split), ("bad_checksum", badcs)):
        if v:
            cl.add(name)
    if case.get("send_limit") is not None:
        cl.add("partial_socket_send")
    return cl


# ---------------------------------------------------------------------------
# generators

LETTERS = "abOK09:,;]"
SPECIALS = "$#}*+-'"
JUNK = "xyz%:;019 #"


def _payload(draw, maxlen, excl, stats):
    p = draw(st.text(alphabet=LETTERS + SPECIALS * 2, max_size=maxlen))
    if KF1 in excl and any(c in p for c in "$#}*"):
        p = "".join("Q" if c in "$#}*" else c for c in p)
        stats.excluded[KF1] += 1
    if KF2 in excl and p.endswith("'"):
        p += "q"
        stats.excluded[KF2] += 1
    return p


def _stream_events(draw, maxlen, excl, stats, maxev=2):
    evs = []
    for _ in range(draw(st.integers(0, maxev))):
        k = draw(st.integers(0, 9))
        if k <= 5:
            delta = 0 if draw(st.integers(0, 3)) else draw(st.sampled_from([1, 255, 16, 0x20, 128, 7, -1, -1]))
            by = draw(st.sampled_from(["ppci", "ppci", "ref", "ref+"]))
            if KF1 in excl and by == "ref+":
                by = "ref"
            evs.append(["pkt", _payload(draw, maxlen, excl, stats), delta, by])
        elif k <= 7:
            evs.append(["raw", draw(st.text(alphabet=JUNK, min_size=1, max_size=4))])
        else:
            body = draw(st.text(alphabet="Stop:T05;a", min_size=1, max_size=6))
            evs.append(["raw", "%" + ref_pack(body)[1:]])
    return evs


def _lifted(draw, open_ids):
    """Exclusion set for this case: every open finding, each lifted with probability 1/8."""
    return {f for f in open_ids if draw(st.integers(0, 7)) != 0}


def frame_cases(open_ids, maxlen, stats):
    @st.composite
    def gen(draw):
        excl = _lifted(draw, open_ids)
        evs = []
        while not any(e[0] == "pkt" for e in evs):
            evs = _stream_events(draw, maxlen, excl, stats, maxev=3)
        transport = draw(st.sampled_from(["mock", "tcp", "tcp"]))
        total = sum(len(event_atoms(e)) for e in evs)
        chunks = []
        left = total
        while left > 0:
            n = draw(st.integers(1, min(left, 6)))
            chunks.append(n)
            left -= n
        return {"retries": 1, "transport": transport, "send_limit": None, "ops": [{"op": "recv", "events": evs, "chunks": chunks}]}

    return gen()


def history_cases(open_ids, maxlen, maxops, stats):
    @st.composite
    def gen(draw):
        excl = _lifted(draw, open_ids)
        retries = draw(st.sampled_from([1, 1, 2, 3, 10]))
        transport = draw(st.sampled_from(["mock", "mock", "tcp"]))
        limit = None
        if transport == "tcp" and draw(st.integers(0, 2)) == 0:
            if KF5 in excl:
                stats.excluded[KF5] += 1
            else:
                limit = draw(st.integers(1, 5))
        ops = []
        carry = None  # second half of a split packet: first thing to arrive in the next batch
        for _ in range(draw(st.integers(1, maxops))):
            if draw(st.integers(0, 2)) == 0:
                evs = _stream_events(draw, maxlen, excl, stats)
                if draw(st.integers(0, 3)) == 0:
                    if KF4 in excl:
                        stats.excluded[KF4] += 1
                    else:
                        evs.insert(draw(st.integers(0, len(evs))), ["ack", draw(st.sampled_from("+-"))])
                if carry:
                    evs.insert(0, carry)
                    carry = None
                carry = _maybe_split(draw, evs, maxlen, excl, stats)
                ops.append({"op": "recv", "events": evs, "chunks": [1]})
            else:
                waits = []
                nacks = draw(st.sampled_from([0, 0, 0, 1, 1, 2, 3, retries, retries + 1]))
                ending = draw(st.sampled_from(["+", "+", "+", "+", "none", "stray+"]))
                plan = ["-"] * min(nacks, retries + 1)
                if len(plan) <= retries:
                    plan.append(ending)
                for a in plan:
                    w = _stream_events(draw, maxlen, excl, stats, maxev=1)
                    if carry:
                        w.insert(0, carry)
                        carry = None
                    if a == "-":
                        if KF3 in excl:
                            stats.excluded[KF3] += 1
                            w.append(["qack", "-"])
                        else:
                            w.append([draw(st.sampled_from(["ack", "ack", "qack"])), "-"])
                    elif a == "+":
                        w.append([draw(st.sampled_from(["ack", "ack", "ack", "qack"])), "+"])
                    elif a == "stray+":
                        # acknowledged, and a second '+' trails it (arrives when nobody waits)
                        w.append(["ack", "+"])
                        if KF4 in excl:
                            stats.excluded[KF4] += 1
                        else:
                            waits.append(w)
                            w = [["ack", "+"]]
                    else:
                        carry = _maybe_split(draw, w, maxlen, excl, stats)
                    waits.append(w)
                ops.append({"op": "send", "payload": _payload(draw, maxlen, excl, stats), "waits": waits})
        return {"retries": retries, "transport": transport, "send_limit": limit, "ops": ops}

    return gen()


def _maybe_split(draw, evs, maxlen, excl, stats):
    """Append the first part of a packet to evs; returns the event holding the rest (or None)."""
    if draw(st.integers(0, 3)) != 0:
        return None
    frame = ref_pack(_payload(draw, maxlen, excl, stats))
    k = draw(st.integers(1, len(frame) - 1))
    evs.append(["raw", frame[:k]])
    return ["raw", frame[k:]]


# ---------------------------------------------------------------------------
# workers


def _prop_factory(stats, tag):
    def prop(case):
        msg, obs, feats = evaluate(case)
        cl = case_classes(case, feats)
        nontrivial = bool(cl - {"chunked"})
        cl.add(tag)
        cl.add("transport_" + str(case.get("transport")))
        stats.case(jhash(case), nontrivial, case if nontrivial else None, classes=sorted(cl))
        return msg

    return prop


def _hyp_worker(arg):
    seed, nframes, nhist, maxlen, maxops = arg
    stats = Stats()
    open_ids = open_finding_ids(PID)
    fails = []
    fails += hyp_search(frame_cases(open_ids, maxlen, stats), _prop_factory(stats, "frame_case"), nframes, seed, stats, classify=classify)
    fails += hyp_search(history_cases(open_ids, maxlen, maxops, stats), _prop_factory(stats, "history_case"), nhist, seed + 1, stats, classify=classify)
    return stats, fails


ENUM_ALPHABET = "aK:+-]'}"


def compositions(n):
    """All ways to cut n bytes into chunks."""
    for mask in range(1 << (n - 1)):
        out = []
        run = 1
        for i in range(n - 1):
            if mask >> i & 1:
                out.append(run)
                run = 1
            else:
                run += 1
        out.append(run)
        yield out


def _enum_worker(arg):
    idx, nshards, maxlen = arg
    stats = Stats()
    fails = []
    open_ids = open_finding_ids(PID)
    payloads = [""]
    for n in range(1, maxlen + 1):
        payloads += ["".join(t) for t in itertools.product(ENUM_ALPHABET, repeat=n)]
    sample_done = False
    for i, p in enumerate(payloads):
        if i % nshards != idx:
            continue
        for delta in (0, 1):
            ev = ["pkt", p, delta, "ppci"]
            n = len(event_atoms(ev))
            nontriv = bool(set(p) & set("$#}*'")) or delta != 0
            cnt = 0
            seen_msg = {}
            for ch in compositions(n):
                case = {"retries": 1, "transport": "tcp", "send_limit": None, "ops": [{"op": "recv", "events": [ev], "chunks": ch}]}
                msg, obs, feats = evaluate(case)
                cnt += 1
                if msg:
                    # the observation does not depend on the chunking: classify once per (payload, checksum)
                    if seen_msg.get("msg") == msg:
                        kid = seen_msg["kid"]
                    else:
                        kid = classify(case, msg)
                        seen_msg = {"msg": msg, "kid": kid}
                    if kid and kid in open_ids:
                        stats.known[kid] += 1
                    elif len(fails) < 3:
                        fails.append((case, msg))
                if nontriv and not sample_done and len(ch) > 2:
                    stats.sample(case)
                    sample_done = True
            stats.bulk(cnt, cnt if nontriv else 0, {"enumerated_chunking": cnt})
    return stats, fails


def selftest():
    """Reference model against packets printed in the GDB manual / captured from real gdb sessions."""
    vectors = [("g", "$g#67"), ("OK", "$OK#9a"), ("S05", "$S05#b8"), ("m 65,4", "$m 65,4#58"), ("vCont;c", "$vCont;c#a8")]
    for p, f in vectors:
        if ref_pack(p) != f:
            raise HarnessError("reference packer: %r -> %r, expected %r" % (p, ref_pack(p), f))
        if tokens(f.encode()) != [["pkt", p]]:
            raise HarnessError("reference receiver on %r: %r" % (f, tokens(f.encode())))
    if ref_pack("a#b}$") != "$a}\x03b}]}\x04#%02x" % (sum(b"a}\x03b}]}\x04") % 256):
        raise HarnessError("reference escaping")
    if tokens(b"+-$x#79x$a}\x03#e1") != ["+", "-", ["bad", "$x#79"], ["junk", ord("x")], ["pkt", "a#"]]:
        raise HarnessError("reference receiver: %r" % tokens(b"+-$x#79x$a}\x03#e1"))


def run(ctx):
    selftest()
    maxlen = ctx.scale(8, 16)
    ctx.pmap(_enum_worker, [(i, 16, 2) for i in range(16)], workers=ctx.scale(8, 16))
    ctx.exhaustive = True
    ctx.extra["exhaustive_domain"] = (
        "every chunking of the frame of every payload of length <= 2 over %r, good and corrupted checksum, "
        "through TCP.recv_thread; histories and longer payloads are sampled" % ENUM_ALPHABET
    )
    nframes = ctx.scale(1600, 200000)
    nhist = ctx.scale(1200, 160000)
    maxops = ctx.scale(8, 30)
    # 16 shards on 8 processes in the quick tier: on a loaded machine more processes only add contention
    ctx.pmap(_hyp_worker, [(subseed(ctx.seed, PID, w), nframes // 16, nhist // 16, maxlen, maxops) for w in range(16)], workers=ctx.scale(8, 16))
