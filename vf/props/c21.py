"""C21 - WebAssembly modules round-trip through binary and text forms."""

import json
import os
import time

from hypothesis import strategies as st

from .. import core, fuzz
from .. import noderun as N
from .. import wasmgen as G
from .. import wasmref as R
from ..core import Discard, Stats, hyp_search, subseed

PID = "C21"
RULE = (
    "Hypothesis modules from vf/wasmgen.py (types incl. duplicates, function/global imports, functions with nested "
    "block/loop/if, br/br_if/br_table, calls, call_indirect, all MVP numeric and memory instructions, mutable and "
    "immutable globals, memory + data, table + elem, exports, start) encoded by the reference encoder vf/wasmref.py; "
    "per case: (a) Module(ref).to_bytes()==ref, (b) Module(Module(ref).to_string()).to_bytes()==Module(ref).to_bytes(), "
    "(c) Module(wat).to_bytes() for a flat or folded rendering (drawn integer spelling, inline exports, and numeric / "
    "unique / deliberately shadowing label names and $x names colliding across the func, global and local spaces) is accepted by V8 "
    "and gives the same results/traps/globals/memory as ref on the generated invocations, (d) w(r(w(r(b))))==w(r(b)) for "
    "a non-canonical encoding b (padded LEB128s, ungrouped locals). non-trivial = some function nests block/loop/if "
    "inside another and branches, and the module has >=2 section kinds beyond type/function/code; distinct = hash of the case. "
    "Thorough tier additionally: coverage-guided fuzzing of the binary reader (atheris/libFuzzer, vf/fuzz.py; two campaigns of "
    "VERIF_FUZZ_RUNS (default 100000) executions from an empty corpus and from 30 reference binaries): for every input Module() accepts, "
    "w(r(w(r(b)))) == w(r(b)) and Module(Module(b).to_string()).to_bytes() == Module(b).to_bytes(); a discrepancy counts only if V8 "
    "validates the input (coverage[\"fuzz\"] holds executions, corpus growth and the outcome histogram)"
)
ASSUMPTIONS = [
    "no reference assembler in the image: 'the reference assembler's binary' is the output of the reference encoder "
    "vf/wasmref.py (own opcode table, written from the spec), itself validated by V8 accepting every module",
    "degrees of freedom of the binary format follow ppci's writer (read once in ppci/wasm/binary/writer.py, "
    "components.py): sections without entries are omitted; section order type, import, function, table, memory, global, "
    "export, start, elem, code, data; locals are declared as maximal runs of equal type; all LEB128s minimal; no custom, "
    "name or data-count section; active data/elem segments on index 0 use the one-byte flag 0x00; memory.size/grow "
    "carry the zero byte; call_indirect carries table index 0; limits flag 0x00/0x01",
    "for other valid encodings of the same module only idempotence of read-write is demanded",
    "equivalence of text round trip is decided by to_bytes() equality; behaviour by V8 (results bitwise, NaN as a class)",
]
TRUSTED = ["CPython", "Hypothesis", "Node/V8", "reference encoder and WAT renderer vf/wasmref.py",
           "thorough tier: atheris 3.1 / libFuzzer (input producer only), V8 WebAssembly.validate (validity of fuzzed binaries)"]
TECHNIQUE = "round-trip and differential testing of generated modules against a spec-derived encoder and V8"
LEVEL_TEXT = (
    "Exploration: every generated module is pushed through binary read/write (byte equality with an independent "
    "encoder), text write/parse (byte equality), text parse of an independent rendering (behaviour in V8) and "
    "non-canonical re-encoding (idempotence). Encodings vary with module content, so generated modules against an "
    "independent encoder are what reaches them."
)
REGISTER = True

# open finding -> generator exclusion
KF = {
    "C21-KF1": {"no_features": {"snan32_consts"}},
    "C21-KF2": {"no_features": {"nan_payload_consts"}},
    "C21-KF3": {"no_features": set(), "wat": {"cond_names": False}},
}


def flags_for(open_ids):
    nf = set()
    used = []
    for kid, e in KF.items():
        if kid in open_ids:
            nf |= e["no_features"]
            used.append(kid)  # C21-KF3 is excluded in the rendering (case["wat"]["cond_names"]), not in the generator
    return G.Flags(no_features=nf, extras={"limit_edges"}), used


_NODE = [None]


def node():
    if _NODE[0] is None:
        _NODE[0] = N.NodeRunner()
    return _NODE[0]


def _close_node():
    if _NODE[0] is not None:
        _NODE[0].close()
        _NODE[0] = None


def _frame(e):
    import traceback

    for fr in reversed(traceback.extract_tb(e.__traceback__)):
        if "/ppci/" in fr.filename:
            return "%s:%s" % (fr.filename.split("/ppci/", 1)[1], fr.name)
    return ""


def _diffpos(a, b):
    for i, (x, y) in enumerate(zip(a, b)):
        if x != y:
            return i
    return min(len(a), len(b))


def _ctx(a, b):
    i = _diffpos(a, b)
    return "first difference at byte %d: expected ...%s, got ...%s (lengths %d, %d)" % (
        i, a[max(0, i - 6) : i + 10].hex(), b[max(0, i - 6) : i + 10].hex(), len(a), len(b))  # fmt: skip


def message(step, detail, desc, **extra):
    head = dict(extra)
    head["step"] = step
    txt = "C21 " + json.dumps(head, sort_keys=True, default=str) + "\n" + "step (%s): %s\n" % (step, detail)
    wat = R.to_wat(desc)
    return txt + (wat if len(wat) < 1500 else wat[:1500] + "\n  ...\n")


def parse_message(msg):
    if not isinstance(msg, str) or not msg.startswith("C21 {"):
        return None
    try:
        return json.loads(msg[4:].split("\n", 1)[0])
    except ValueError:
        return None


def _v8(wasm, case, timeout_s=None):
    info = G.module_info(case["desc"])
    try:
        ans = node().run(wasm, calls=G.call_plan(case), globals=info["globals"], memory=info["memory"], imports=info["imports"],
                         timeout_s=timeout_s)  # fmt: skip
    except N.NodeTimeout:
        raise Discard("node-timeout")
    ans.pop("id", None)
    return ans


def check_case(case):
    """None | failure message."""
    import logging

    from ppci.wasm import Module

    logging.disable(logging.CRITICAL)
    desc = case["desc"]
    ref = R.encode(desc)
    ref_ans = _v8(ref, case)
    if ref_ans["compile"]:
        raise core.HarnessError("reference encoding rejected by V8: %s\n%s" % (ref_ans["compile"], R.to_wat(desc)))
    # (a) binary -> Module -> binary
    try:
        m = Module(ref)
        b2 = m.to_bytes()
    except Exception as e:
        return message("a", "Module(ref_binary).to_bytes() raised %s: %s" % (type(e).__name__, e), desc, exc=type(e).__name__, frame=_frame(e))
    if b2 != ref:
        return message("a", "Module(ref_binary).to_bytes() != ref_binary; " + _ctx(ref, b2), desc, pos=_diffpos(ref, b2),
                       exp=ref[_diffpos(ref, b2) - 4 : _diffpos(ref, b2) + 4].hex(), got=b2[_diffpos(ref, b2) - 4 : _diffpos(ref, b2) + 4].hex())  # fmt: skip
    # (b) text round trip
    try:
        txt = m.to_string()
        b3 = Module(txt).to_bytes()
    except Exception as e:
        return message("b", "Module(Module(x).to_string()) raised %s: %s" % (type(e).__name__, e), desc, exc=type(e).__name__, frame=_frame(e))
    if b3 != b2:
        return message("b", "text round trip changed the module; " + _ctx(b2, b3), desc, pos=_diffpos(b2, b3),
                       exp=b2[_diffpos(b2, b3) - 4 : _diffpos(b2, b3) + 4].hex(), got=b3[_diffpos(b2, b3) - 4 : _diffpos(b2, b3) + 4].hex())  # fmt: skip
    # (c) independent WAT rendering -> ppci -> V8
    v = case.get("wat", {})
    wat = R.to_wat(desc, folded=bool(v.get("folded")), style=int(v.get("style", 0)), inline_exports=bool(v.get("inline")),
                   names=int(v.get("names", 0)), cond_names=bool(v.get("cond_names", True)))
    try:
        bw = Module(wat).to_bytes()
    except Exception as e:
        return message("c", "Module(wat) raised %s: %s\n%s" % (type(e).__name__, e, wat[:1500]), desc, exc=type(e).__name__, frame=_frame(e))
    try:
        ans = _v8(bw, case, timeout_s=30.0)
    except Discard:
        # The reference binary finished; the binary ppci produced from the text did not.  Guard against a
        # merely overloaded machine: it counts only if it times out again while the reference answers fast.
        t0 = time.time()
        _v8(ref, case)
        fast = time.time() - t0 < 3.0
        try:
            ans = _v8(bw, case, timeout_s=30.0)
        except Discard:
            if not fast:
                raise Discard("node-timeout-under-load")
            return message("c", "Module(wat).to_bytes() does not terminate in V8 (2 x 30 s) on invocations the reference binary "
                           "completes at once; " + _ctx(ref, bw), desc, v8="timeout")
    if ans["compile"]:
        return message("c", "V8 rejects Module(wat).to_bytes(): %s\n%s" % (ans["compile"], wat[:1500]), desc, v8="reject")
    if ans != ref_ans:
        keys = [k for k in ref_ans if ans.get(k) != ref_ans[k]]
        d = "; ".join("%s: reference %s, via text %s" % (k, str(ref_ans[k])[:150], str(ans.get(k))[:150]) for k in keys)
        return message("c", "binary from text behaves differently in V8: %s; %s" % (d, _ctx(ref, bw)), desc, v8="differs", pos=_diffpos(ref, bw),
                       exp=ref[_diffpos(ref, bw) - 4 : _diffpos(ref, bw) + 4].hex(), got=bw[_diffpos(ref, bw) - 4 : _diffpos(ref, bw) + 4].hex())  # fmt: skip
    # (d) idempotence on a non-canonical encoding
    nc = case.get("noncanon", {})
    bv = R.encode(desc, leb_pad=int(nc.get("leb_pad", 1)), split_locals=bool(nc.get("split_locals", True)))
    try:
        w1 = Module(bv).to_bytes()
        w2 = Module(w1).to_bytes()
    except Exception as e:
        return message("d", "reading a non-canonical encoding raised %s: %s" % (type(e).__name__, e), desc, exc=type(e).__name__, frame=_frame(e))
    if w1 != w2:
        return message("d", "w(r(w(r(b)))) != w(r(b)); " + _ctx(w1, w2), desc, pos=_diffpos(w1, w2))
    return None


def replay(case):
    if fuzz.is_case(case):
        return fuzz.replay_case(case, lambda d: fuzz_binary(d, known_as_label=False))
    try:
        return check_case(case)
    finally:
        _close_node()


def _f32_consts(desc):
    out = []
    for f in desc["funcs"]:
        out += [n[1][0] for n in R.walk(f["body"]) if n[0] == "f32.const"]
    out += [g["init"][1][0] for g in desc.get("globals", []) if g["init"][0] == "f32.const"]
    return out


def _nan_consts(desc):
    out = []
    for f in desc["funcs"]:
        out += [(n[0][:3], n[1][0]) for n in R.walk(f["body"]) if n[0] in ("f32.const", "f64.const")]
    out += [(g["init"][0][:3], g["init"][1][0]) for g in desc.get("globals", []) if g["init"][0] in ("f32.const", "f64.const")]
    return [(t, v) for t, v in out if N.is_nan_bits(t, v)]


def _kf3_model(desc, mode):
    """The module ppci's parser produces under C21-KF3: in a folded `(if $l cond (then ..))` the if's label is
    pushed BEFORE the condition is parsed, so a NAMED label reference inside the condition is resolved against
    a stack that already holds the if's label.  Returns a description with the depths rewritten accordingly
    (names are assigned exactly as wasmref._wat_folded does), or None if nothing changes."""
    import copy

    out = copy.deepcopy(desc)
    changed = [False]

    def resolve(names, pstack, depth):
        tok = names.label(depth)
        if not tok.startswith("$"):
            return depth
        return list(reversed(pstack)).index(tok)

    def count_opens(node):
        op = node[0]
        if op in ("block", "loop"):
            return 1 + sum(count_opens(n) for n in node[2])
        if op == "if":
            return 1 + count_opens(node[2]) + sum(count_opens(n) for n in node[3]) + sum(count_opens(n) for n in (node[4] or []))
        return sum(count_opens(n) for n in node[2])

    def walk(node, names, pstack):
        op = node[0]
        if op in ("block", "loop"):
            name = names.open()
            pstack.append(name)
            for n in node[2]:
                walk(n, names, pstack)
            pstack.pop()
            names.close()
        elif op == "if":
            # the name the if will get once its condition has been rendered
            probe = R._Names(mode)
            probe.count = names.count + count_opens(node[2])
            probe.labels = list(names.labels)
            if_name = probe.open()
            pstack.append(if_name)  # ppci: label visible while the condition is parsed
            walk(node[2], names, pstack)
            pstack.pop()
            name = names.open()
            pstack.append(name)
            for n in node[3]:
                walk(n, names, pstack)
            for n in node[4] or []:
                walk(n, names, pstack)
            pstack.pop()
            names.close()
        else:
            for c in node[2]:
                walk(c, names, pstack)
            if op in ("br", "br_if"):
                d = resolve(names, pstack, node[1][0])
                if d != node[1][0]:
                    node[1][0] = d
                    changed[0] = True
            elif op == "br_table":
                ls = [resolve(names, pstack, x) for x in node[1][0]]
                dflt = resolve(names, pstack, node[1][1])
                if ls != node[1][0] or dflt != node[1][1]:
                    node[1][0], node[1][1] = ls, dflt
                    changed[0] = True

    for f in out["funcs"]:
        names = R._Names(mode, len(out["types"][f["type"]][0]))
        for n in f["body"]:
            walk(n, names, [])
    return out if changed[0] else None


# export names beyond [a-z0-9]: the name encoding (byte length prefix, UTF-8) and the escaping of the text format
EXPORT_NAMES = st.one_of(
    st.sampled_from(["\u03c02", "\u00e9nv", "a b", 'x"y', "back\\slash", "tab\there", "new\nline", "", "\u65e5\u672c\u8a9e", "\U0001f600", "\x7f", "a;b", "(x)", "$f", "\\", '"', "\u00ff" * 70]),
    st.text(alphabet=st.characters(codec="utf-8", exclude_categories=("Cs",)), max_size=5),
)


def rename_exports(case, exo):
    """Give the exports of the module the drawn names (made unique by a numeric suffix); calls follow."""
    if not exo:
        return case
    desc = dict(case["desc"])
    ren, taken, exports = {}, set(), []
    for i, e in enumerate(desc.get("exports", [])):
        new = exo[i % len(exo)]
        if i >= len(exo) or new in taken:
            new = "%s%d" % (new, i)
        while new in taken or new in exo[i + 1 :]:  # export names are unique in a module
            new += "_%d" % i
        taken.add(new)
        ren[e["name"]] = new
        exports.append(dict(e, name=new))
    desc["exports"] = exports
    calls = [[ren.get(c[0], c[0])] + list(c[1:]) for c in case.get("calls", [])]
    return dict(case, desc=desc, calls=calls, exotic_names=True)


def classify(case, msg):
    h = parse_message(msg)
    if h is None:
        return None
    if fuzz.is_case(case):
        return "C21-KF4" if _kf4_model(fuzz.case_bytes(case), h) else None
    desc = case["desc"]
    step = h.get("step")
    v = case.get("wat", {})
    if step == "c" and v.get("folded") and int(v.get("names", 0)) and v.get("cond_names", True) and "exc" not in h:
        model = _kf3_model(desc, int(v["names"]))
        if model is not None:
            try:
                from ppci.wasm import Module

                wat = R.to_wat(desc, folded=True, style=int(v.get("style", 0)), inline_exports=bool(v.get("inline")), names=int(v["names"]))
                if Module(wat).to_bytes() == R.encode(model):
                    return "C21-KF3"
            except Exception:
                pass
    snan32 = [v for v in _f32_consts(desc) if (v & 0x7F800000) == 0x7F800000 and v & 0x7FFFFF and not v & 0x400000]
    if step == "a" and snan32 and "exc" not in h:
        # model: the only change is the quiet bit of a signalling f32 NaN: ..00 80 7f -> ..00 c0 7f
        exp, got = bytes.fromhex(h.get("exp", "")), bytes.fromhex(h.get("got", ""))
        if len(exp) == len(got) and sum(1 for x, y in zip(exp, got) if x != y) == 1:
            i = _diffpos(exp, got)
            if got[i] == exp[i] | 0x40:
                return "C21-KF1"
    noncanon = [(t, v) for t, v in _nan_consts(desc) if v not in (0x7FC00000, 0x7FF8000000000000)]
    if step in ("b", "c") and noncanon and "exc" not in h and h.get("v8") != "reject":
        # model: a NaN constant lost its sign/payload (became the canonical quiet NaN)
        if step == "c" and snan32 and all((t, v) in [("f32", s) for s in snan32] for t, v in noncanon):
            return "C21-KF1" if "C21-KF2" not in core.open_finding_ids(PID) else "C21-KF2"
        return "C21-KF2"
    return None


def _kf4_model(data, head):
    """C21-KF4: the text writer prints import / export names unescaped.  Signature: the text round trip (step f3) fails, a
    name contains '"', a backslash or a control character (a newline gets the writer's indentation added), and the very
    same module round-trips once those characters are replaced."""
    if head.get("step") != "f3":
        return False
    try:
        from ppci.wasm import Module, components

        m = Module(bytes(data))
        hit = False
        for d in m.definitions:
            for attr in ("modname", "name") if isinstance(d, components.Import) else ("name",) if isinstance(d, components.Export) else ():
                v = getattr(d, attr)
                if isinstance(v, str) and any(ch in '"\\' or ord(ch) < 32 or ord(ch) == 127 for ch in v):
                    setattr(d, attr, "".join("_" if ch in '"\\' or ord(ch) < 32 or ord(ch) == 127 else ch for ch in v))
                    hit = True
        return hit and Module(m.to_string()).to_bytes() == m.to_bytes()
    except Exception:
        return False


def _worker(arg):
    seed, n, open_ids, sizes = arg
    stats = Stats()
    flags, used = flags_for(open_ids)

    found = {}
    t_first = [None]

    def prop(case):
        h = core.jhash(case)
        if t_first[0] is not None and time.time() - t_first[0] > sizes["shrink_s"]:
            return found.get(h)  # shrink budget used up: stop at the smallest failure found so far
        msg = _prop(case)
        if msg is not None and classify(case, msg) not in open_ids:
            found[h] = msg
            if t_first[0] is None:
                t_first[0] = time.time()
        return msg

    def _prop(case):
        msg = check_case(case)
        for kid in used:
            stats.excluded[kid] += 1
        desc = case["desc"]
        feats = G.features(desc)
        nsec = sum(1 for f in feats if f.startswith("sec:")) + (1 if desc.get("exports") else 0)
        nontrivial = G.nesting_with_branch(desc) and nsec >= 2
        sample = None
        if nontrivial and len(stats.samples) < 1:
            sample = {"wat": R.to_wat(desc)[:1500], "calls": case["calls"], "wat_variant": case["wat"], "noncanon": case["noncanon"],
                      "ref_binary_len": len(R.encode(desc))}  # fmt: skip
        classes = ["feat:" + f for f in sorted(feats)] + ["wat:" + ("folded" if case["wat"]["folded"] else "flat"),
                                                        "wat-names:" + ("numeric", "unique", "shadowing")[case["wat"]["names"]]] + (["exotic-export-names"] if case.get("exotic_names") else [])
        stats.case(core.jhash(case), nontrivial, sample, classes=classes)
        return msg

    base = G.cases(flags, max_funcs=sizes["max_funcs"], fuel=sizes["fuel"], depth=sizes["depth"])
    strat = st.builds(
        lambda c, folded, style, inline, names, pad, split, exo: rename_exports(
            dict(c, wat={"folded": folded, "style": style, "inline": inline, "names": names, "cond_names": "C21-KF3" not in open_ids},
                 noncanon={"leb_pad": pad, "split_locals": split}), exo),
        base, st.booleans(), st.integers(0, 2), st.booleans(), st.sampled_from([2, 0, 1, 2]), st.integers(0, 2), st.booleans(),
        st.one_of(st.none(), st.none(), st.lists(EXPORT_NAMES, min_size=1, max_size=6)),
    )  # fmt: skip
    fails = hyp_search(strat, prop, n, seed, stats, classify=lambda c, m: (classify(c, m) if classify(c, m) in open_ids else None),
                       budget_s=sizes["budget_s"])  # fmt: skip
    _close_node()
    return stats, fails


def run(ctx):
    import ppci.wasm  # noqa: F401

    open_ids = core.open_finding_ids(PID) - set(os.environ.get("VERIF_ASSUME_FIXED", "").split(","))  # validation of fixes/*.diff
    sizes = dict(max_funcs=ctx.scale(4, 5), fuel=ctx.scale(40, 60), depth=ctx.scale(5, 6), budget_s=ctx.scale(60, 1500), shrink_s=ctx.scale(30, 240))
    n = ctx.scale(256, 32000)
    if not fuzz.only(ctx):
        ctx.pmap(_worker, [(subseed(ctx.seed, PID, w), n // 16, open_ids, sizes) for w in range(16)])
    if not ctx.quick:
        fuzz_layer(ctx, open_ids)


# ---------------------------------------------------------------------------
# coverage-guided fuzzing of the binary reader (thorough tier only; driver: vf/fuzz.py)

FUZZ_TARGET = "C21.binary"
FUZZ_RUNS = 100000


def v8_valid(data):
    """Does V8 accept the bytes as a WebAssembly module?  None when node cannot be asked."""
    import subprocess
    import tempfile

    try:
        nodebin = N.find_node()
    except N.NodeError:
        return None
    with tempfile.NamedTemporaryFile(prefix="vf-c21-fuzz-", suffix=".wasm") as f:
        f.write(data)
        f.flush()
        js = "process.exit(WebAssembly.validate(require('fs').readFileSync(process.argv[1])) ? 0 : 3)"
        try:
            p = subprocess.run([nodebin, "--no-warnings", "-e", js, f.name], capture_output=True, timeout=120)
        except (OSError, subprocess.TimeoutExpired):
            return None
    return {0: True, 3: False}.get(p.returncode)


def fuzz_binary(data, known_as_label=True):
    """One fuzz input = bytes of a would-be wasm binary.  Returns an outcome label; raises fuzz.Failure on a C21 violation.

    The reader may reject an input with any exception (counted by type).  If it accepts:  w1 = Module(data).to_bytes(),
    w2 = Module(w1).to_bytes() must exist and be equal (idempotence of read-write, demanded for every valid encoding), and
    when to_string() succeeds Module(text).to_bytes() == w1.  C21 quantifies over VALID modules: a discrepancy counts only
    when V8 validates the input (asked on discrepancies only)."""
    import logging

    from ppci.wasm import Module

    logging.disable(logging.CRITICAL)
    try:
        m = Module(bytes(data))
    except (RecursionError, MemoryError) as e:
        return "rejected:resource:" + type(e).__name__
    except Exception as e:
        return "rejected:" + type(e).__name__
    step = detail = bucket = None
    w1 = None
    try:
        w1 = m.to_bytes()
    except (RecursionError, MemoryError) as e:
        return "accepted:resource:" + type(e).__name__
    except Exception as e:
        step, detail, bucket = "f1", "Module(input).to_bytes() raised %s: %s" % (type(e).__name__, e), "to_bytes:" + fuzz.exc_bucket(e)
    if step is None:
        try:
            w2 = Module(w1).to_bytes()
            if w2 != w1:
                step, detail, bucket = "f2", "w(r(w(r(input)))) != w(r(input)); " + _ctx(w1, w2), "not-idempotent"
        except (RecursionError, MemoryError) as e:
            return "accepted:resource:" + type(e).__name__
        except Exception as e:
            step, detail, bucket = "f2", "re-reading ppci's own output raised %s: %s" % (type(e).__name__, e), "reread:" + fuzz.exc_bucket(e)
    label = "accepted:idempotent"
    if step is None:
        try:
            txt = m.to_string()
        except (RecursionError, MemoryError) as e:
            return "accepted:resource:" + type(e).__name__
        except Exception as e:
            txt = None
            label = "accepted:idempotent:to_string raised " + type(e).__name__
        if txt is not None:
            try:
                w3 = Module(txt).to_bytes()
                if w3 != w1:
                    step, detail, bucket = "f3", "Module(Module(input).to_string()).to_bytes() != Module(input).to_bytes(); " + _ctx(w1, w3) + "\n" + txt[:800], "text-round-trip-differs"
                else:
                    label = "accepted:idempotent+text-round-trip"
            except (RecursionError, MemoryError) as e:
                return "accepted:resource:" + type(e).__name__
            except Exception as e:
                step, detail, bucket = "f3", "parsing Module(input).to_string() raised %s: %s\n%s" % (type(e).__name__, e, txt[:800]), "text:" + fuzz.exc_bucket(e)
    if step is None:
        return label
    valid = v8_valid(bytes(data))
    if valid is None:
        return "discrepancy(%s):V8 not available" % bucket
    if not valid:
        return "discrepancy on an input V8 rejects:" + bucket
    msg = "C21 " + json.dumps({"step": step, "fuzz": True}) + "\nstep (%s) on a fuzzed binary that V8 validates: %s\ninput %s" % (
        step, detail, bytes(data).hex()[:1200])  # fmt: skip
    kid = classify(fuzz.case(FUZZ_TARGET, data), msg) if known_as_label else None  # (replay reports; the runner classifies)
    if kid and kid in core.open_finding_ids(PID) - set(os.environ.get("VERIF_ASSUME_FIXED", "").split(",")):
        return "known:" + kid
    raise fuzz.Failure(msg, bucket)


def fuzz_binary_keep(label):
    """corpus distillation between the rounds of a campaign: go on from binaries the reader accepts"""
    return label.startswith(("accepted:", "known:"))


def fuzz_seeds(seed, open_ids=()):
    """reference binaries of ~30 generated modules (+ 10 non-canonical encodings)"""
    flags, _ = flags_for(set(open_ids))
    seeds = []
    for c in fuzz.collect(G.cases(flags, max_funcs=2, fuel=16, depth=3), 80, subseed(seed, PID, "fuzz-seeds")):
        b = R.encode(c["desc"])
        if len(b) <= fuzz.MAX_LEN and b not in seeds:
            seeds.append(b)
        if len(seeds) >= 30:
            break
    # + a non-canonical encoding (padded LEB128s, ungrouped locals) of every third module: byte mutation cannot lengthen a
    # LEB128 in place (the enclosing sizes would have to change too), a padded one gives it room for large values
    for i, c in enumerate(fuzz.collect(G.cases(flags, max_funcs=2, fuel=16, depth=3), 80, subseed(seed, PID, "fuzz-seeds"))[:30:3]):
        b = R.encode(c["desc"], leb_pad=1 + i % 2, split_locals=True)
        if len(b) <= fuzz.MAX_LEN and b not in seeds:
            seeds.append(b)
    return seeds


def fuzz_layer(ctx, open_ids):
    try:
        info = {}
        fails = fuzz.campaign(FUZZ_TARGET, fuzz_binary, fuzz_seeds(ctx.seed, open_ids), fuzz.runs(FUZZ_RUNS), subseed(ctx.seed, PID, "fuzz"),
                              ctx.tmpdir(), info=info)  # fmt: skip
    except ImportError:
        ctx.stats.notes.append("atheris unavailable")
        return
    ctx.extra["fuzz"] = info
    for data, msg in fails:
        ctx.fail(fuzz.case(FUZZ_TARGET, data), msg)
