"""C01 - the C front-end preserves the meaning of defined-behaviour C programs."""

import io
import os
import shutil
import tempfile

from hypothesis import strategies as st

from .. import cc_oracle, gencc, irsem, irsem_selfcheck
from ..core import Discard, Stats, hyp_search, subseed
from ..irpasses import innermost_ppci_frame

PID = "C01"
RULE = (
    "Hypothesis-generated C translation units (vf/gencc.py: all integer types, float/double, globals, arrays, structs, "
    "pointers, if/for/while/do/switch with fall-through, break/continue, calls, external calls, compound assignment, "
    "casts, ?:, && ||) with 2 boundary-biased argument vectors per function. Oracle: the same unit compiled by "
    "gcc -O0 AND clang -O0, both with -fsanitize=undefined,float-cast-overflow (a test is used only when neither reports a "
    "runtime error and both agree) against the "
    "reference interpreter vf/irsem.py executing ppci.api.c_to_ir(src, 'x86_64'): return value, every global scalar / "
    "array element / struct field (read back through generated accessor functions), the caller-supplied buffer and the "
    "sequence of external calls. non-trivial = the function was executed on both sides without discard and the unit "
    "contains a conversion between integer ranks/signedness or control flow; distinct = (source text, test)"
)
ASSUMPTIONS = [
    "x86-64 LP64 type model shared by gcc and ppci's x86_64 target; implementation-defined behaviour as gcc defines it "
    "(two's complement narrowing, arithmetic >> of negative values, plain char signed)",
    "gcc -O0 is a conforming compiler; UBSan reports every undefined operation the generator can produce",
    "units rejected by ppci with a CompilerError (or crashing the front-end: C28's domain) are discarded and counted",
]
TRUSTED = ["CPython", "Hypothesis", "gcc 12 + UBSan", "clang 14 + UBSan", "vf/irsem.py (reference IR interpreter)", "vf/gencc.py"]
REGISTER = True
TECHNIQUE = "differential: gcc -O0 + UBSan execution vs reference IR interpreter on c_to_ir output, Hypothesis-generated C programs"
LEVEL_TEXT = (
    "Exploration with a differential oracle: generated UB-free C programs are executed by a conforming compiler and by an "
    "independent interpreter of the IR the front-end produced; return values, all globals and the external call sequence "
    "must agree for every argument vector. The front-end is a deterministic function of the source, so generated-program "
    "search is the fitting level; no bound is closed."
)

BENIGN_UNDEF = ("recursion depth", "address dependent control flow")  # generated loops are tiny: running out of 200000 steps means the IR does not terminate
_TMP = None


def tmpdir():
    global _TMP
    if _TMP is None or not os.path.isdir(_TMP):
        _TMP = tempfile.mkdtemp(prefix="vf-C01-")
    return _TMP


def compile_ppci(program):
    from ppci.api import c_to_ir
    from ppci.common import CompilerError

    try:
        return c_to_ir(io.StringIO(program["src"]), "x86_64")
    except CompilerError as e:
        raise Discard("ppci rejects: %s" % str(e.msg)[:60])
    except Exception as e:
        raise Discard("front-end crash (C28): %s [%s]" % (type(e).__name__, innermost_ppci_frame(e)))


def run_case(case, stats=None):
    program, tests = case["program"], case["tests"]
    try:
        ref = cc_oracle.run_reference(program, tests, tmpdir(), tag="c%d" % os.getpid(), stats=stats)
    except cc_oracle.GccError as e:
        raise Discard("gcc rejects the unit: " + str(e)[:80])
    m = compile_ppci(program)
    ok = 0
    for tst, r in zip(tests, ref):
        if r is None:
            if stats is not None:
                stats.discard("gcc run: UB reported or crashed")
            continue
        fname = program["funcs"][tst[0]]["name"]
        try:
            got = cc_oracle.run_irsem(m, program, tst, irsem)
        except irsem.Undef as e:
            if e.reason in BENIGN_UNDEF:
                if stats is not None:
                    stats.discard("irsem: " + e.reason)
                continue
            return ("%s%r: the IR execution is undefined (%s) although gcc+UBSan consider the C program defined" % (fname, tst[1], e.reason), ok)
        except irsem.Unsupported as e:
            if stats is not None:
                stats.discard("irsem unsupported: " + e.reason)
            continue
        d = cc_oracle.compare(r, got)
        if d:
            return ("%s%r: %s" % (fname, tst[1], d), ok)
        ok += 1
    return (None, ok)


def replay(case):
    try:
        return run_case(case)[0]
    finally:
        cleanup()


def cleanup():
    global _TMP
    if _TMP:
        shutil.rmtree(_TMP, ignore_errors=True)
        _TMP = None


def classify(case, msg):
    return None


OPTIONS = gencc.Options(effects=12, many_params=8, bare_literals=8)


@st.composite
def case_strategy(draw):
    p = draw(gencc.programs(OPTIONS))
    tests = []
    for fi, f in enumerate(p["funcs"]):
        for v in gencc.arg_vectors(draw, f, 2):
            tests.append([fi, v])
    return {"program": p, "tests": tests}


NT_FEATURES = {"narrowing_cast", "narrowing_assign", "mixed_sign", "mixed_sign_compare", "if", "for", "while", "do_while", "switch", "conditional", "short_circuit"}


def _worker(arg):
    seed, n = arg
    stats = Stats()

    def prop(case):
        msg, ok = run_case(case, stats)
        feats = case["program"]["features"]
        nt = ok > 0 and bool(NT_FEATURES & set(feats))
        stats.case((case["program"]["src"], str(case["tests"])) if nt else None, nt,
                   {"src": case["program"]["src"], "tests": case["tests"][:2]} if nt else None, classes=feats + ["executed_tests:%d" % min(ok, 4)])
        return msg

    try:
        fails = hyp_search(case_strategy(), prop, n, seed, stats, classify=classify, skip_first=1)
    finally:
        cleanup()
    return stats, fails


def run(ctx):
    ctx.extra["irsem_selfcheck"] = irsem_selfcheck.selfcheck("quick")  # the oracle validates itself first (cached)
    n = ctx.scale(128, 32000)
    ctx.pmap(_worker, [(subseed(ctx.seed, PID, w), n // 16) for w in range(16)])
    ctx.extra["excluded_by_option"] = dict(OPTIONS.excluded)
