"""C37 - the C3 front-end computes the values C3 semantics prescribe."""

import contextlib
import io
import os
import re
import shutil
import subprocess
import tempfile
import traceback

from .. import genc3, irsem
from ..core import Discard, HarnessError, Stats, hyp_search, jhash, subseed

PID = "C37"
RULE = (
    "Hypothesis-generated abstract programs (vf/genc3.py: int, byte, bool, int8..uint64, pointers, structs, arrays, "
    "globals, consts, if/while/for/switch, pure and impure calls) rendered as a C3 module and as a C translation unit; "
    "every function with scalar parameters is called on 1-4 boundary-biased argument vectors, each from the initial "
    "globals. Oracle: gcc -O0 execution of the C rendering (return value + final value of every global scalar) against "
    "vf/irsem.observe_call on ppci.api.c3_to_ir(..., 'x86_64') output (return value + global bytes decoded by the C3 "
    "layout). A direct evaluator of the abstract program filters vectors that touch C undefined behaviour (signed "
    "overflow, MIN/-1, ...) and cross-checks the two renderers; a gcc -fsanitize=undefined build discards what it reports. "
    "Undefined behaviour or non-termination of the IR on a vector the evaluator finds defined is a failure. "
    "non-trivial = the program uses a sub-int type in arithmetic or a comparison, or a switch/loop, and at least one "
    "vector was compared; distinct = (program, vectors)"
)
ASSUMPTIONS = [
    "C3 semantics = fixed-width arithmetic of the declared types as computed by the C rendering under gcc 12 -O0 on "
    "x86-64 (two's-complement narrowing casts, arithmetic >> of negative values)",
    "C3 on x86_64: int is 32 bit (arch.info.get_size('int') == 4, checked at run time), bool is stored like int with "
    "values 0/1, structs and arrays are laid out without padding (typechecker.check_type) - used only to decode the "
    "final bytes of global variables",
    "binary operations only between operands of the same C3 type; literals are `int` literals (|v| < 2^31); switch "
    "does not fall through (test/samples/simple/switch_statement.c3 + .out)",
    "vf/irsem.py IR semantics (DESIGN.md 3.1)",
]
TRUSTED = ["CPython", "Hypothesis", "gcc 12 (-O0 and -fsanitize=undefined)", "vf/irsem.py (reference IR interpreter)",
           "vf/genc3.py (generator, C renderer, direct evaluator)"]
REGISTER = False
TECHNIQUE = "differential: gcc execution of a C rendering vs reference IR interpreter on c3_to_ir output, Hypothesis-generated programs"
LEVEL_TEXT = (
    "Exploration with an independent oracle: each generated program is compiled by ppci's C3 front-end and interpreted by "
    "the reference IR interpreter, and compiled as C by gcc and executed; results and final globals must agree on every "
    "defined argument vector. A third evaluator of the abstract program guards the equivalence of the two renderings. "
    "The front-end is a deterministic function of the source text, so generated-input search is the fitting level."
)

MARCH = "x86_64"
# generator shape -> open finding that it avoids
EXCLUSIONS = {}


def profile(quick=True):
    return genc3.Profile(exclude=set(EXCLUSIONS))


# ---------------------------------------------------------------------------
# the two executions


def compile_c3(src):
    """-> (ir module | None, error text)"""
    from ppci.api import c3_to_ir
    from ppci.build.tasks import TaskError
    from ppci.common import CompilerError

    buf = io.StringIO()
    try:
        with contextlib.redirect_stdout(buf):
            return c3_to_ir([io.StringIO(src)], [], MARCH), ""
    except (TaskError, CompilerError) as e:
        msgs = re.findall(r"Error: (.*)|\^ (.*)", buf.getvalue())
        text = "; ".join(sorted({(a or b).strip() for a, b in msgs})) or str(getattr(e, "msg", e))
        return None, text
    except Exception as e:  # an internal error of the front end is C28's subject; here the program is only unusable
        tb = traceback.extract_tb(e.__traceback__)
        frames = [f for f in tb if "ppci" in f.filename]
        where = "%s:%s" % (os.path.basename(frames[-1].filename), frames[-1].name) if frames else "?"
        return None, "internal error %s in %s" % (type(e).__name__, where)


def run_gcc(csrc, tmp, sanitize):
    """-> (stdout, stderr, complete).  Raises HarnessError when gcc rejects the rendering."""
    src = os.path.join(tmp, "p.c")
    exe = os.path.join(tmp, "p.san" if sanitize else "p.exe")
    with open(src, "w") as f:
        f.write(csrc)
    cmd = ["gcc", "-O0", "-w", "-std=gnu11", "-pipe", "-o", exe, src]
    if sanitize:
        cmd[1:1] = ["-fsanitize=undefined", "-fsanitize-recover=all"]
    r = subprocess.run(cmd, capture_output=True, text=True)
    if r.returncode != 0:
        keep = os.path.join(tempfile.gettempdir(), "vf-C37-rejected.c")
        shutil.copy(src, keep)
        raise HarnessError("gcc rejects the C rendering (kept as %s):\n%s" % (keep, r.stderr[:3000]))
    try:
        r = subprocess.run([exe], capture_output=True, text=True, timeout=120)
    except subprocess.TimeoutExpired as e:
        out = e.stdout.decode() if isinstance(e.stdout, bytes) else (e.stdout or "")
        err = e.stderr.decode() if isinstance(e.stderr, bytes) else (e.stderr or "")
        return out, err, False
    return r.stdout, r.stderr, r.returncode == 0


def parse_c_output(out):
    """-> {(tag, k): (ret, [globals])} for the calls whose two lines are both present"""
    rets, globs = {}, {}
    for line in out.splitlines():
        parts = line.split()
        if len(parts) < 3:
            continue
        if parts[0] == "R":
            rets[(int(parts[1]), int(parts[2]))] = None if parts[3] == "void" else int(parts[3])
        elif parts[0] == "G":
            globs[(int(parts[1]), int(parts[2]))] = [int(x) for x in parts[3:]]
    return {k: (rets[k], globs[k]) for k in rets if k in globs}


def ubsan_flagged(err):
    flagged, cur = set(), None
    for line in err.splitlines():
        if line.startswith("@"):
            a, b = line[1:].split()
            cur = (int(a), int(b))
        elif "runtime error" in line and cur is not None:
            flagged.add(cur)
    return flagged


def decode_globals(prog, obs_globals):
    """global bytes of an irsem observation -> leaf values in declaration/layout order, or a problem string"""
    vals = []
    for g in prog["globals"]:
        hx = obs_globals.get("%s_%s" % (genc3.MOD, g["name"]))
        if hx is None:
            return "global %s is missing from the IR module" % g["name"]
        if "?" in hx:
            return "global %s has address dependent contents" % g["name"]
        data = bytes.fromhex(hx)
        lv = genc3.leaves(prog, g["ty"], g["name"])
        if len(data) != sum(genc3.BITS[t] // 8 for _, t in lv):
            return "global %s has %d bytes, its C3 type has %d" % (g["name"], len(data), sum(genc3.BITS[t] // 8 for _, t in lv))
        pos = 0
        for _, t in lv:
            n = genc3.BITS[t] // 8
            vals.append(genc3.norm(t, int.from_bytes(data[pos:pos + n], "little")))
            pos += n
    return vals


def leaf_names(prog):
    out = []
    for g in prog["globals"]:
        out += [p for p, _ in genc3.leaves(prog, g["ty"], g["name"])]
    return out


def fmt_call(name, args):
    return "%s(%s)" % (name, ", ".join(str(a) for a in args))


class Front:
    """One case taken through ppci and the direct evaluator (no gcc yet)."""

    def __init__(self, case, stats=None):
        self.case = case
        prog, calls = case["program"], [(c[0], list(c[1])) for c in case["calls"]]
        self.prog = prog
        if not calls:
            raise Discard("no callable function")
        module, err = compile_c3(genc3.render_c3(prog))
        if module is None:
            raise Discard("c3_to_ir rejects: %s" % re.sub(r"\d+", "N", err)[:80])
        expect = genc3.evaluate(prog, calls)
        self.calls, self.expect, self.ir = [], [], []
        for c, e in zip(calls, expect):
            if isinstance(e, genc3.UB):
                if stats is not None:
                    stats.hist["vector_discarded:" + e.reason] += 1
                continue
            self.calls.append(c)
            self.expect.append(e)
        if not self.calls:
            raise Discard("every vector touches C undefined behaviour")
        for (name, args), (eret, eglob, steps) in zip(self.calls, self.expect):
            try:
                obs = irsem.observe_call(module, "%s_%s" % (genc3.MOD, name), args, ptr_bits=64, fuel=3000 + 150 * steps)
            except irsem.Undef as u:
                self.ir.append(("undef", u.reason))
                continue
            except irsem.Unsupported as u:
                self.ir.append(("unsupported", u.reason))
                if stats is not None:
                    stats.hist["vector_discarded:irsem unsupported " + u.reason] += 1
                continue
            gv = decode_globals(prog, obs["globals"])
            self.ir.append(("problem", gv) if isinstance(gv, str) else ("ok", obs["ret"], gv))

    def verdict(self, reference=None):
        """First difference between the IR results and the reference results (default: the evaluator's).
        reference: list parallel to self.calls of (ret, globals) or None (vector not usable)."""
        names = leaf_names(self.prog)
        compared = 0
        for j, ((name, args), ir) in enumerate(zip(self.calls, self.ir)):
            ref = self.expect[j][:2] if reference is None else reference[j]
            if ref is None or ir[0] == "unsupported":
                continue
            compared += 1
            call = fmt_call(name, args)
            if ir[0] == "undef":
                return "%s: the C rendering is defined (returns %r) but the IR of c3_to_ir is undefined: %s" % (call, ref[0], ir[1]), compared
            if ir[0] == "problem":
                return "%s: %s" % (call, ir[1]), compared
            if ir[1] != ref[0]:
                return "%s: return value: IR of c3_to_ir gives %r, C gives %r" % (call, ir[1], ref[0]), compared
            if ir[2] != ref[1]:
                diffs = ["%s: IR %r, C %r" % (n, a, b) for n, a, b in zip(names, ir[2], ref[1]) if a != b]
                return "%s: final globals differ: %s" % (call, "; ".join(diffs[:6])), compared
        return None, compared


def gcc_results(fronts, tmp, stats=None):
    """Run the C renderings of all fronts in one translation unit (plain build = oracle, UBSan build = filter).
    -> per front a list parallel to front.calls of (ret, globals) | None (UBSan report, evaluator/gcc disagreement,
    or the C program did not get that far)."""
    csrc = genc3.render_c([(f.prog, f.calls) for f in fronts])
    out, _, complete = run_gcc(csrc, tmp, False)
    res = parse_c_output(out)
    _, serr, _ = run_gcc(csrc, tmp, True)
    flagged = ubsan_flagged(serr)
    if not complete and stats is not None:
        stats.notes.append("the C program of a batch did not run to completion")
    refs = []
    for i, f in enumerate(fronts):
        ref = []
        for k, ((name, args), e) in enumerate(zip(f.calls, f.expect)):
            r = res.get((i, k))
            why = None
            if r is None:
                why = "no C result"
            elif (i, k) in flagged:
                why = "ubsan"
                if stats is not None:
                    stats.notes.append("UBSan reports on a vector the evaluator accepts: %s" % fmt_call(name, args))
            elif (r[0], r[1]) != (e[0], e[1]):
                # the two renderings (or the evaluator) disagree: a harness problem, never blamed on ppci
                why = "renderers_disagree"
                if stats is not None:
                    stats.notes.append("evaluator and gcc disagree on %s: %r vs %r" % (fmt_call(name, args), e[:2], r))
            if why:
                if stats is not None:
                    stats.hist["vector_discarded:" + why] += 1
                ref.append(None)
            else:
                ref.append(r)
        refs.append(ref)
    return refs


def run_case(case, tmp, stats=None):
    """Full decision of one case -> (failure message | None, vectors compared)"""
    f = Front(case, stats)
    ref = gcc_results([f], tmp, stats)[0]
    return f.verdict(ref)


def check_target():
    from ppci.api import get_arch

    info = get_arch(MARCH).info
    if info.get_size("int") != 4 or info.get_size("ptr") != 8:
        raise HarnessError("x86_64 int/ptr sizes are not 4/8")


def replay(case):
    tmp = tempfile.mkdtemp(prefix="vf-C37-")
    try:
        return run_case(case, tmp)[0]
    finally:
        shutil.rmtree(tmp, ignore_errors=True)


def classify(case, msg):
    return None


def sample_of(case, compared):
    return {"c3": genc3.render_c3(case["program"]), "calls": case["calls"][:4], "vectors_compared": compared}


BATCH = 80


def _worker(arg):
    seed, n, quick = arg
    stats = Stats()
    tmp = tempfile.mkdtemp(prefix="vf-C37-")
    prof = profile(quick)
    pending = {}

    def prop(case):
        key = jhash([case["program"], case["calls"]])
        if key in pending:
            return None
        front = Front(case, stats)
        msg, compared = front.verdict()
        if msg is None:
            pending[key] = front
        else:
            record(stats, case, key, compared)
        return msg

    try:
        fails = hyp_search(genc3.cases(prof), prop, n, seed, stats, classify=classify)
        # the oracle proper: gcc on the C renderings, many programs per translation unit
        items = list(pending.items())
        for i in range(0, len(items), BATCH):
            chunk = items[i:i + BATCH]
            refs = gcc_results([f for _, f in chunk], tmp, stats)
            for (key, front), ref in zip(chunk, refs):
                msg, compared = front.verdict(ref)
                record(stats, front.case, key, compared)
                if msg is not None:
                    fails.append((front.case, msg))
    finally:
        shutil.rmtree(tmp, ignore_errors=True)
    return stats, fails


def record(stats, case, key, compared):
    for shape, cnt in (case.get("excluded") or {}).items():
        stats.excluded[EXCLUSIONS.get(shape, shape)] += cnt
    fs = genc3.features(case["program"])
    nt = genc3.nontrivial(fs) and compared > 0
    stats.case(key if nt else None, nt, sample_of(case, compared) if nt else None,
               classes=sorted(fs) + ["vectors_compared:%d" % min(compared, 8)])


def run(ctx):
    check_target()
    n = ctx.scale(400, 40000)
    ctx.pmap(_worker, [(subseed(ctx.seed, PID, w), n // 16, ctx.quick) for w in range(16)])
