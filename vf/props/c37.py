"""C37 - the C3 front-end computes the values C3 semantics prescribe."""

import contextlib
import io
import logging
import os
import re
import shutil
import subprocess
import tempfile
import time
import traceback

from .. import c3prog as genc3, irsem
from ..core import Discard, HarnessError, Stats, hyp_search, jhash, open_finding_ids, subseed

PID = "C37"
RULE = (
    "Hypothesis-generated abstract programs (vf/c3prog.py: int, byte, bool, int8..uint64, typedefs, pointers, structs, "
    "arrays incl. nested aggregates, globals with constant initialisers, consts defined by constant expressions, sizeof, "
    "if/while/for/switch, early returns, bounded recursion, pure calls inside expressions, impure calls as statements "
    "and as operands of and/or/not) rendered as a C3 module and as a C translation unit; every function with scalar "
    "parameters is called on 1-4 boundary-biased argument vectors, each from the initial globals. Oracle: gcc -O0 "
    "execution of the C rendering (return value + final value of every global scalar) against vf/irsem.observe_call on "
    "ppci.api.c3_to_ir(..., 'x86_64') output (return value + global bytes decoded by the C3 layout). A direct evaluator "
    "of the abstract program filters vectors that touch C undefined behaviour (signed overflow, MIN/-1, ...) and "
    "cross-checks the two renderers on every vector; a gcc -fsanitize=undefined build discards what it reports. "
    "Undefined behaviour or non-termination of the IR on a vector that gcc and the evaluator find defined, a float in an "
    "integer-typed ir.Const, a non-bytes initial value of an ir.Variable and a module that ppci's own IR verifier refuses "
    "are failures; programs that c3_to_ir rejects with a C3 diagnostic are discards (counted by diagnostic). non-trivial = the program uses a sub-int type in arithmetic or a comparison, "
    "or a switch/loop, and at least one vector was compared with gcc; distinct = (program, vectors)"
)
ASSUMPTIONS = [
    "C3 semantics = fixed-width arithmetic of the declared types as computed by the C rendering under gcc 12 -O0 on "
    "x86-64 (two's-complement narrowing casts, arithmetic >> of negative values); int8_t/int16_t operations wrap "
    "(computed in int and cast back), overflow of int/int64_t is outside the domain",
    "C3 on x86_64: int is 32 bit (arch.info.get_size('int') == 4, checked at run time), bool is stored like int with "
    "values 0/1, structs and arrays are laid out without padding (typechecker.check_type) - used only to decode the "
    "final bytes of global variables",
    "binary operations only between operands of the same C3 type (mixed types through cast<T>, or through the implicit "
    "conversions typechecker.do_coerce inserts at assignments, arguments and returns); literals are `int` literals "
    "(|v| < 2^31); `<<` only on unsigned types; switch does not fall through (test/samples/simple/switch_statement.c3 "
    "+ .out); a constant expression means what the same run-time int expression means",
    "side effects are ordered by C sequence points only: impure calls are whole statements/right-hand sides or operands "
    "of and/or/not; no pointer arithmetic (C3 adds bytes, C adds elements)",
    "vf/irsem.py IR semantics (DESIGN.md 3.1)",
]
TRUSTED = ["CPython", "Hypothesis", "gcc 12 (-O0 and -fsanitize=undefined)", "vf/irsem.py (reference IR interpreter)",
           "vf/c3prog.py (generator, C renderer, direct evaluator)"]
REGISTER = True
TECHNIQUE = "differential: gcc execution of a C rendering vs reference IR interpreter on c3_to_ir output, Hypothesis-generated programs"
LEVEL_TEXT = (
    "Exploration with an independent oracle: each generated program is compiled by ppci's C3 front-end and interpreted by "
    "the reference IR interpreter, and compiled as C by gcc and executed; results and final globals must agree on every "
    "defined argument vector. A third evaluator of the abstract program guards the equivalence of the two renderings. "
    "The front-end is a deterministic function of the source text, so generated-input search is the fitting level."
)

MARCH = "x86_64"
BAD_IR = "BAD_IR"
# generator shape -> open finding that it avoids
EXCLUSIONS = {"const_divmod": "C37-KF1", "global_bool_init": "C37-KF2"}


def profile(quick=True):
    exclude = set(EXCLUSIONS)
    if os.environ.get("VERIF_C37_NO_EXCLUSIONS"):  # used to validate a fix: the shapes of open findings are generated
        exclude = set()
    if quick:
        return genc3.Profile(exclude=exclude)
    return genc3.Profile(max_funcs=5, max_stmts=6, max_vectors=5, exclude=exclude)


# ---------------------------------------------------------------------------
# the two executions


def compile_c3(src):
    """-> (ir module | None, error text).  The text starts with BAD_IR when the program passed the C3 type checker and
    code generator but ppci's own IR verifier rejects the module that the front end built."""
    from ppci.api import c3_to_ir
    from ppci.build.tasks import TaskError
    from ppci.common import CompilerError, IrFormError

    buf = io.StringIO()
    quiet = logging.root.manager.disable
    logging.disable(logging.CRITICAL)  # the diagnostics also go to the log as errors
    try:
        with contextlib.redirect_stdout(buf):
            return c3_to_ir([io.StringIO(src)], [], MARCH), ""
    except (TaskError, CompilerError) as e:
        cause = e.__cause__ if isinstance(e, TaskError) else e
        if isinstance(cause, IrFormError):
            return None, "%s %s" % (BAD_IR, cause.msg)
        msgs = re.findall(r"Error: (.*)|\^ (.*)", buf.getvalue())
        text = "; ".join(sorted({(a or b).strip() for a, b in msgs})) or str(getattr(e, "msg", e))
        return None, text
    except Exception as e:  # an internal error of the front end is C28's subject; here the program is only unusable
        tb = traceback.extract_tb(e.__traceback__)
        frames = [f for f in tb if "ppci" in f.filename]
        where = "%s:%s" % (os.path.basename(frames[-1].filename), frames[-1].name) if frames else "?"
        if frames and os.path.basename(frames[-1].filename) == "verify.py":
            return None, "%s %s: %s" % (BAD_IR, type(e).__name__, e)
        return None, "internal error %s in %s" % (type(e).__name__, where)
    finally:
        logging.disable(quiet)


def run_gcc(csrc, tmp, sanitize):
    """-> (stdout, stderr, complete).  Raises HarnessError when gcc rejects the rendering."""
    src = os.path.join(tmp, "p.c")
    exe = os.path.join(tmp, "p.san" if sanitize else "p.exe")
    with open(src, "w") as f:
        f.write(csrc)
    cmd = ["gcc", "-O0", "-w", "-std=gnu11", "-pipe", "-o", exe, src]
    if sanitize:
        cmd[1:1] = ["-fsanitize=undefined", "-fsanitize-recover=all"]
    for attempt in range(3):
        try:
            r = subprocess.run(cmd, capture_output=True, text=True)
        except OSError:
            continue  # the machine is out of processes/memory: try again, then give the batch up
        if r.returncode == 0:
            break
        if "error:" in r.stderr:
            keep = os.path.join(tempfile.gettempdir(), "vf-C37-rejected.c")
            shutil.copy(src, keep)
            raise HarnessError("gcc rejects the C rendering (kept as %s):\n%s" % (keep, r.stderr[:3000]))
    else:
        return "", "", False  # gcc itself failed (killed, resources): the vectors stay unconfirmed, never a failure
    try:
        r = subprocess.run([exe], capture_output=True, text=True, timeout=300)
    except subprocess.TimeoutExpired as e:
        out = e.stdout.decode() if isinstance(e.stdout, bytes) else (e.stdout or "")
        err = e.stderr.decode() if isinstance(e.stderr, bytes) else (e.stderr or "")
        return out, err, False
    except OSError:
        return "", "", False
    return r.stdout, r.stderr, r.returncode == 0


def parse_c_output(out):
    """-> {(tag, k): (ret, [globals])} for the calls whose two lines are both present"""
    rets, globs = {}, {}
    for line in out.splitlines():
        parts = line.split()
        if len(parts) < 3:
            continue
        if parts[0] == "R":
            rets[(int(parts[1]), int(parts[2]))] = None if parts[3] == "void" else int(parts[3])
        elif parts[0] == "G":
            globs[(int(parts[1]), int(parts[2]))] = [int(x) for x in parts[3:]]
    return {k: (rets[k], globs[k]) for k in rets if k in globs}


def ubsan_flagged(err):
    """-> (calls with a UBSan report, calls the sanitised program started)"""
    flagged, seen, cur = set(), set(), None
    for line in err.splitlines():
        if line.startswith("@"):
            a, b = line[1:].split()
            cur = (int(a), int(b))
            seen.add(cur)
        elif "runtime error" in line and cur is not None:
            flagged.add(cur)
    return flagged, seen


def decode_globals(prog, obs_globals):
    """global bytes of an irsem observation -> leaf values in declaration/layout order, or a problem string"""
    vals = []
    for g in prog["globals"]:
        hx = obs_globals.get("%s_%s" % (genc3.MOD, g["name"]))
        if hx is None:
            return "global %s is missing from the IR module" % g["name"]
        if "?" in hx:
            return "global %s has address dependent contents" % g["name"]
        data = bytes.fromhex(hx)
        lv = genc3.leaves(prog, g["ty"], g["name"])
        if len(data) != sum(genc3.BITS[t] // 8 for _, t in lv):
            return "global %s has %d bytes, its C3 type has %d" % (g["name"], len(data), sum(genc3.BITS[t] // 8 for _, t in lv))
        pos = 0
        for _, t in lv:
            n = genc3.BITS[t] // 8
            vals.append(genc3.norm(t, int.from_bytes(data[pos:pos + n], "little")))
            pos += n
    return vals


def malformed_globals(module):
    """ir.Variable.value is a tuple of bytes / (ptr, name) parts; anything else is not an initial value"""
    from ppci import ir

    for v in module.variables:
        for part in v.value or ():
            if not isinstance(part, bytes) and not (isinstance(part, tuple) and len(part) == 2 and part[0] is ir.ptr):
                return "the IR global %s has the initial value %r instead of bytes" % (v.name, v.value)
    return None


def leaf_names(prog):
    out = []
    for g in prog["globals"]:
        out += [p for p, _ in genc3.leaves(prog, g["ty"], g["name"])]
    return out


def fmt_call(name, args):
    return "%s(%s)" % (name, ", ".join(str(a) for a in args))


class Front:
    """One case taken through ppci and the direct evaluator (no gcc yet)."""

    def __init__(self, case, stats=None):
        self.case = case
        prog, calls = case["program"], [(c[0], list(c[1])) for c in case["calls"]]
        self.prog = prog
        if not calls:
            raise Discard("no callable function")
        module, err = compile_c3(genc3.render_c3(prog))
        if module is None and not err.startswith(BAD_IR):
            raise Discard("c3_to_ir rejects: %s" % re.sub(r"\d+", "N", err)[:80])
        expect = genc3.evaluate(prog, calls)
        self.calls, self.expect, self.ir = [], [], []
        for c, e in zip(calls, expect):
            if isinstance(e, genc3.UB):
                if stats is not None:
                    stats.hist["vector_discarded:" + e.reason] += 1
                continue
            self.calls.append(c)
            self.expect.append(e)
        if not self.calls:
            raise Discard("every vector touches C undefined behaviour")
        if module is None:
            # the program type-checks and was lowered, but the result is not IR: nothing can compute the prescribed values
            bad = "c3_to_ir fails on this program because ppci's IR verifier rejects the IR that the C3 front end generated: " + err[len(BAD_IR) + 1:][:300]
        else:
            bad = malformed_globals(module)
        for (name, args), (eret, eglob, steps) in zip(self.calls, self.expect):
            if bad:
                self.ir.append(("problem", bad))
                continue
            try:
                obs = irsem.observe_call(module, "%s_%s" % (genc3.MOD, name), args, ptr_bits=64, fuel=3000 + 150 * steps)
            except irsem.Undef as u:
                self.ir.append(("undef", u.reason))
                continue
            except irsem.Unsupported as u:
                if u.reason.startswith("non-integer constant"):
                    # not a gap of the interpreter: the front end put a float into an integer-typed ir.Const
                    self.ir.append(("problem", "the IR of c3_to_ir contains a non-integer constant of an integer type (C gives %r)" % (eret,)))
                    continue
                self.ir.append(("unsupported", u.reason))
                if stats is not None:
                    stats.hist["vector_discarded:irsem unsupported " + u.reason] += 1
                continue
            gv = decode_globals(prog, obs["globals"])
            self.ir.append(("problem", gv) if isinstance(gv, str) else ("ok", obs["ret"], gv))

    def verdict(self, reference=None):
        """First difference between the IR results and the reference results (default: the evaluator's).
        reference: list parallel to self.calls of (ret, globals) or None (vector not usable)."""
        names = leaf_names(self.prog)
        compared = 0
        for j, ((name, args), ir) in enumerate(zip(self.calls, self.ir)):
            ref = self.expect[j][:2] if reference is None else reference[j]
            if ref is None or ir[0] == "unsupported":
                continue
            compared += 1
            call = fmt_call(name, args)
            if ir[0] == "undef":
                return "%s: the C rendering is defined (returns %r) but the IR of c3_to_ir is undefined: %s" % (call, ref[0], ir[1]), compared
            if ir[0] == "problem":
                return "%s: %s" % (call, ir[1]), compared
            if ir[1] != ref[0]:
                return "%s: return value: IR of c3_to_ir gives %r, C gives %r" % (call, ir[1], ref[0]), compared
            if ir[2] != ref[1]:
                diffs = ["%s: IR %r, C %r" % (n, a, b) for n, a, b in zip(names, ir[2], ref[1]) if a != b]
                return "%s: final globals differ: %s" % (call, "; ".join(diffs[:6])), compared
        return None, compared


def gcc_results(fronts, tmp, stats=None):
    """Run the C renderings of all fronts in one translation unit (plain build = oracle, UBSan build = filter).
    -> per front a list parallel to front.calls of (ret, globals) | None (UBSan report, evaluator/gcc disagreement,
    or the C program did not get that far)."""
    csrc = genc3.render_c([(f.prog, f.calls) for f in fronts])
    out, _, complete = run_gcc(csrc, tmp, False)
    res = parse_c_output(out)
    _, serr, _ = run_gcc(csrc, tmp, True)
    flagged, sanitised = ubsan_flagged(serr)
    if not complete and stats is not None:
        stats.notes.append("the C program of a batch did not run to completion")
    refs = []
    for i, f in enumerate(fronts):
        ref = []
        for k, ((name, args), e) in enumerate(zip(f.calls, f.expect)):
            r = res.get((i, k))
            why = None
            if r is None or (i, k) not in sanitised:
                why = "no C result"
            elif (i, k) in flagged:
                why = "ubsan"
                if stats is not None:
                    stats.notes.append("UBSan reports on a vector the evaluator accepts: %s" % fmt_call(name, args))
            elif (r[0], r[1]) != (e[0], e[1]):
                # the two renderings (or the evaluator) disagree: a harness problem, never blamed on ppci
                why = "renderers_disagree"
                if stats is not None:
                    stats.notes.append("evaluator and gcc disagree on %s: %r vs %r" % (fmt_call(name, args), e[:2], r))
            if why:
                if stats is not None:
                    stats.hist["vector_discarded:" + why] += 1
                ref.append(None)
            else:
                ref.append(r)
        refs.append(ref)
    return refs


def run_case(case, tmp, stats=None):
    """Full decision of one case -> (failure message | None, vectors compared)"""
    f = Front(case, stats)
    ref = gcc_results([f], tmp, stats)[0]
    return f.verdict(ref)


def check_target():
    from ppci.api import get_arch

    info = get_arch(MARCH).info
    if info.get_size("int") != 4 or info.get_size("ptr") != 8:
        raise HarnessError("x86_64 int/ptr sizes are not 4/8")


def replay(case):
    tmp = tempfile.mkdtemp(prefix="vf-C37-")
    try:
        return run_case(case, tmp)[0]
    finally:
        shutil.rmtree(tmp, ignore_errors=True)


def classify(case, msg):
    """C37-KF1: Context.eval_const folds `/` with operator.truediv and `%` with operator.mod.  Attributed only when
    a constant expression of the program (const definition, case label, global initialiser) uses `/` or `%` and the
    IR behaves on the failing call exactly like the program evaluated with Python-folded constants (a float reaching
    an ir.Const of integer type, or the values that the floor-modulo constants produce)."""
    try:
        prog = case["program"]
        if genc3.bool_global_init(prog):
            # C37-KF2: CodeGenerator.gen_global_ival has no branch for bool and returns None
            names = [g["name"] for g in prog["globals"] if g["ty"] == "bool" and g.get("init") is not None]
            if any(("the IR global %s_%s has the initial value (None,) instead of bytes" % (genc3.MOD, n)) in msg for n in names):
                return "C37-KF2"
        if not genc3.constant_divmod(prog):
            return None
        m = re.match(r"(\w+)\((.*?)\): ", msg)
        if not m:
            return None
        call = (m.group(1), [int(x) for x in m.group(2).split(",") if x.strip()])
        front = Front(case)
        j = front.calls.index(call)
        ir = front.ir[j]
        model = genc3.evaluate(prog, [call], pythonic=True)[0]
        if isinstance(model, genc3.FloatConst):
            ok = ir[0] == "problem" and "non-integer constant" in ir[1]
        elif isinstance(model, genc3.UB):
            ok = False
        else:
            ok = ir[0] == "ok" and (ir[1], ir[2]) == (model[0], model[1])
        return "C37-KF1" if ok else None
    except Exception:
        return None


def sample_of(case, compared):
    return {"c3": genc3.render_c3(case["program"]), "calls": case["calls"][:4], "vectors_compared": compared}


BATCH = 80


def _worker(arg):
    seed, n, quick = arg
    stats = Stats()
    tmp = tempfile.mkdtemp(prefix="vf-C37-")
    prof = profile(quick)
    pending = {}
    state = {"shrinking": False, "t_end": None}
    shrink_budget = 60 if quick else 300  # seconds (DESIGN.md 2.2: collect-then-shrink with a cap)

    def prop(case):
        key = jhash([case["program"], case["calls"]])
        if key in pending:
            return None
        if state["shrinking"] and time.time() > state["t_end"]:
            return None  # shrink budget used up: Hypothesis stops making progress and the smallest case so far is kept
        front = Front(case, None if state["shrinking"] else stats)
        msg, compared = front.verdict()
        if state["shrinking"]:
            return msg  # variants of a failing case: neither counted nor sent to gcc
        if msg is None:
            pending[key] = front
        else:
            record(stats, case, key, compared)
            kid = classify(case, msg)
            if not (kid and kid in open_finding_ids(PID)):
                state["shrinking"] = True  # hyp_search stops generating and shrinks this case
                state["t_end"] = time.time() + shrink_budget
        return msg

    try:
        fails = hyp_search(genc3.cases(prof), prop, n, seed, stats, classify=classify)
        # the oracle proper: gcc on the C renderings, many programs per translation unit
        items = list(pending.items())
        for i in range(0, len(items), BATCH):
            chunk = items[i:i + BATCH]
            refs = gcc_results([f for _, f in chunk], tmp, stats)
            for (key, front), ref in zip(chunk, refs):
                msg, compared = front.verdict(ref)
                record(stats, front.case, key, compared)
                if msg is not None:
                    fails.append((front.case, msg))
    finally:
        shutil.rmtree(tmp, ignore_errors=True)
    return stats, fails


def record(stats, case, key, compared):
    for shape, cnt in (case.get("excluded") or {}).items():
        stats.excluded[EXCLUSIONS.get(shape, shape)] += cnt
    fs = genc3.features(case["program"])
    nt = genc3.nontrivial(fs) and compared > 0
    stats.case(key if nt else None, nt, sample_of(case, compared) if nt else None,
               classes=sorted(fs) + ["vectors_compared:%d" % min(compared, 8)])


def run(ctx):
    check_target()
    n = ctx.scale(560, 40000)
    ctx.pmap(_worker, [(subseed(ctx.seed, PID, w), n // 16, ctx.quick) for w in range(16)])
