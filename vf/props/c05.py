"""C05 - cross-target machine code preserves IR behaviour (x86_64 native; riscv / riscv:rvc through vf/rv32.py; arm (A32) through
vf/arm32.py)."""

import os
import shutil
import tempfile

from hypothesis import strategies as st

from .. import genir, irsem, x86link
from ..core import Discard, HarnessError, Stats, hyp_search, subseed
from ..irpasses import innermost_ppci_frame

PID = "C05"
RULE = (
    "Hypothesis-generated IR modules (vf/genir.py, restricted to the target's value types) x optimisation level "
    "0/1/2/s; every function is compiled with ppci.api.ir_to_object and executed as machine code: x86_64 natively "
    "(relocatable ELF linked by gcc with a generated C driver that calls each function through the System V ABI with "
    "boundary-biased arguments incl. more arguments than registers, prints the result, the bytes of every global and of "
    "the caller buffers and logs external calls), riscv / riscv:rvc in the RV32IMC emulator vf/rv32.py and arm (A32, not "
    "thumb) in the ARMv7-A emulator vf/arm32.py, each when available (arm only when the emulator passes its own self-check; "
    "otherwise the arm part is dropped with a note). Emulated targets: the object is linked by ppci's own linker with the "
    "architecture's own runtime (arm: __sdiv) at fixed addresses, called through ppci's calling convention for the target "
    "(arm: r1..r4, further arguments in the caller's frame, result r0, r5..r11 and sp must come back unchanged, r0..r4/r12 "
    "are scrambled by every external call), externals are emulator hooks with the reference interpreter's deterministic "
    "results. Integer types up to 32 bits on the 32 bit targets (ppci's riscv/arm back ends have no 64 bit integers, arm no "
    "floats). Sixteen shards draw x86_64/riscv/riscv:rvc cases, sixteen more draw arm cases. "
    "Modules use the generator's loop-phi-live-after-the-loop shapes (phi_liveout). A fixed corpus (replays/C05/corpus_* replayed before the search, replays/C05/arm/* evaluated in the pool: "
    "every binary operator, comparison and widening/narrowing cast per integer type with all operands kept live, calls "
    "with 9 mixed-type arguments, per target; arm also: comparisons and '>>' of wrapped 8/16 bit sums, loads of every narrow "
    "type widened, stores next to neighbours, external calls with values live across them, division); "
    "a deterministic sweep puts constants at the edges of the immediate / displacement fields. "
    "Oracle: the reference interpreter vf/irsem.py on the same module, run under three memory layouts (address dependent "
    "and never initialised parts masked; executions undefined in IR terms discarded). Shapes that reach an open finding "
    "are excluded per target (evidence key excluded_shapes). "
    "non-trivial = function has >= 8 instructions and its execution was defined; distinct = (module, level, target, call)"
)
ASSUMPTIONS = [
    "IR semantics of DESIGN.md 3.1; external routines are pure functions of (name, arguments, call index)",
    "modules the code generator rejects or crashes on are C29's subject and are discarded here (counted)",
    "arm: the calling convention is the one ppci's own ArmArch implements (determine_arg_locations / gen_call / gen_prologue), not the AAPCS; "
    "the upper register bits of an 8/16 bit argument or result carry no information (arguments are passed sign/zero extended, results are truncated)",
    "arm:thumb, m68k and mips are NOT covered: no emulator for them exists in this sandbox (vf/arm32.py implements A32 only)",
]
TRUSTED = ["CPython", "Hypothesis", "vf/irsem.py", "vf/genir.py", "gcc/ld (driver and linking)", "host CPU", "vf/rv32.py (validated against llvm-mc and clang-compiled code)",
           "vf/arm32.py (ARMv7-A A32 emulator written from the ARM ARM; its self-check against llvm-mc, clang-compiled C vs native gcc and hand vectors must pass, else arm is not checked)",
           "ppci.binutils.linker + layout (emulated targets are linked by ppci itself; C11/C12 check it)"]
REGISTER = True
TECHNIQUE = "differential: machine code executed natively (x86_64) / in a validated emulator (riscv, arm) vs reference IR interpreter, Hypothesis-generated IR modules"
LEVEL_TEXT = (
    "Exploration with a differential oracle: the code generator's output for generated IR functions is executed (natively on "
    "x86-64, in independently validated emulators for RISC-V and ARM A32) and compared with an independent IR interpreter on return "
    "value, global memory, caller buffers and external calls at every optimisation level. No bound is closed; targets "
    "without an executor in this sandbox are listed as not covered."
)

CTYPE = {"i8": "int8_t", "u8": "uint8_t", "i16": "int16_t", "u16": "uint16_t", "i32": "int32_t", "u32": "uint32_t",
         "i64": "int64_t", "u64": "uint64_t", "f32": "float", "f64": "double", "ptr": "void *"}
PROFILE = genir.target_profile("x86_64", ptr_bits=64, max_params=9, max_funcs=3, rotates=False, phi_liveout=True)  # no back end implements rol/ror
LEVELS = ["0", "1", "2", "s"]
FUEL = 20000

EXT_C = r"""
static uint64_t ext_index;
static uint64_t ext_mix(const char *name, const uint64_t *args, int n) {
  uint64_t h = 0x9E3779B97F4A7C15ULL;
  for (; *name; name++) h = (h ^ (unsigned char)*name) * 0x100000001B3ULL;
  for (int i = 0; i < n; i++) { h = (h ^ args[i]) * 0xFF51AFD7ED558CCDULL; h ^= h >> 33; }
  h = (h ^ ext_index) * 0xC4CEB9FE1A85EC53ULL; h ^= h >> 29;
  ext_index++;
  return h & 0x7f;
}
"""


def c_literal(ty, v):
    if ty in ("f32", "f64"):
        import struct

        bits = struct.unpack("<Q", struct.pack("<d", v))[0]
        return "bits2d(0x%016xULL)" % bits
    if ty in ("i64",):
        return "(int64_t)0x%016xULL" % (v & (2**64 - 1))
    if ty == "u64":
        return "0x%016xULL" % v
    return "(%s)%d" % (CTYPE[ty], v)


def driver_source(desc, calls):
    L = ["#include <stdio.h>", "#include <stdint.h>", "#include <string.h>", "#include <unistd.h>", "#include <sys/wait.h>",
         "static double bits2d(uint64_t b) { double d; memcpy(&d, &b, 8); return d; }",
         "static uint64_t d2bits(double d) { uint64_t b; memcpy(&b, &d, 8); return b; }", EXT_C]
    for e in desc["externals"]:
        ret = CTYPE[e["ret"]] if e["ret"] else "void"
        params = ", ".join("%s a%d" % (CTYPE[t], i) for i, t in enumerate(e["args"])) or "void"
        L.append("%s %s(%s) {" % (ret, e["name"], params))
        L.append("  uint64_t args[%d];" % max(1, len(e["args"])))
        for i, t in enumerate(e["args"]):
            if t in ("f32", "f64"):
                L.append("  args[%d] = d2bits((double)a%d);" % (i, i))
            else:
                L.append("  args[%d] = (uint64_t)(int64_t)a%d;" % (i, i) if t[0] == "i" else "  args[%d] = (uint64_t)a%d;" % (i, i))
        L.append("  if (ext_index > %d) _exit(3);  /* more external calls than a defined execution can make: runaway code */" % FUEL)
        L.append('  printf("E %s");' % e["name"])
        for i in range(len(e["args"])):
            L.append('  printf(" %%llu", (unsigned long long)args[%d]);' % i)
        L.append('  printf("\\n");')
        L.append("  uint64_t r = ext_mix(\"%s\", args, %d);" % (e["name"], len(e["args"])))
        if e["ret"]:
            L.append("  return (%s)r;" % ret)
        L.append("}")
    for g in desc["globals"]:
        L.append("extern unsigned char %s[%d];" % (g["name"], g["size"]))
    for f in desc["functions"]:
        ret = CTYPE[f["ret"]] if f["ret"] else "void"
        L.append("extern %s %s(%s);" % (ret, f["name"], ", ".join(CTYPE[t] for _, t in f["params"]) or "void"))
    L.append("int main(void) {")
    L.append("  static unsigned char buf[8][16] __attribute__((aligned(16)));")
    for i, (fname, args) in enumerate(calls):
        f = [x for x in desc["functions"] if x["name"] == fname][0]
        L.append('  printf("T %d\\n"); fflush(stdout);' % i)
        L.append("  if (fork() == 0) {")
        L.append("    alarm(10);  /* a defined execution runs at most FUEL IR instructions */")
        L.append("    for (int b = 0; b < 8; b++) for (int k = 0; k < 16; k++) buf[b][k] = (unsigned char)(16 + k);")
        cargs = []
        for a, (pn, ty) in zip(args, f["params"]):
            if isinstance(a, list):
                cargs.append("(void *)buf[%d]" % a[1])
            else:
                cargs.append(c_literal(ty, genir.unfhex(a) if isinstance(a, str) else a))
        call = "%s(%s)" % (fname, ", ".join(cargs))
        if f["ret"] is None:
            L.append("    %s; printf(\"R void\\n\");" % call)
        elif f["ret"] in ("f32", "f64"):
            L.append('    { double r = (double)%s; printf("R f %%llu\\n", (unsigned long long)d2bits(r)); }' % call)
        elif f["ret"][0] == "i":
            L.append('    { int64_t r = (int64_t)%s; printf("R i %%lld\\n", (long long)r); }' % call)
        else:
            L.append('    { uint64_t r = (uint64_t)%s; printf("R i %%llu\\n", (unsigned long long)r); }' % call)
        for g in desc["globals"]:
            L.append('    printf("G %s "); for (int k = 0; k < %d; k++) printf("%%02x", %s[k]); printf("\\n");' % (g["name"], g["size"], g["name"]))
        nb = genir.nbufs(f)
        for b in range(nb):
            L.append('    printf("B %d "); for (int k = 0; k < 16; k++) printf("%%02x", buf[%d][k]); printf("\\n");' % (b, b))
        L.append('    printf("D\\n"); fflush(stdout); _exit(0); }')
        L.append("  { int st; wait(&st); }")
    L.append("  return 0;\n}")
    return "\n".join(L) + "\n"


def parse_output(text, ncalls):
    res = [None] * ncalls
    cur = None
    for line in text.splitlines():
        if line.startswith("T "):
            cur = {"ret": None, "globals": {}, "buffers": [], "trace": [], "done": False}
            res[int(line[2:])] = cur
        elif cur is None:
            continue
        elif line.startswith("R "):
            p = line.split()
            if p[1] == "void":
                cur["ret"] = None
            elif p[1] == "f":
                b = int(p[2])
                cur["ret"] = "nan" if ((b >> 52) & 0x7FF) == 0x7FF and (b & ((1 << 52) - 1)) else "f:%016x" % b
            else:
                cur["ret"] = int(p[2])
        elif line.startswith("G "):
            p = line.split()
            cur["globals"][p[1]] = p[2] if len(p) > 2 else ""
        elif line.startswith("B "):
            cur["buffers"].append(line.split()[2])
        elif line.startswith("E "):
            p = line.split()
            cur["trace"].append([p[1], [int(x) for x in p[2:]]])
        elif line.startswith("D"):
            cur["done"] = True
    return res


_TMP = None


def tmpdir():
    global _TMP
    if _TMP is None or not os.path.isdir(_TMP):
        _TMP = tempfile.mkdtemp(prefix="vf-C05-")
    return _TMP


def cleanup():
    global _TMP
    if _TMP:
        shutil.rmtree(_TMP, ignore_errors=True)
        _TMP = None


class _ThirdLayout(irsem.Machine):
    """A third memory layout for irsem's address-independence test.

    irsem.observe_call runs a call under two layouts and masks what differs.  Its two layouts agree in some bytes of every
    address (bits 16..23 of a global's address are 0 in both, as are bits 32..63), so a narrow load of such a byte of a
    stored pointer looked address independent although the byte differs in the machine that executes the code (found with
    riscv: 'i8 load gref+2' is 0x00 in both layouts, 0x40 in the emulator's data segment).  In this layout every byte of
    every address differs from the first two.
    """

    def _layout_globals(self):
        hi = 0x5A3C_0000_0000 if self.ptr_bits == 64 else 0
        self.g_next, self.g_gap, self.g_skew = hi + 0xA5C3_6900, 640, 1
        self.s_next, self.s_gap = hi + 0x7B4D_2E00, 96
        self.f_next, self.b_next, self.l_next = hi + 0x19E7_8300, hi + 0xC6A1_D500, hi + 0xE25F_4B00
        super()._layout_globals()

    def observe(self, ret):
        """irsem's memcpy carries the 'never initialised' flag of the source bytes into globals and caller buffers, but
        its observation prints such bytes as 00; the machine has whatever the stack held.  Here they are masked (found on
        x86_64: 'memcpy(g0, <uninitialised alloca>, 2)' gave 7f.. natively)."""
        obs = super().observe(ret)

        def mask(h, obj):
            return "".join(h[2 * i : 2 * i + 2] if obj.init[i] else "??" for i in range(obj.size))

        for name, obj in self.globals.items():
            obs["globals"][name] = mask(obs["globals"][name], obj)
        obs["buffers"] = [mask(h, o) for h, o in zip(obs["buffers"], self.buffers)]
        return obs


def observe3(m, fname, args, ptr_bits, fuel, buffers):
    """irsem.observe_call + a third layout (see _ThirdLayout); same result shape."""
    obs = irsem.observe_call(m, fname, args, ptr_bits=ptr_bits, fuel=fuel, buffers=buffers)
    m3 = _ThirdLayout(m, ptr_bits, True, 1, fuel, None)
    addrs = [m3.new_buffer(bytes(b)) for b in buffers]
    conv = [addrs[a[1]] if isinstance(a, (tuple, list)) and len(a) == 2 and a[0] == "buf" else a for a in args]
    third = m3.observe(m3.call(fname, conv))
    return irsem.merge_layouts(obs, third)


UNORDERED_FLAGS = {"==": True, "!=": False, "<": True, "<=": True, ">": False, ">=": False}  # x86 ucomis + jcc on a NaN operand


class _WatchCompare:
    """Wraps irsem.compare while a reference execution runs: notes comparisons with a NaN operand and, with a `model`,
    answers them as the model says (irsem.py itself is unchanged; its interpreter looks `compare` up in its module)."""

    def __init__(self, model=None):
        self.model, self.nan_seen = model, False

    def __enter__(self):
        self.orig = irsem.compare

        def compare(cond, a, b):
            if (isinstance(a, float) and a != a) or (isinstance(b, float) and b != b):
                self.nan_seen = True
                if self.model is not None:
                    return self.model[cond]
            return self.orig(cond, a, b)

        irsem.compare = compare
        return self

    def __exit__(self, *exc):
        irsem.compare = self.orig
        return False


def reference(desc, calls, stats=None, target=None, nan_model=None):
    """irsem observation per call (None = discarded)."""
    m = genir.build(desc)
    byname = {f["name"]: f for f in desc["functions"]}
    out = []
    for fname, args in calls:
        f = byname[fname]
        bufs = [bytes(range(16, 32))] * genir.nbufs(f)
        try:
            with _WatchCompare(nan_model) as watch:
                obs = observe3(m, fname, genir.decode_args(args), desc["ptr_bits"], FUEL, bufs)
            if watch.nan_seen and target is not None and "C05-KF6" in active_findings(target):
                # open finding: the execution compares a NaN (exclusion at run time: NaN arises from arithmetic)
                if stats is not None:
                    stats.excluded["C05-KF6"] += 1
                out.append(None)
                continue
        except irsem.Undef as e:
            if stats is not None:
                stats.discard("irsem undefined: " + e.reason)
            out.append(None)
            continue
        except irsem.Unsupported as e:
            if stats is not None:
                stats.discard("irsem unsupported: " + e.reason)
            out.append(None)
            continue
        out.append(obs)
    return out


def native_obs(ref, got, desc, f):
    """Bring the native record into irsem's observation shape."""
    tr = []
    for name, args in got["trace"]:
        e = [x for x in desc["externals"] if x["name"] == name][0]
        conv = []
        for a, t in zip(args, e["args"]):
            if t in ("f32", "f64"):
                conv.append("f:%016x" % a)
            elif t[0] == "i":
                conv.append(irsem.norm_int(a, 64, True))
            else:
                conv.append(a)
        tr.append([name, conv])
    ret = got["ret"]
    if f["ret"] and f["ret"] not in ("f32", "f64") and isinstance(ret, int):
        bits = genir.BITS[f["ret"]]
        ret = irsem.norm_int(ret, bits, f["ret"][0] == "i")
    return {"ret": ret, "globals": got["globals"], "buffers": got["buffers"], "trace": tr}


def run_x86(desc, calls, level, refs, tag):
    """Returns failure message or None; raises Discard when the module does not compile."""
    from ppci.api import ir_to_object, optimize

    m = genir.build(desc)
    try:
        optimize(m, level=level)
        obj = ir_to_object([m], x86link.get_arch())
    except Exception as e:
        raise Discard("code generation fails (C29): %s [%s]" % (type(e).__name__, innermost_ppci_frame(e)))
    # executions that are undefined in IR terms (e.g. a loop the interpreter gave up on) are not run natively
    live = [(c, r) for c, r in zip(calls, refs) if r is not None]
    calls, refs = [c for c, _ in live], [r for _, r in live]
    wd = os.path.join(tmpdir(), tag)
    try:
        exe = x86link.build(wd, {"m.o": obj}, {"drv.c": driver_source(desc, calls)})
    except x86link.ToolError as e:
        return "-O%s: gcc/ld cannot link ppci's object with the driver: %s" % (level, str(e)[:300])
    try:
        for attempt in range(2):
            res = x86link.run_exe(exe, timeout=30)
            out = res.stdout if isinstance(res.stdout, str) else res.stdout.decode("ascii", "replace")
            recs = parse_output(out, len(calls))
            msg = None
            byname = {f["name"]: f for f in desc["functions"]}
            for (fname, args), ref, rec in zip(calls, refs, recs):
                if ref is None:
                    continue
                if rec is None or not rec["done"]:
                    msg = "-O%s %s%r: native execution crashed or did not finish (%s); IR interpreter returns %r" % (level, fname, args, res.status, ref["ret"])
                    break
                d = irsem.obs_equal(ref, native_obs(ref, rec, desc, byname[fname]))
                if d:
                    msg = "-O%s %s%r: x86_64 machine code vs IR semantics: %s" % (level, fname, args, d)
                    break
            if msg is None:
                return None
        return msg
    finally:
        shutil.rmtree(wd, ignore_errors=True)


def run_case(case, stats=None, exclude=False):
    """exclude=True (the search): executions that reach an open finding's run-time exclusion are not evaluated"""
    desc, calls = case["module"], case["calls"]
    if case.get("target") == "arm" and not arm_available():
        raise Discard("arm: the emulator vf/arm32.py did not pass its self-check")
    refs = reference(desc, calls, stats, target=case.get("target", "x86_64") if exclude else None)
    defined = sum(1 for r in refs if r is not None)
    if not defined:
        raise Discard("no defined execution")
    target = case.get("target", "x86_64")
    ran = 0
    for level in case.get("levels", LEVELS):
        if target == "x86_64":
            msg = run_x86(desc, calls, level, refs, "x%s" % level)
        elif target == "arm":
            msg = run_arm(desc, calls, level, refs, stats)
        else:
            msg = run_riscv(desc, calls, level, refs, target)
        if msg:
            return (msg, defined, ran)
        ran += 1
    return (None, defined, ran)


def run_riscv(desc, calls, level, refs, target):
    """riscv / riscv:rvc through the emulator vf/rv32.py (helper vf/props/c05_riscv.py)."""
    from . import c05_riscv

    rvc = target == "riscv:rvc"
    m = genir.build(desc)
    try:
        prog = c05_riscv.compile_ir(m, rvc, level)
    except c05_riscv.CompileError as e:
        raise Discard("code generation fails (C29): %s" % str(e)[:80])
    except c05_riscv.Unsupported as e:
        raise Discard("riscv glue: %s" % str(e)[:60])
    byname = {f["name"]: f for f in desc["functions"]}
    for (fname, args), ref in zip(calls, refs):
        if ref is None:
            continue
        f = byname[fname]
        bufs = [bytes(range(16, 32))] * genir.nbufs(f)
        a = genir.decode_args(args)
        try:
            got = prog.run(fname, a, buffers=bufs)
        except c05_riscv.Unsupported:
            continue
        except c05_riscv.ExecError as e:
            return "-O%s %s%r on %s: emulated execution stopped (%s: %s); IR interpreter returns %r" % (level, fname, args, target, e.kind, str(e)[:120], ref["ret"])
        d = irsem.obs_equal(ref, got)
        if d:
            return "-O%s %s%r: %s machine code vs IR semantics: %s" % (level, fname, args, target, d)
    return None


def run_arm(desc, calls, level, refs, stats=None):
    """arm (A32) through the emulator vf/arm32.py (helper vf/props/c05_arm.py)."""
    from . import c05_arm

    m = genir.build(desc)
    try:
        prog = c05_arm.compile_ir(m, level)
    except c05_arm.CompileError as e:
        if e.missing:
            return "-O%s: arm machine code cannot be linked: it calls the runtime routine %s; ArmArch.get_runtime() and the rest of ppci define no such routine" % (level, e.missing)
        raise Discard("code generation fails (C29): %s" % str(e)[:80])
    except c05_arm.Unsupported as e:
        raise Discard("arm glue: %s" % str(e)[:60])
    byname = {f["name"]: f for f in desc["functions"]}
    for (fname, args), ref in zip(calls, refs):
        if ref is None:
            continue
        f = byname[fname]
        bufs = [bytes(range(16, 32))] * genir.nbufs(f)
        a = genir.decode_args(args)
        try:
            got = prog.run(fname, a, buffers=bufs)
        except c05_arm.Unsupported:
            continue
        except c05_arm.ExecError as e:
            if e.kind == "unsupported":
                # a valid encoding outside the emulator (VFP, exclusive access, ...): nothing is known, nothing is claimed
                if stats is not None:
                    stats.discard("arm: instruction outside the emulator")
                continue
            return "-O%s %s%r on arm: emulated execution stopped (%s: %s); IR interpreter returns %r" % (level, fname, args, e.kind, str(e)[:120], ref["ret"])
        d = irsem.obs_equal(ref, got)
        if d:
            return "-O%s %s%r: arm machine code vs IR semantics: %s" % (level, fname, args, d)
    return None


def replay(case):
    try:
        return run_case(case)[0]
    finally:
        cleanup()


# ---------------------------------------------------------------------------
# Open findings: exclusion by construction (forbidden entries of the target's profile) + narrow classification.
# A failure is attributed to an open finding only if (1) the module contains the triggering shape on an affected target
# and (2) the same case HOLDS after the shape is rewritten into an equivalent IR shape that does not reach the defective
# tree pattern (the model of the wrong output: "the difference disappears exactly when the defective pattern is avoided").
# Exclusions lift automatically when a finding is no longer open; VERIF_C05_LIFT=id,id|all lifts them by hand (used to
# validate fix patches through tools/withpatch.sh, where known_findings.json still lists the finding as open).

RV = ("riscv", "riscv:rvc")


def _rw_widen(ins, ty):
    """ty binop computed in u32 on explicitly zero extended operands"""
    n, a, op, b = ins[1], ins[3], ins[4], ins[5]
    return [["cast", n + "_xa", "u32", a], ["cast", n + "_xb", "u32", b], ["binop", n + "_xr", "u32", n + "_xa", op, n + "_xb"], ["cast", n, ty, n + "_xr"]]


def _kf1_shape(ins):
    return ins[0] == "binop" and ((ins[2] in ("u8", "u16") and ins[4] == ">>") or (ins[2] == "u16" and ins[4] in ("/", "%")))


def _kf2_shape(ins):
    return ins[0] == "unop"


def _kf2_rewrite(ins):
    n, ty, op, a = ins[1], ins[2], ins[3], ins[4]
    if op == "-":
        return [["const", n + "_z", ty, 0], ["binop", n, ty, n + "_z", "-", a]]
    ones = -1 if genir.is_signed(ty) else genir.int_range(ty)[1]
    return [["const", n + "_m", ty, ones], ["binop", n, ty, a, "^", n + "_m"]]


def _kf3_shape_block(b):
    seen = {}
    for ins in b["ins"]:
        if ins[0] == "const" and genir.is_float(ins[2]) and genir.unfhex(ins[3]) == 0.0:
            if seen.setdefault(ins[2], ins[3]) != ins[3]:
                return True
    return False


def _kf3_model(desc):
    """what the -O1+ pipeline makes of the module: CSE replaces a float zero constant by an earlier one of the other sign"""
    import copy

    d = copy.deepcopy(desc)
    for f in d["functions"]:
        genir.unify_zero_signs(f)
    return d


def _kf4_shape(desc):
    """a 4 byte access directly at an alloca that may sit at a frame offset that is not a multiple of 4"""
    for f in desc["functions"]:
        loose = {i[1] for b in f["blocks"] for i in b["ins"] if i[0] == "alloc" and i[2] >= 4 and i[3] < 4}
        ptrs = {i[1] for b in f["blocks"] for i in b["ins"] if i[0] == "addr" and i[2] in loose}
        for b in f["blocks"]:
            for i in b["ins"]:
                if (i[0] == "load" and i[2] in ("i32", "u32", "ptr") and i[3] in ptrs) or (i[0] == "store" and i[2] in ptrs):
                    return True
    return False


def _kf4_rewrite(desc):
    for f in desc["functions"]:
        for b in f["blocks"]:
            for i in b["ins"]:
                if i[0] == "alloc" and i[2] >= 4 and i[3] < 4:
                    i[3] = 4
    return desc


def _value_types(f):
    ty = {pn: pt for pn, pt in f["params"]}
    for b in f["blocks"]:
        for i in b["ins"]:
            if i[0] in ("const", "binop", "unop", "cast", "load", "phi", "undef") or (i[0] == "call" and i[1]):
                ty[i[1]] = i[2]
    return ty


def _narrowing_casts(f):
    ty = _value_types(f)
    for b in f["blocks"]:
        for k, i in enumerate(b["ins"]):
            s = ty.get(i[3]) if i[0] == "cast" else None
            if s in genir.BITS and i[2] in genir.BITS and not genir.is_float(s) and not genir.is_float(i[2]) and genir.BITS[i[2]] < genir.BITS[s]:
                yield b, k, i, s


def _kf5_shape(desc):
    return any(True for f in desc["functions"] for _ in _narrowing_casts(f))


def _kf5_rewrite(desc):
    """narrow = cast wide  ->  narrow = cast (wide | 0): the narrow value gets a register of its own"""
    for f in desc["functions"]:
        for b, k, i, s in reversed(list(_narrowing_casts(f))):
            n = i[1]
            b["ins"][k : k + 1] = [["const", n + "_kz", s, 0], ["binop", n + "_ko", s, i[3], "|", n + "_kz"], ["cast", n, i[2], n + "_ko"]]
    return desc


# -- arm (A32) ---------------------------------------------------------------------------------------------------------
NARROW = ("i8", "u8", "i16", "u16")
ARM = ("arm",)


def _kf7_consumers(f):
    """(block, index, instruction, operand positions) of every instruction that looks at the upper register bits of an 8/16
    bit operand: comparisons, '>>' and widening casts"""
    ty = _value_types(f)
    for b in f["blocks"]:
        for k, i in enumerate(b["ins"]):
            if i[0] == "cjmp" and ty.get(i[1], ty.get(i[3])) in NARROW:
                yield b, k, i, (1, 3)
            elif i[0] == "binop" and i[2] in NARROW and i[4] == ">>":
                yield b, k, i, (3,)
            elif i[0] == "cast" and ty.get(i[3]) in NARROW and i[2] in genir.BITS and genir.BITS[i[2]] > genir.BITS[ty[i[3]]]:
                yield b, k, i, (3,)


def _kf7_shape(desc):
    return any(True for f in desc["functions"] for _ in _kf7_consumers(f))


def _kf7_rewrite(desc):
    """every such operand goes through memory first (volatile store + load of its own type: ldrsb / ldrb / ldrsh / ldrh leave
    the register sign / zero extended, which is the form the unrepaired patterns silently assume)"""
    for f in desc["functions"]:
        ty = _value_types(f)
        n = 0
        for b, k, i, positions in reversed(list(_kf7_consumers(f))):
            pre = []
            for pos in positions:
                t = ty.get(i[pos])
                if t not in NARROW:
                    continue
                size = genir.BITS[t] // 8
                base = "%s_kc%d" % (f["name"], n)
                n += 1
                pre += [["alloc", base + "s", size, size], ["addr", base + "p", base + "s"], ["store", i[pos], base + "p", True], ["load", base, t, base + "p", True]]
                i[pos] = base
            b["ins"][k:k] = pre
    return desc


def _kf8_shape(ins):
    return ins[0] == "binop" and ((ins[2] == "i32" and ins[4] in ("/", "%")) or (ins[2] == "u32" and ins[4] == "/"))


def _kf8_model(desc):
    """what ppci's __sdiv computes: the UNSIGNED quotient of the two bit patterns (and a - q * b as remainder)"""
    import copy

    d = copy.deepcopy(desc)
    for f in d["functions"]:
        for b in f["blocks"]:
            out = []
            for ins in b["ins"]:
                if ins[0] == "binop" and ins[2] == "i32" and ins[4] in ("/", "%"):
                    n = ins[1]
                    out += [["cast", n + "_ua", "u32", ins[3]], ["cast", n + "_ub", "u32", ins[5]], ["binop", n + "_uq", "u32", n + "_ua", ins[4], n + "_ub"], ["cast", n, "i32", n + "_uq"]]
                else:
                    out.append(ins)
            b["ins"] = out
    return d


def _kf10_shape(desc):
    return any(len(f["params"]) > 4 for f in desc["functions"]) or any(len(e["args"]) > 4 for e in desc["externals"])


def _kf10_split(f):
    """parameters of f that stay in r1..r4 (pointers first: a buffer address is not known when the module is built) and
    those that move into globals"""
    idx = sorted(range(len(f["params"])), key=lambda k: f["params"][k][1] != "ptr")
    keep = sorted(idx[:4])
    return keep, [k for k in range(len(f["params"])) if k not in keep]


def _kf10_rewrite_call(desc, call):
    """The module in which no subroutine has more than four parameters: the others travel in fresh globals that the caller
    stores before the call and the callee loads first thing (semantically the same program), and the matching harness
    call (its moved arguments become the initial values of those globals).  None when this cannot be expressed."""
    import copy

    d = copy.deepcopy(desc)
    if any(len(e["args"]) > 4 for e in d["externals"]):
        return None
    split = {}
    for f in d["functions"]:
        if len(f["params"]) > 4:
            keep, move = _kf10_split(f)
            if any(f["params"][k][1] == "ptr" for k in move):
                return None
            split[f["name"]] = (keep, move, list(f["params"]))
    if not split:
        return None
    fname, args = call
    newglobals = {}
    for f in d["functions"]:
        if f["name"] in split:
            keep, move, params = split[f["name"]]
            loads = []
            for k in move:
                pn, ty = params[k]
                g = "gs_%s_%d" % (f["name"], k)
                size = genir.size_of(ty, d["ptr_bits"])
                v = args[k] if f["name"] == fname else 0
                if not isinstance(v, int):
                    return None
                newglobals[g] = {"name": g, "size": size, "align": size, "init": [(v & ((1 << (8 * size)) - 1)).to_bytes(size, "little").hex()]}
                loads.append(["load", pn, ty, g, False])
            f["params"] = [params[k] for k in keep]
            f["blocks"][(f.get("layout") or [0])[0]]["ins"][0:0] = loads  # the entry block (it has no phis)
        for b in f["blocks"]:
            out = []
            for ins in b["ins"]:
                if ins[0] == "call" and len(ins[4]) > 4:
                    if ins[3] not in split:
                        return None  # indirect call with stack arguments
                    keep, move, params = split[ins[3]]
                    for k in move:
                        out.append(["store", ins[4][k], "gs_%s_%d" % (ins[3], k), False])
                    ins = ins[:4] + [[ins[4][k] for k in keep]]
                out.append(ins)
            b["ins"] = out
    d["globals"] = d["globals"] + [newglobals[k] for k in sorted(newglobals)]
    if fname in split:
        call = [fname, [args[k] for k in split[fname][0]]]
    return d, call


def _kf11_accesses(f):
    """(block, index, instruction, operand position) of the 8/16 bit accesses that use ldrsb / ldrh / ldrsh / strh (8 bit split
    immediate) directly at the address of an alloca"""
    ty = _value_types(f)
    direct = {i[1] for b in f["blocks"] for i in b["ins"] if i[0] == "addr"}
    for b in f["blocks"]:
        for k, i in enumerate(b["ins"]):
            if i[0] == "load" and i[2] in ("i8", "i16", "u16") and i[3] in direct:
                yield b, k, i, 3
            elif i[0] == "store" and ty.get(i[1]) in ("i16", "u16") and i[2] in direct:
                yield b, k, i, 2


def _kf11_frame(f):
    """bytes of the frame taken by the allocas of f (they get the fp offsets next to fp in order of appearance)"""
    n = 0
    for b in f["blocks"]:
        for i in b["ins"]:
            if i[0] == "alloc":
                n = -(-(n + i[2]) // max(i[3], 1)) * max(i[3], 1)
    return n


def _kf11_shape(desc):
    return any(_kf11_frame(f) > 255 and any(True for _ in _kf11_accesses(f)) for f in desc["functions"])


def _kf11_rewrite(desc):
    """the address of such an access goes through a volatile stack slot first, so that it is a plain register and not a
    frame pointer + offset operand"""
    for f in desc["functions"]:
        n = 0
        for b, k, i, pos in reversed(list(_kf11_accesses(f))):
            base = "%s_ka%d" % (f["name"], n)
            n += 1
            b["ins"][k:k] = [["alloc", base + "s", 4, 4], ["addr", base + "p", base + "s"], ["store", i[pos], base + "p", True], ["load", base, "ptr", base + "p", True]]
            i[pos] = base
    return desc


FINDINGS = {
    # riscv: SHRU8/SHRU16/DIVU16/REMU16 work on the whole register although the upper bits of a narrow value are undefined
    "C05-KF1": {"targets": RV, "shape": _kf1_shape, "rewrite": lambda ins: _rw_widen(ins, ins[2]),
                "forbid": [("binop", "u8", ">>"), ("binop", "u16", ">>"), ("binop", "u16", "/"), ("binop", "u16", "%")]},
    # riscv: NEG/INV patterns negate / invert the operand's register in place
    "C05-KF2": {"targets": RV, "shape": _kf2_shape, "rewrite": _kf2_rewrite,
                "forbid": [("unop", t, o) for t in ("i8", "u8", "i16", "u16", "i32", "u32") for o in ("-", "~")]},
    # optimiser (every target, -O1 and higher): CSE merges the constants 0.0 and -0.0 of a block
    "C05-KF3": {"targets": ("x86_64",), "module_shape": lambda d: any(_kf3_shape_block(b) for f in d["functions"] for b in f["blocks"]),
                "model": _kf3_model, "forbid": [], "profile_kw": {"mixed_zero_signs": False}},
    # riscv:rvc: lw/sw at a frame offset that is not a multiple of 4 becomes c.lw/c.sw/c.lwsp/c.swsp, which encode offset/4
    "C05-KF4": {"targets": ("riscv:rvc",), "module_shape": _kf4_shape, "module_rewrite": _kf4_rewrite, "forbid": [],
                "profile_kw": {"word_aligned_allocas": True}},
    # riscv: widening casts and signed narrow '>>' extend the operand's register in place; a narrowing cast is a no-op that
    # shares the register of the wider value, which is destroyed for its later uses
    # x86_64: float comparisons use ucomis + jb/jbe/je/...: with a NaN operand ==, < and <= are taken, != is not
    # (root cause shared with C22-KF5); the exclusion is dynamic: executions that compare a NaN are not evaluated
    "C05-KF6": {"targets": ("x86_64",), "module_shape": lambda d: any(i[0] == "cjmp" for f in d["functions"] for b in f["blocks"] for i in b["ins"]),
                "model": lambda d: d, "nan_model": UNORDERED_FLAGS, "forbid": []},
    "C05-KF5": {"targets": RV, "module_shape": _kf5_shape, "module_rewrite": _kf5_rewrite,
                "forbid": [("cast", s_, d_) for s_ in ("i16", "u16", "i32", "u32") for d_ in ("i8", "u8", "i16", "u16") if genir.BITS[d_] < genir.BITS[s_]]},
    # arm: comparisons, '>>' and widening casts of 8/16 bit values use the whole register although narrow arithmetic and
    # narrowing casts leave its upper bits stale (and 8 bit add/sub zero extend signed results)
    "C05-KF7": {"targets": ARM, "module_shape": _kf7_shape, "module_rewrite": _kf7_rewrite,
                "forbid": [("cjmp", t, "*") for t in NARROW] + [("binop", t, ">>") for t in NARROW]
                + [("cast", s_, d_) for s_ in NARROW for d_ in ("i8", "u8", "i16", "u16", "i32", "u32") if genir.BITS[d_] > genir.BITS[s_]]},
    # arm: i32 '/' and '%' call __sdiv, which divides UNSIGNED; u32 '/' calls __udiv, which exists nowhere (link error)
    "C05-KF8": {"targets": ARM, "shape": _kf8_shape, "model": _kf8_model, "missing": "__udiv",
                "forbid": [("binop", "i32", "/"), ("binop", "i32", "%"), ("binop", "u32", "/")]},
    # arm: '~' calls __inv32, which exists nowhere (link error)
    "C05-KF9": {"targets": ARM, "shape": lambda ins: ins[0] == "unop" and ins[3] == "~", "missing": "__inv32",
                "forbid": [("unop", "i32", "~"), ("unop", "u32", "~")]},
    # arm: the fifth and further arguments: the caller stores them 8 bytes too high, the callee never loads them
    "C05-KF10": {"targets": ARM, "module_shape": _kf10_shape, "call_rewrite": _kf10_rewrite_call, "forbid": [],
                 "profile_kw": {"max_params": 4, "tailrec": False}},
    # arm: ldrsb / ldrh / ldrsh / strh directly at a frame slot more than 255 bytes away from fp: the 8 bit split immediate
    # is truncated.  The generator has no knob for frame sizes: drawn cases with the shape are skipped (exact feature test)
    "C05-KF11": {"targets": ARM, "module_shape": _kf11_shape, "module_rewrite": _kf11_rewrite, "forbid": [], "skip_shape": True},
}


def active_findings(target):
    """ids of the open findings whose exclusion applies to `target`"""
    from ..core import open_finding_ids

    lift = set(x for x in os.environ.get("VERIF_C05_LIFT", "").split(",") if x)
    if "all" in lift:
        return []
    return [k for k in sorted(FINDINGS) if target in FINDINGS[k]["targets"] and k in open_finding_ids(PID) and k not in lift]


def has_shape(desc, kid):
    if "module_shape" in FINDINGS[kid]:
        return FINDINGS[kid]["module_shape"](desc)
    shape = FINDINGS[kid]["shape"]
    return any(shape(ins) for f in desc["functions"] for b in f["blocks"] for ins in b["ins"])


def rewritten(desc, kids):
    """copy of the module description with the triggering shapes of the findings `kids` rewritten"""
    import copy

    d = copy.deepcopy(desc)
    for f in d["functions"]:
        for b in f["blocks"]:
            out = []
            for ins in b["ins"]:
                for k in kids:
                    if "shape" in FINDINGS[k] and FINDINGS[k]["shape"](ins):
                        out.extend(FINDINGS[k]["rewrite"](ins))
                        break
                else:
                    out.append(ins)
            b["ins"] = out
    for k in kids:
        if "module_rewrite" in FINDINGS[k]:
            d = FINDINGS[k]["module_rewrite"](d)
    return d


def _run_target(case, module, calls, level, refs, tag):
    """machine code of `module` for the case's target at one level against given reference observations"""
    target = case.get("target", "x86_64")
    if target == "x86_64":
        return run_x86(module, calls, level, refs, tag)
    if target == "arm":
        return run_arm(module, calls, level, refs)
    return run_riscv(module, calls, level, refs, target)


def classify(case, msg):
    import re

    target = case.get("target", "x86_64")
    m = re.match(r"-O(\w)[ :]", msg)
    levels = [m.group(1)] if m else case.get("levels", LEVELS)
    if "cannot be linked" in msg:
        # arm: the generated code calls a runtime routine that ppci defines nowhere
        for k in sorted(FINDINGS):
            f = FINDINGS[k]
            if target in f["targets"] and f.get("missing") and ("routine %s;" % f["missing"]) in msg and has_shape(case["module"], k):
                return k
        return None
    if "machine code vs IR semantics" not in msg and not (target == "arm" and "emulated execution stopped" in msg):
        return None
    cands = [k for k in sorted(FINDINGS) if target in FINDINGS[k]["targets"] and has_shape(case["module"], k)]
    if not cands:
        return None
    for k in [k for k in cands if "model" in FINDINGS[k]]:
        # the machine code of the module behaves exactly as the finding's model of the miscompiled module prescribes
        try:
            refs = reference(FINDINGS[k]["model"](case["module"]), case["calls"], nan_model=FINDINGS[k].get("nan_model"))
            if (levels != ["0"] or k != "C05-KF3") and any(r is not None for r in refs) and all(_run_target(case, case["module"], case["calls"], lv, refs, "k" + lv) is None for lv in levels):
                return k
        except Discard:
            pass
        finally:
            cleanup()
    for k in [k for k in cands if "call_rewrite" in FINDINGS[k]]:
        # every call of the case holds in the equivalent module that avoids the shape (one module per call: see the rewrite)
        try:
            held = 0
            for call in case["calls"]:
                rw = FINDINGS[k]["call_rewrite"](case["module"], call)
                if rw is None:
                    held = 0
                    break
                try:
                    if run_case(dict(case, module=rw[0], calls=[rw[1]], levels=levels))[0] is not None:
                        held = 0
                        break
                    held += 1
                except Discard:
                    pass
            if held:
                return k
        finally:
            cleanup()
    cands = [k for k in cands if "rewrite" in FINDINGS[k] or "module_rewrite" in FINDINGS[k]]
    for kids in [[k] for k in cands] + ([cands] if len(cands) > 1 else []):
        c2 = dict(case, module=rewritten(case["module"], kids), levels=levels)
        try:
            if run_case(c2)[0] is None:
                return kids[0]
        except Discard:
            pass
    return None


RV_TYPES = ["i8", "u8", "i16", "u16", "i32", "u32"]
_RV_KW = dict(ptr_bits=32, int_types=RV_TYPES, float_types=[], max_params=9, max_funcs=3, rotates=False, phi_liveout=True)
BASE_PROFILES = {
    "x86_64": PROFILE,
    "riscv": genir.target_profile("riscv", **_RV_KW),
    "riscv:rvc": genir.target_profile("riscv:rvc", **_RV_KW),
}
# vf/data/optable.json was measured before the C29 repairs f26d8b3 / de2fcd1 / fd653cf; these compile for arm now
ARM_NOW_SUPPORTED = [("binop", "u8", "-")] + [("cast", s_, d_) for s_ in ("i8", "u8", "i16", "u16") for d_ in ("i8", "u8", "i16", "u16") if genir.BITS[s_] != genir.BITS[d_]]
_ARM_BASE = genir.target_profile("arm", **_RV_KW)
BASE_PROFILES["arm"] = genir.Profile(**dict(_ARM_BASE.__dict__, forbidden=set(_ARM_BASE.forbidden) - set(ARM_NOW_SUPPORTED)))
PROFILES = BASE_PROFILES  # (name kept for scripts)
_PROFILE_CACHE = {}


def profile_for(target):
    """the target's profile minus the shapes excluded for its open findings"""
    kids = tuple(active_findings(target))
    key = (target, kids)
    if key not in _PROFILE_CACHE:
        base = BASE_PROFILES[target]
        if kids:
            kw = dict(base.__dict__)
            kw["forbidden"] = set(base.forbidden) | set(x for k in kids for x in FINDINGS[k]["forbid"])
            for k in kids:
                kw.update(FINDINGS[k].get("profile_kw", {}))
            _PROFILE_CACHE[key] = genir.Profile(**kw)
        else:
            _PROFILE_CACHE[key] = base
    return _PROFILE_CACHE[key]


def riscv_available():
    try:
        from . import c05_riscv  # noqa: F401

        return True
    except Exception:
        return False


def arm_available():
    """the ARM part runs only when vf/arm32.py passes its own (cached) self-check; otherwise it is dropped with a note"""
    try:
        from . import c05_arm

        return c05_arm.available()[0]
    except Exception:
        return False


@st.composite
def case_strategy(draw, targets=("x86_64",)):
    target = draw(st.sampled_from(list(targets)))
    prof = profile_for(target)
    desc = draw(genir.modules(prof))
    calls = []
    for f in desc["functions"]:
        for _ in range(draw(st.integers(1, 2))):
            calls.append([f["name"], draw(genir.arg_strategy(f, prof))])
    return {"module": desc, "calls": calls, "target": target}


def _worker(arg):
    seed, n, targets = arg
    stats = Stats()
    import time

    t_start = time.time()

    def prop(case):
        for kid in active_findings(case["target"]):
            if FINDINGS[kid].get("skip_shape"):
                # no generator flag removes this shape: a drawn case that has it is not evaluated
                if has_shape(case["module"], kid):
                    stats.excluded[kid] += 1
                    return None
                continue
            stats.excluded[kid] += 1  # the case was drawn from a profile without that finding's triggering shapes
        msg, defined, ran = run_case(case, stats, exclude=True)
        big = genir.count_instructions(case["module"]) >= 8
        nt = ran > 0 and defined > 0 and big
        stats.case(str(case["module"])[:4000] if nt else None, nt,
                   {"target": case["target"], "calls": case["calls"][:2], "last_function": case["module"]["functions"][-1]} if nt else None,
                   classes=["target:" + case["target"], "levels_ok:%d" % ran, "defined_calls:%d" % min(defined, 4)])
        return msg

    try:
        fails = hyp_search(case_strategy(targets), prop, n, seed, stats, classify=classify, skip_first=1)
    finally:
        cleanup()
    stats.hist["shard_wall_s:%s:%d" % ("arm" if targets == ("arm",) else "base", min(int(time.time() - t_start) // 10 * 10, 300))] += 1
    return stats, fails


EDGES = [127, 128, 129, -127, -128, -129, 255, 256, 2047, 2048, 2049, -2047, -2048, -2049, 4095, 4096, 32767, 32768, -32768, -32769,
         65535, 65536, 2**31 - 1, 2**31, -(2**31), -(2**31) - 1, 2**32 - 1]


EDGES_QUICK = [127, 128, -128, -129, 2047, 2048, -2048, -2049, 32767, 32768, 2**31 - 1, 2**31]


def edge_cases(target, quick=False):
    """Deterministic sweep: a constant at the edge of an immediate / displacement field as operand of + - & | ^ and as
    byte offset of a load and a store into a large global (every 8/12/16/32 bit field edge of the instruction sets)."""
    bits = 64 if target == "x86_64" else 32
    tys = ["i32", "u32"] + (["i64", "u64"] if bits == 64 else [])
    if quick:
        tys = ["i32"] + (["i64", "u64"] if bits == 64 else ["u32"])
    cases = []
    for ty in tys:
        lo, hi = genir.int_range(ty)
        funcs, calls = [], []
        k = 0
        for c in (EDGES_QUICK if quick else EDGES):
            if not lo <= c <= hi:
                continue
            for op in (["+", "&"] if quick else ["+", "-", "&", "|", "^"]):
                name = "e%d" % k
                k += 1
                funcs.append({"name": name, "params": [["a", ty]], "ret": ty, "bufs": {}, "tailrec": False, "layout": [0],
                              "blocks": [{"name": name + "_b", "ins": [["const", "c", ty, c], ["binop", "r", ty, "a", op, "c"], ["ret", "r"]]}]})
                for a in ((5, hi) if quick else (1, 5, hi, lo if lo else hi - 7)):
                    calls.append([name, [a]])
        for i in range(0, len(funcs), 25):
            fs = funcs[i : i + 25]
            names = {f["name"] for f in fs}
            cases.append({"module": {"ptr_bits": bits, "globals": [], "externals": [], "functions": fs},
                          "calls": [c for c in calls if c[0] in names], "target": target, "levels": ["2"] if quick else ["0", "2"]})
    # memory displacements
    funcs, calls = [], []
    init = bytes((7 * i + 3) & 0xFF for i in range(4224)).hex()
    for k, off in enumerate([124, 127, 128, 132, 2044, 2047, 2048, 2052] if quick else [120, 124, 127, 128, 129, 132, 136, 255, 256, 2040, 2044, 2047, 2048, 2052, 4092, 4096, 4100]):
        for ty in (["i32", "u8"] + (["i64"] if bits == 64 else [])):
            if off % genir.size_of(ty, bits):
                continue
            name = "m%d_%s" % (k, ty)
            funcs.append({"name": name, "params": [["a", ty]], "ret": ty, "bufs": {}, "tailrec": False, "layout": [0],
                          "blocks": [{"name": name + "_b", "ins": [["const", "o", "ptr", off], ["binop", "p", "ptr", "gbuf", "+", "o"],
                                                                   ["load", "v", ty, "p", False], ["binop", "w", ty, "v", "+", "a"],
                                                                   ["store", "w", "p", False], ["ret", "v"]]}]})
            calls.append([name, [3]])
    for i in range(0, len(funcs), 20):
        fs = funcs[i : i + 20]
        names = {f["name"] for f in fs}
        cases.append({"module": {"ptr_bits": bits, "globals": [{"name": "gbuf", "size": 4224, "align": 8, "init": [init]}], "externals": [], "functions": fs},
                      "calls": [c for c in calls if c[0] in names], "target": target, "levels": ["2"] if quick else ["0", "2"]})
    return cases


def _edge_worker(case, kind="edge_sweep:"):
    stats = Stats()
    fails = []
    try:
        msg, defined, ran = run_case(case, stats, exclude=False)
    except Discard as d:
        stats.discard(kind.replace("_", " ").rstrip(":") + ": " + d.reason[:60])
        cleanup()
        return stats, fails
    stats.case(None, ran > 0, None, classes=[kind + case["target"]])
    if msg:
        kid = classify(case, msg)
        if kid:
            stats.known[kid] += 1
        else:
            fails.append((case, msg))
    cleanup()
    return stats, fails


ARM_SHARDS = 16


def _task(arg):
    """one pool task: a search shard (seed, n, targets) or one stored corpus case ("case", case)"""
    if arg[0] == "case":
        return _edge_worker(arg[1], "corpus:")
    return _worker(arg)


def arm_corpus():
    """replays/C05/arm/*.json: the arm regression corpus.  It lives one level below replays/C05 so that the runner does not
    replay it sequentially before the search; it is evaluated in the pool instead (same evaluation, same triage)."""
    import json

    from ..core import VERIF

    d = os.path.join(VERIF, "replays", PID, "arm")
    out = []
    for name in sorted(os.listdir(d)) if os.path.isdir(d) else []:
        if name.endswith(".json"):
            with open(os.path.join(d, name)) as f:
                doc = json.load(f)
            out.append(doc.get("case", doc))
    return out


def run(ctx):
    reason = x86link.have_toolchain()
    if reason:
        raise HarnessError(reason)
    rv = riscv_available()
    arm = False
    try:
        from . import c05_arm

        arm, arm_note = c05_arm.available("quick")
        if arm and not ctx.quick:
            arm, arm_note = c05_arm.available("thorough")  # larger held-out corpus, not cached
    except Exception as e:  # the helper or the emulator does not even import: no ARM part
        arm_note = "%s: %s" % (type(e).__name__, str(e)[:200])
    if not arm:
        ctx.stats.notes.append("arm is not checked in this run: vf/arm32.py did not pass its self-check (%s)" % arm_note)
    n = ctx.scale(96, 9600)
    base = ("x86_64", "riscv", "riscv:rvc") if rv else ("x86_64",)
    shards = [(subseed(ctx.seed, PID, w), max(1, n // 16), base) for w in range(16)]
    if arm:
        # shards of their own (the draws of the sixteen shards above stay what they were before arm was added)
        n_arm = ctx.scale(128, 9600)
        shards += [(subseed(ctx.seed, PID, 16 + w), max(1, n_arm // ARM_SHARDS), ("arm",)) for w in range(ARM_SHARDS)]
    import time

    t0 = time.time()
    corpus = arm_corpus() if arm else []
    ctx.pmap(_task, shards + [("case", c) for c in corpus])
    ctx.extra["arm_corpus_modules"] = len(corpus)
    t1 = time.time()
    sweep = []
    for t in ["x86_64"] + (["riscv", "riscv:rvc"] if rv else []) + (["arm"] if arm else []):
        sweep.extend(edge_cases(t, ctx.quick))
    ctx.pmap(_edge_worker, sweep)
    ctx.extra["phase_wall_s"] = {"before_search (witnesses + corpus)": round(t0 - ctx.t0, 1), "search": round(t1 - t0, 1), "edge_sweep": round(time.time() - t1, 1)}
    ctx.extra["edge_sweep_modules"] = len(sweep)
    ctx.extra["targets_covered"] = ["x86_64"] + (["riscv", "riscv:rvc"] if rv else []) + (["arm (A32; integer types up to 32 bits)"] if arm else [])
    ctx.extra["excluded_shapes"] = {k: sorted("%s %s %s" % x for x in FINDINGS[k]["forbid"]) + sorted("%s=%r" % x for x in FINDINGS[k].get("profile_kw", {}).items())
                                    for t in BASE_PROFILES for k in active_findings(t)}
    ctx.extra["targets_not_covered"] = ([] if arm else ["arm (vf/arm32.py did not pass its self-check: %s)" % arm_note]) + [
        "arm:thumb (the emulator vf/arm32.py implements the A32 instruction set only)", "m68k", "mips (no emulator in the sandbox)"]
    if arm:
        ctx.extra["arm_emulator_selfcheck"] = "passed (vf/arm32.py selfcheck('quick'), cached in .build)"
