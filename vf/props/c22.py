"""C22 - WebAssembly execution follows the specification (targets python and native).

Reference: Node/V8 on the same binary.  Two searches:
  * probes: one exported function per numeric / memory instruction (`local.get* ; op`), called with
    every combination of a boundary operand pool - attributes a difference to one instruction;
  * programs: generated modules (vf/wasmgen.py) with control flow, calls, memory, globals, tables,
    invoked with boundary arguments.
ppci runs in a forked child per (module, target) (vf/wasmppci.py).
"""

import itertools
import json
import os
import math
import re
import struct
import time

from .. import core
from .. import noderun as N
from .. import wasmgen as G
from .. import wasmppci as P
from .. import wasmref as R
from ..core import Discard, Stats, hyp_search, subseed

PID = "C22"
RULE = (
    "compositions: every comparison (incl. eqz) feeding eqz / if / br_if / select / eqz eqz / arithmetic / a local / "
    "eqz+if / eqz+br_if / eqz+select (the places where wasm2ppci keeps a pending comparison on its value stack), over "
    "boundary operands incl. NaN, +-0, inf; probes: for every MVP numeric, conversion, comparison and memory instruction a module with one exported "
    "function `local.get*; op`, called with all combinations of a boundary operand pool (quick: 12-19 values per "
    "type, thorough: 22-57 values per type) on targets python and native, plus one module with every load/store "
    "executed on boundary values and addresses; programs: Hypothesis modules "
    "from vf/wasmgen.py (nested block/loop/if, br/br_if/br_table, calls, call_indirect, locals, globals, memory, "
    "data/elem segments, start) with 1-4 invocations on boundary arguments, one target per case. Compared with "
    "V8: each result bitwise (NaN as a class), trap vs no trap, exported globals, memory size and sha256. "
    "non-trivial = some operand/argument/constant of the executed code is a boundary value or the reference "
    "trapped; distinct = (target, op, operands) for probes, hash of (module, calls, target) for programs"
)
ASSUMPTIONS = [
    "Node/V8 implements the WebAssembly specification (trusted reference engine)",
    "when the reference traps, ANY Python exception raised by the ppci call counts as a trap (ppci documents no trap "
    "API beyond WasmTrapException for integer division); when the reference returns a value, an exception is a failure",
    "NaN results are compared as a class (payload and sign are not observable through the JS API)",
    "instantiation failing with NotImplementedError/ValueError is a rejection of the feature (counted, not a violation)",
    "a child killed by a signal is re-run alone twice; it counts only if it is killed all three times",
    "supported feature set = WebAssembly 1.0 (MVP) + sign-extension operators, as exercised by test/wasm/test_suite_full.py",
]
TRUSTED = ["CPython", "Hypothesis", "Node/V8", "reference encoder vf/wasmref.py (validated by V8 accepting its output)"]
TECHNIQUE = "differential testing against V8: exhaustive boundary-operand probes per instruction + Hypothesis-generated modules"
LEVEL_TEXT = (
    "Exploration: every instruction is executed on the cross product of boundary operands and generated programs "
    "exercise control flow, calls, memory and globals on both execution targets, each compared with V8 bit for bit. "
    "Execution semantics depend on operand values and program shape, so a differential search with a reference "
    "engine is the level that can reach them; open findings are excluded by construction and listed."
)
REGISTER = True

TARGETS = ("python", "native")


def _fops(names):
    return {"%s.%s" % (t, n) for t in ("f32", "f64") for n in names}


IDIV = {"%s.%s" % (t, n) for t in ("i32", "i64") for n in ("div_s", "div_u", "rem_s", "rem_u")}
F32_ARITH = {"f32.add", "f32.sub", "f32.mul", "f32.div", "f32.sqrt", "f32.demote_f64", "f32.convert_i32_s",
             "f32.convert_i32_u", "f32.convert_i64_s", "f32.convert_i64_u"}  # fmt: skip

# Exclusions by construction, per open finding (DESIGN 2.5).  targets: where the defect shows.
KF = {
    "C22-KF1": dict(targets=("native",), guards={"div"}),
    "C22-KF2": dict(targets=("python",), guards={"div"}),
    "C22-KF3": dict(targets=TARGETS, guards={"trunc"}),
    "C22-KF4": dict(targets=TARGETS, no_ops=_fops(["min", "max"])),
    "C22-KF5": dict(targets=("native",), no_ops=_fops(["eq", "ne", "lt", "le"])),
    "C22-KF6": dict(targets=TARGETS, no_ops=_fops(["ceil", "floor", "trunc", "nearest"])),
    "C22-KF7": dict(targets=TARGETS, guards={"sqrt"}),
    "C22-KF8": dict(targets=("python",), guards={"fdiv"}),
    "C22-KF9": dict(targets=("python",), no_ops={"f32.demote_f64"}),
    "C22-KF10": dict(targets=TARGETS, no_features={"dead_loops"}),
    "C22-KF11": dict(targets=TARGETS, guards={"addr"}),
    "C22-KF12": dict(targets=TARGETS, guards={"ci"}),
    "C22-KF13": dict(targets=("native",), no_features={"unreachable"}),
    "C22-KF14": dict(targets=("python",), no_features={"nan_consts", "inf_consts"}),
    "C22-KF15": dict(targets=("python",), no_features={"export_float_globals"}),
    "C22-KF16": dict(targets=("python",), no_features={"elem_imports"}),
    "C22-KF17": dict(targets=TARGETS, no_features={"twice_br_table"}),
    "C22-KF18": dict(targets=TARGETS, no_features={"grow_negative"}),
}


def flags_for(target, open_ids):
    no_ops, guards, no_features = set(), set(), set()
    used = []
    for kid, e in KF.items():
        if kid in open_ids and target in e["targets"]:
            no_ops |= e.get("no_ops", set())
            guards |= e.get("guards", set())
            no_features |= e.get("no_features", set())
            used.append(kid)
    if target == "native":
        no_features.add("import_globals")  # native loader rejects imported globals (ValueError): a rejection
    return G.Flags(no_ops=no_ops, guards=guards, no_features=no_features), used


# ---------------------------------------------------------------------------------------------
# comparison


def _fmt_v(t, v):
    if isinstance(v, int):
        if t in ("f32", "f64"):
            return "%s:0x%x" % (t, v)
        return "%s:%d" % (t, v)
    return "%s:%s" % (t, v)


def compare(ref, got, plan, info):
    """First difference between the reference answer and ppci's, as a dict, or None."""
    if ref["instantiate"]:
        if got["instantiate"] or got["load"]:
            return None
        if got["status"] != "ok" and not got["done"] and not got["calls"]:
            return dict(kind="killed", where="instantiate", status=got["status"], ref="trap:" + ref["instantiate"]["trap"])
        return dict(kind="inst-no-trap", ref="trap:" + ref["instantiate"]["trap"])
    if got["load"]:
        g = got["load"]
        return dict(kind="load-exc", exc=g["exc"], frame=g["frame"], msg=g["msg"])
    if got["instantiate"]:
        g = got["instantiate"]
        return dict(kind="inst-exc", exc=g["exc"], frame=g["frame"], msg=g["msg"])
    for i, r in enumerate(ref["calls"]):
        f, args, rt = plan[i]
        call = "%s(%s)" % (f, ", ".join(_fmt_v(t, v) for t, v in args))
        rdesc = "trap:" + r["trap"] if "trap" in r else ",".join(_fmt_v(t, v) for t, v in r["v"])
        if i >= len(got["calls"]):
            return dict(kind="killed", where="call", call=i, callstr=call, status=got["status"], ref=rdesc)
        g = got["calls"][i]
        if "v" in r:
            if "v" not in g:
                return dict(kind="exc-vs-val", call=i, callstr=call, ref=rdesc, exc=g["exc"], frame=g["frame"], msg=g["msg"])
            for (t, a), (_, b) in zip(r["v"], g["v"]):
                if not N.same_value(t, a, b):
                    return dict(kind="value", call=i, callstr=call, ref=rdesc, got=_fmt_v(t, b), gotv=b)
        elif "v" in g:
            return dict(kind="no-trap", call=i, callstr=call, ref=rdesc, got=",".join(_fmt_v(t, v) for t, v in g["v"]),
                        gotv=g["v"][0][1] if g["v"] else None)  # fmt: skip
    if got["status"] != "ok":
        return dict(kind="killed", where="after-calls", status=got["status"], ref="ok")
    for k, v in ref["globals"].items():
        gv = got["globals"].get(k)
        t = info["globals"][k]
        if isinstance(gv, dict):
            return dict(kind="global-exc", name=k, vt=t, exc=gv["exc"], frame=gv["frame"], msg=gv["msg"])
        if not N.same_value(t, v, gv):
            return dict(kind="global", name=k, ref=_fmt_v(t, v), got=_fmt_v(t, gv))
    if ref["mem"]:
        gm = got["mem"]
        if gm is None or "exc" in gm:
            return dict(kind="mem-exc", exc=gm and gm["exc"], frame=gm and gm["frame"], msg=gm and gm["msg"])
        if gm["pages"] != ref["mem"]["pages"]:
            return dict(kind="mem-pages", ref=ref["mem"]["pages"], got=gm["pages"])
        if gm["sha256"] != ref["mem"]["sha256"]:
            lo_r, lo_g = ref["mem"]["lo"], gm["lo"]
            pos = next((i // 2 for i in range(0, min(len(lo_r), len(lo_g)), 2) if lo_r[i : i + 2] != lo_g[i : i + 2]), None)
            return dict(kind="mem-content", first_diff_in_low_256=pos, ref=lo_r[:64], got=lo_g[:64])
    return None


_NODE = [None]


def node():
    if _NODE[0] is None:
        _NODE[0] = N.NodeRunner()
    return _NODE[0]


def preload():
    """Import the heavy ppci modules once in the parent so that forked children inherit them."""
    import ppci.api  # noqa: F401
    import ppci.wasm  # noqa: F401
    from ppci.api import get_current_arch

    get_current_arch()


def message(target, diff, desc):
    head = dict(diff)
    head["target"] = target
    txt = "C22 " + json.dumps(head, sort_keys=True, default=str) + "\n"
    txt += "target %s: %s\n" % (target, ", ".join("%s=%s" % kv for kv in sorted(diff.items()) if kv[0] not in ("kind",)))
    wat = R.to_wat(desc)
    if len(wat) > 1500:
        wat = wat[:1500] + "\n  ...\n"
    return txt + wat


def parse_message(msg):
    if not isinstance(msg, str) or not msg.startswith("C22 {"):
        return None
    try:
        return json.loads(msg[4:].split("\n", 1)[0])
    except ValueError:
        return None


def reference(case):
    desc = case["desc"]
    wasm = R.encode(desc)
    info = G.module_info(desc)
    plan = G.call_plan(case)
    try:
        ref = node().run(wasm, calls=plan, globals=info["globals"], memory=info["memory"], imports=info["imports"])
    except N.NodeTimeout:
        raise Discard("node-timeout")
    if ref["compile"]:
        raise core.HarnessError("generated module rejected by V8: %s\n%s" % (ref["compile"], R.to_wat(desc)))
    if ref["instantiate"] and ref["instantiate"]["trap"] in ("link", "error"):
        raise core.HarnessError("reference instantiation failed: %r" % (ref["instantiate"],))
    return wasm, info, plan, ref


def run_target(wasm, target, info, plan, twice=False, timeout_s=180.0):
    return P.run_ppci(wasm, target, calls=plan, globals=info["globals"], memory=info["memory"], imports=info["imports"],
                      timeout_s=timeout_s, twice=twice)  # fmt: skip


REJECT_EXC = ("NotImplementedError", "ValueError")


def check_case(case, ref_pack=None):
    """One case on its target.  Returns None | failure message; raises Discard."""
    target = case.get("target", "python")
    wasm, info, plan, ref = ref_pack or reference(case)
    got = run_target(wasm, target, info, plan, twice=bool(case.get("twice")))
    if got["status"] == "timeout":
        raise Discard("timeout:" + target)
    if got["status"].startswith("killed"):
        again = [run_target(wasm, target, info, plan, twice=bool(case.get("twice"))) for _ in range(2)]
        if not all(a["status"] == got["status"] and len(a["calls"]) == len(got["calls"]) for a in again):
            raise Discard("unstable-kill:" + target)
    inst = got["instantiate"] or got["load"]
    if inst and inst["exc"] in REJECT_EXC and not ref["instantiate"]:
        raise Discard("rejected:%s:%s:%s" % (target, inst["exc"], inst["frame"]))
    diff = compare(ref, got, plan, info)
    if diff is None:
        return None
    return message(target, diff, case["desc"])


def replay(case):
    preload()
    try:
        return check_case(case)
    finally:
        if _NODE[0] is not None:
            _NODE[0].close()
            _NODE[0] = None


# ---------------------------------------------------------------------------------------------
# probes

QUICK_POOL = {
    "i32": [0, 1, -1, 2, 31, 32, 33, 0x7FFFFFFF, -0x80000000, 0x80, 0xFFFF, 0x55555555],
    "i64": [0, 1, -1, 63, 64, 65, 0x7FFFFFFF, 0xFFFFFFFF, 0x100000000, 0x7FFFFFFFFFFFFFFF, -0x8000000000000000, 0x5555555555555555],
    "f32": [G.f32b(x) for x in (0.0, -0.0, 1.0, -1.5, 0.5, -0.5, 2.5, 2147483648.0, -2147483904.0, 4294967296.0, 1e30)]
    + [0x7F800000, 0xFF800000, 0x7FC00000, 0x00000001, 0x7F7FFFFF, 0x4EFFFFFF, 0x5F000000],
    "f64": [G.f64b(x) for x in (0.0, -0.0, 1.0, -1.5, 0.5, -0.5, 2.5, 2147483648.0, -2147483649.0, 4294967296.0, 1e300)]
    + [0x7FF0000000000000, 0xFFF0000000000000, 0x7FF8000000000000, 1, 0x7FEFFFFFFFFFFFFF, 0x41DFFFFFFFC00000, 0x43E0000000000000, 0x47EFFFFFF0000000],
}  # fmt: skip
FULL_POOL = {
    "i32": G.I32_POOL,
    "i64": G.I64_POOL,
    "f32": G.F32_POOL + G.F32_NAN[:2],
    "f64": G.F64_POOL + G.F64_NAN[:2],
}


def probe_desc(ops):
    """Module with one exported function p<k> per op: (params) -> result, body `local.get*; op`."""
    desc = {"types": [], "imports": [], "funcs": [], "table": None, "mem": None, "globals": [], "exports": [],
            "start": None, "elems": [], "datas": []}  # fmt: skip
    for k, op in enumerate(ops):
        ins, outs = R.SIG[op]
        sig = [list(ins), list(outs)]
        if sig not in desc["types"]:
            desc["types"].append(sig)
        imm = [R.natural_align(op), 0] if (".load" in op or ".store" in op) else []
        body = [[op, imm, [["local.get", [i], []] for i in range(len(ins))]]]
        desc["funcs"].append({"type": desc["types"].index(sig), "locals": [], "body": body})
        desc["exports"].append({"name": "p%d" % k, "kind": "func", "idx": k})
    if any(".load" in op or ".store" in op for op in ops):
        desc["mem"] = {"min": 1, "max": 1}
        desc["exports"].append({"name": "mem", "kind": "memory", "idx": 0})
        desc["datas"].append({"offset": 0, "bytes": bytes(range(0x80, 0xA0)).hex()})
    return desc


def probe_of(case):
    """(op, [arg values], [arg types]) when the case is a single-op probe with one call, else None."""
    d = case["desc"]
    if len(d["funcs"]) != 1 or len(case["calls"]) != 1 or d.get("imports") or d.get("globals"):
        return None
    body = d["funcs"][0]["body"]
    if len(body) != 1 or body[0][0] in ("block", "loop", "if"):
        return None
    op, imm, ch = body[0]
    if op not in R.SIG or any(c[0] != "local.get" for c in ch):
        return None
    return op, [v for _, v in case["calls"][0][1]], [t for t, _ in case["calls"][0][1]]


def _f(t, bits):
    if t == "f32":
        return struct.unpack("<f", struct.pack("<I", bits & 0xFFFFFFFF))[0]
    return struct.unpack("<d", struct.pack("<Q", bits & 0xFFFFFFFFFFFFFFFF))[0]


def _isnan(t, bits):
    return N.is_nan_bits(t, bits)


def _int_min(t):
    return -(1 << (int(t[1:]) - 1))


def _sgn(v, bits):
    v &= (1 << bits) - 1
    return v - (1 << bits) if v >> (bits - 1) else v


def known_probe(op, args, target):
    """Id of the finding whose INPUT predicate this probe call satisfies (before looking at the outcome)."""
    t, name = op.split(".")
    if op in IDIV:
        bits = int(t[1:])
        a, b = _sgn(args[0], bits), _sgn(args[1], bits)
        if target == "native" and (b == 0 or (name in ("div_s", "rem_s") and a == _int_min(t) and b == -1)):
            return "C22-KF1"
        if target == "python" and name == "div_s" and a == _int_min(t) and b == -1:
            return "C22-KF2"
    if name in ("min", "max") and t[0] == "f":
        if _isnan(t, args[0]) or _isnan(t, args[1]) or (_f(t, args[0]) == 0.0 and _f(t, args[1]) == 0.0 and args[0] != args[1]):
            return "C22-KF4"
    if name in ("eq", "ne", "lt", "le") and t[0] == "f" and target == "native":
        if _isnan(t, args[0]) or _isnan(t, args[1]):
            return "C22-KF5"
    if name in ("ceil", "floor", "trunc", "nearest") and t[0] == "f":
        x = _f(t, args[0])
        if _isnan(t, args[0]) or (x == 0.0 and math.copysign(1.0, x) < 0) or (-1.0 < x < 0.0 and name != "floor"):
            return "C22-KF6"
    if name == "sqrt" and not _isnan(t, args[0]) and _f(t, args[0]) < 0.0:
        return "C22-KF7"
    if name == "div" and t[0] == "f" and target == "python" and _f(t, args[1]) == 0.0:
        return "C22-KF8"
    return None


def probe_groups():
    """Ops grouped into a few modules (instantiation dominates the cost): binary ops per operand type,
    and all unary ops and conversions together."""
    groups = {}
    for op, (ins, outs) in sorted(R.SIG.items()):
        if ".load" in op or ".store" in op:
            continue
        key = "bin-" + ins[0] if len(ins) == 2 else "unary"
        groups.setdefault(key, []).append(op)
    return [groups[k] for k in sorted(groups)]


def _single(op, args_t, args_v, target):
    return {"desc": probe_desc([op]), "calls": [["p0", [[t, v] for t, v in zip(args_t, args_v)]]], "target": target}


def _probe_worker(arg):
    ops, target, pool_name, open_ids, extra = arg
    preload()
    stats = Stats()
    fails = []
    pool = dict(QUICK_POOL if pool_name == "quick" else FULL_POOL)
    if extra:
        pool = {t: list(pool[t]) + list(extra.get(t, [])) for t in pool}
    desc = probe_desc(ops)
    calls = []  # (export, op, [types], [values])
    skipped_kill = []
    for k, op in enumerate(ops):
        ins, outs = R.SIG[op]
        for combo in itertools.product(*[pool[t] for t in ins]):
            kid = known_probe(op, list(combo), target)
            if kid == "C22-KF1" and kid in open_ids:
                stats.excluded[kid] += 1  # would kill the child; the witness is replayed separately
                skipped_kill.append((op, list(ins), list(combo)))
                continue
            calls.append(("p%d" % k, op, list(ins), list(combo)))
    case = {"desc": desc, "calls": [[f, [[t, v] for t, v in zip(ts, vs)]] for f, _, ts, vs in calls], "target": target}
    try:
        wasm, info, plan, ref = reference(case)
    except Discard as d:
        stats.discard(d.reason)
        return stats, fails
    todo = list(range(len(calls)))
    got_calls = {}
    rounds = 0
    while todo and rounds < 6:
        rounds += 1
        got = P.run_ppci(wasm, target, calls=[plan[i] for i in todo], timeout_s=600.0)
        if got["status"] == "timeout":
            stats.discard("timeout:" + target)
            break
        inst = got["instantiate"] or got["load"]
        if inst:
            if inst["exc"] in REJECT_EXC:
                stats.discard("rejected:%s:%s" % (target, inst["exc"]))
            else:
                fails.append((dict(case, calls=case["calls"][:1]), message(target, dict(kind="inst-exc", exc=inst["exc"], frame=inst["frame"], msg=inst["msg"]), desc)))
            break
        for j, c in enumerate(got["calls"]):
            got_calls[todo[j]] = c
        if got["status"] != "ok" and len(got["calls"]) < len(todo):
            got_calls[todo[len(got["calls"])]] = {"killed": got["status"]}
            todo = todo[len(got["calls"]) + 1 :]
        else:
            todo = []
    for i, (f, op, ts, vs) in enumerate(calls):
        g = got_calls.get(i)
        if g is None:
            continue
        r = ref["calls"][i]
        boundary = any((v & ((1 << int(t[1:])) - 1)) in G.BOUNDARY[t] for t, v in zip(ts, vs)) or "trap" in r
        stats.case((target, op, tuple(vs)), boundary, None, classes=("probe:" + target, "probe-op:" + op.split(".")[1]))
        single = None
        if "killed" in g:
            single = _single(op, ts, vs, target)
            try:
                msg = check_case(single)  # re-run alone (three children)
            except Discard as d:
                stats.discard(d.reason)
                continue
            if msg is None:
                stats.notes.append("probe %s%r killed the batch child (%s) but not when run alone" % (op, vs, g["killed"]))
                continue
        else:
            sub_ref = dict(ref, calls=[r], globals={}, mem=None)
            sub_got = dict(status="ok", load=None, instantiate=None, calls=[g], globals={}, mem=None, done=True)
            single_plan = [("p0", plan[i][1], plan[i][2])]
            diff = compare(sub_ref, sub_got, single_plan, {"globals": {}})
            if diff is None:
                continue
            single = _single(op, ts, vs, target)
            msg = message(target, diff, single["desc"])
        kid = classify(single, msg)
        if kid and kid in open_ids:
            stats.known[kid] += 1
        else:
            if len(fails) < 3:
                fails.append((single, msg))
    if stats.samples == [] and calls:
        f, op, ts, vs = calls[len(calls) // 2]
        stats.sample({"probe": op, "target": target, "args": [[t, v] for t, v in zip(ts, vs)],
                      "reference": ref["calls"][len(calls) // 2].get("v") or ref["calls"][len(calls) // 2].get("trap")})  # fmt: skip
    # a sample of the excluded killing operands is evaluated anyway (each needs its own children)
    for op, ts, vs in skipped_kill[:: max(1, len(skipped_kill) // (1 if pool_name == "quick" else 6))][: 1 if pool_name == "quick" else 6]:
        single = _single(op, ts, vs, target)
        try:
            msg = check_case(single)
        except Discard as d:
            stats.discard(d.reason)
            continue
        stats.case((target, op, tuple(vs)), True, None, classes=("probe:" + target, "probe-kill-sample"))
        if msg is not None:
            kid = classify(single, msg)
            if kid and kid in open_ids:
                stats.known[kid] += 1
            elif len(fails) < 3:
                fails.append((single, msg))
    if _NODE[0] is not None:
        _NODE[0].close()
        _NODE[0] = None
    return stats, fails


# ---------------------------------------------------------------------------------------------
# composition probes: a comparison feeding the instructions that wasm2ppci treats specially (a comparison
# stays "pending" on its virtual stack as (op, a, b) and is consumed directly by if / br_if / select, or
# materialised as 0/1 when used as a value or by eqz)

CMP_NAMES = ("eqz", "eq", "ne", "lt_s", "lt_u", "gt_s", "gt_u", "le_s", "le_u", "ge_s", "ge_u", "lt", "gt", "le", "ge")
CMP_OPS = sorted(op for op, (ins, outs) in R.SIG.items() if outs == ["i32"] and op.split(".")[1] in CMP_NAMES and "." in op
                 and not (".load" in op))  # fmt: skip
COMP_VARIANTS = ("eqz", "if", "br_if", "select", "eqz_eqz", "value", "eqz_if", "eqz_br_if", "eqz_select", "local", "if_void")
COMP_POOL = {
    "i32": [0, 1, -1, 2, 0x7FFFFFFF, -0x80000000],
    "i64": [0, 1, -1, 2, 0x7FFFFFFFFFFFFFFF, -0x8000000000000000],
    "f32": [G.f32b(0.0), G.f32b(-0.0), G.f32b(1.0), G.f32b(-1.5), 0x7F800000, 0xFF800000, 0x7FC00000, 0x00000001],
    "f64": [G.f64b(0.0), G.f64b(-0.0), G.f64b(1.0), G.f64b(-1.5), 0x7FF0000000000000, 0xFFF0000000000000, 0x7FF8000000000000, 1],
}


def comp_body(variant, op):
    """(locals, body) of a function (operands of op) -> i32 that feeds op's result into `variant`."""
    ins = R.SIG[op][0]
    n = len(ins)
    C = [op, [], [["local.get", [i], []] for i in range(n)]]
    E = ["i32.eqz", [], [C]]
    k = lambda v: ["i32.const", [v], []]  # noqa: E731
    if variant == "eqz":
        return [], [E]
    if variant == "eqz_eqz":
        return [], [["i32.eqz", [], [E]]]
    if variant == "value":
        return [], [["i32.add", [], [C, k(10)]]]
    if variant == "local":  # result stored and re-read
        return ["i32"], [["local.set", [n], [C]], ["i32.mul", [], [["local.get", [n], []], k(3)]]]
    if variant == "if_void":  # condition of an if without result, effect through a local
        return ["i32"], [["local.set", [n], [k(22)]], ["if", None, C, [["local.set", [n], [k(11)]]], None], ["local.get", [n], []]]
    cond = E if variant.startswith("eqz_") else C
    what = variant[4:] if variant.startswith("eqz_") else variant
    if what == "if":
        return [], [["if", "i32", cond, [k(11)], [k(22)]]]
    if what == "br_if":
        return [], [["block", "i32", [["drop", [], [["br_if", [0], [k(11), cond]]]], k(22)]]]
    if what == "select":
        return [], [["select", [], [k(11), k(22), cond]]]
    raise ValueError(variant)


def comp_model(variant, r):
    """Result of the composition when the comparison yields r (0/1)."""
    if variant == "eqz":
        return 1 - r
    if variant == "eqz_eqz":
        return r
    if variant == "value":
        return r + 10
    if variant == "local":
        return r * 3
    if variant.startswith("eqz_"):
        r = 1 - r
    return 11 if r else 22


def comp_desc(items):
    """Module with one exported function c<k> per (variant, op)."""
    desc = {"types": [], "imports": [], "funcs": [], "table": None, "mem": None, "globals": [], "exports": [],
            "start": None, "elems": [], "datas": []}  # fmt: skip
    for k, (variant, op) in enumerate(items):
        sig = [list(R.SIG[op][0]), ["i32"]]
        if sig not in desc["types"]:
            desc["types"].append(sig)
        locs, body = comp_body(variant, op)
        desc["funcs"].append({"type": desc["types"].index(sig), "locals": locs, "body": body})
        desc["exports"].append({"name": "c%d" % k, "kind": "func", "idx": k})
    return desc


def comp_of(case):
    """(variant, op, [arg values]) when the case is a single composition probe with one call, else None."""
    d = case["desc"]
    if len(d["funcs"]) != 1 or len(case["calls"]) != 1 or d.get("imports") or d.get("globals"):
        return None
    f = d["funcs"][0]
    for op in CMP_OPS:
        if any(n[0] == op for n in R.walk(f["body"])):
            for variant in COMP_VARIANTS:
                locs, body = comp_body(variant, op)
                if body == f["body"] and locs == f["locals"]:
                    return variant, op, [v for _, v in case["calls"][0][1]]
    return None


def _comp_single(variant, op, args_v, target):
    ins = R.SIG[op][0]
    return {"desc": comp_desc([(variant, op)]), "calls": [["c0", [[t, v] for t, v in zip(ins, args_v)]]], "target": target}


def _comp_worker(arg):
    vt, target, pool_name, open_ids = arg
    preload()
    stats = Stats()
    fails = []
    pool = COMP_POOL if pool_name == "quick" else QUICK_POOL
    items = [(v, op) for op in CMP_OPS if R.SIG[op][0][0] == vt for v in COMP_VARIANTS]
    desc = comp_desc(items)
    calls = []
    for k, (variant, op) in enumerate(items):
        ins = R.SIG[op][0]
        for combo in itertools.product(*[pool[t] for t in ins]):
            calls.append(("c%d" % k, variant, op, list(ins), list(combo)))
    case = {"desc": desc, "calls": [[f, [[t, v] for t, v in zip(ts, vs)]] for f, _, _, ts, vs in calls], "target": target}
    try:
        wasm, info, plan, ref = reference(case)
    except Discard as d:
        stats.discard(d.reason)
        return stats, fails
    got = P.run_ppci(wasm, target, calls=plan, timeout_s=600.0)
    if got["status"] == "timeout":
        stats.discard("timeout:" + target)
        return stats, fails
    inst = got["instantiate"] or got["load"]
    if inst:
        if inst["exc"] in REJECT_EXC:
            stats.discard("rejected:%s:%s" % (target, inst["exc"]))
        else:
            fails.append((dict(case, calls=case["calls"][:1]), message(target, dict(kind="inst-exc", exc=inst["exc"], frame=inst["frame"], msg=inst["msg"]), desc)))
        return stats, fails
    for i, (f, variant, op, ts, vs) in enumerate(calls):
        r = ref["calls"][i]
        if i >= len(got["calls"]):
            if i == len(got["calls"]) and got["status"] != "ok":
                single = _comp_single(variant, op, vs, target)
                try:
                    msg = check_case(single)
                except Discard as d:
                    stats.discard(d.reason)
                    msg = None
                if msg is not None and len(fails) < 3:
                    fails.append((single, msg))
            break
        g = got["calls"][i]
        stats.case((target, "comp", variant, op, tuple(vs)), True, None, classes=("comp:" + target, "comp-variant:" + variant))
        sub_ref = dict(ref, calls=[r], globals={}, mem=None)
        sub_got = dict(status="ok", load=None, instantiate=None, calls=[g], globals={}, mem=None, done=True)
        diff = compare(sub_ref, sub_got, [("c0", plan[i][1], plan[i][2])], {"globals": {}})
        if diff is None:
            continue
        single = _comp_single(variant, op, vs, target)
        msg = message(target, diff, single["desc"])
        kid = classify(single, msg)
        if kid and kid in open_ids:
            stats.known[kid] += 1
        elif len(fails) < 3:
            fails.append((single, msg))
    if calls:
        f, variant, op, ts, vs = calls[len(calls) // 3]
        stats.sample({"composition": variant, "op": op, "target": target, "args": [[t, v] for t, v in zip(ts, vs)],
                      "wat": R.to_wat(comp_desc([(variant, op)]))[:600]})  # fmt: skip
    if _NODE[0] is not None:
        _NODE[0].close()
        _NODE[0] = None
    return stats, fails


MEM_OPS = sorted(op for op in R.SIG if ".load" in op or ".store" in op)


def mem_probe_case(target, quick, oob):
    """All loads and stores in one module; stores of boundary values at several addresses, then every load.
    oob: 0 none, 1 addresses just past the end, 2 also addresses >= 2^31."""
    desc = probe_desc(MEM_OPS)
    pool = QUICK_POOL if quick else FULL_POOL
    addrs = [0, 1, 3, 8, 17, 31, 65528, 65532] + ([65533, 65536] if oob >= 1 else []) + ([-1, -0x80000000] if oob >= 2 else [])
    calls = []
    for k, op in enumerate(MEM_OPS):
        if ".store" in op:
            t = op[:3]
            for j, v in enumerate(pool[t][:: 1 if not quick else 2]):
                calls.append(["p%d" % k, [["i32", addrs[(j + k) % len(addrs)]], [t, v]]])
        if k % 3 == 2 or k == len(MEM_OPS) - 1:
            for k2, op2 in enumerate(MEM_OPS):
                if ".load" in op2:
                    for a in addrs:
                        calls.append(["p%d" % k2, [["i32", a]]])
    return {"desc": desc, "calls": calls, "target": target}


# ---------------------------------------------------------------------------------------------
# classification of failures that belong to open findings


def _has_op(desc, pred):
    return any(pred(n[0]) for f in desc["funcs"] for n in R.walk(f["body"]))


def _nonfinite_const(desc):
    for f in desc["funcs"]:
        for n in R.walk(f["body"]):
            if n[0] == "f32.const" and (n[1][0] & 0x7F800000) == 0x7F800000:
                return True
            if n[0] == "f64.const" and (n[1][0] & 0x7FF0000000000000) == 0x7FF0000000000000:
                return True
    for g in desc.get("globals", []):
        n = g["init"]
        if n[0] == "f32.const" and (n[1][0] & 0x7F800000) == 0x7F800000:
            return True
        if n[0] == "f64.const" and (n[1][0] & 0x7FF0000000000000) == 0x7FF0000000000000:
            return True
    return False


def _dead_loop(desc):
    def scan(body, dead):
        for n in body:
            op = n[0]
            if op == "loop":
                if dead:
                    return True
                if scan(n[2], dead):
                    return True
            elif op == "block":
                if scan(n[2], dead):
                    return True
            elif op == "if":
                if scan([n[2]], dead) or scan(n[3], dead) or scan(n[4] or [], dead):
                    return True
            else:
                if scan(n[2], dead):
                    return True
                if op in ("br", "br_table", "return", "unreachable"):
                    dead = True
        return False

    return any(scan(f["body"], False) for f in desc["funcs"])


def _grow_negative(desc):
    for f in desc["funcs"]:
        for n in R.walk(f["body"]):
            if n[0] == "memory.grow" and n[2] and n[2][0][0] == "i32.const" and _sgn(n[2][0][1][0], 32) < 0:
                return True
    return False


def _py_minmax(name, t, a, b):
    x, y = _f(t, a), _f(t, b)
    r = min(x, y) if name == "min" else max(x, y)
    if math.isnan(r):
        return "nan"
    return struct.unpack("<I", struct.pack("<f", r))[0] if t == "f32" else struct.unpack("<Q", struct.pack("<d", r))[0]


def classify(case, msg):
    h = parse_message(msg)
    if h is None:
        return None
    target, kind = h.get("target"), h.get("kind")
    desc = case["desc"]
    ref = h.get("ref", "")
    pr = probe_of(case)
    if pr:
        op, args, ats = pr
        t, name = op.split(".")
        kid = known_probe(op, args, target)
        if kid == "C22-KF1" and kind == "killed" and h.get("status") == "killed:SIGFPE":
            return kid
        if kid == "C22-KF2" and kind == "no-trap" and ref == "trap:overflow" and h.get("gotv") == _int_min(t):
            return kid
        if kid == "C22-KF4" and kind == "value":
            model = _py_minmax(name, t, args[0], args[1])
            if N.same_value(t, model, h.get("gotv")):
                return kid
        if kid == "C22-KF5" and kind == "value" and h.get("gotv") == {"eq": 1, "ne": 0, "lt": 1, "le": 1}[name]:
            return kid
        if kid == "C22-KF6":
            if _isnan(t, args[0]):
                if (target == "python" and kind == "exc-vs-val" and h.get("exc") == "ValueError") or (target == "native" and kind == "value"):
                    return kid
            elif kind == "value" and h.get("gotv") == 0 and ref.endswith(":0x%x" % (1 << (int(t[1:]) - 1))):
                return kid  # -0.0 expected, +0.0 delivered
        if kid == "C22-KF7":
            if (target == "python" and kind == "exc-vs-val" and h.get("exc") == "ValueError") or (target == "native" and kind == "value" and ref.endswith(":nan")):
                return kid
        if kid == "C22-KF8" and kind == "exc-vs-val" and h.get("exc") == "WasmTrapException" and "divide by zero" in h.get("msg", ""):
            return kid
        if ".trunc_f" in op and ref == "trap:trunc" and kind in ("no-trap",):
            return "C22-KF3"
        if target == "python" and op == "f32.demote_f64" and kind == "value" and str(h.get("gotv", "")).startswith("overflow:"):
            if float(str(h["gotv"])[9:]) == _f("f64", args[0]):
                return "C22-KF9"  # the f64 operand comes back unchanged: not representable as f32
    cp = comp_of(case) if not pr else None
    if cp:
        variant, op, args = cp
        t, name = op.split(".")
        if known_probe(op, args, target) == "C22-KF5" and kind == "value":
            if h.get("gotv") == comp_model(variant, {"eq": 1, "ne": 0, "lt": 1, "le": 1}[name]):
                return "C22-KF5"  # the composition computed on the wrong comparison result
    # structural findings (predicate on the module + outcome class)
    if kind == "inst-exc" and h.get("exc") == "TypeError" and h.get("frame") == "wasm/wasm2ppci.py:gen_end_instruction" and _dead_loop(desc):
        return "C22-KF10"
    has_mem_access = _has_op(desc, lambda o: ".load" in o or ".store" in o)
    if has_mem_access and ref == "trap:oob":
        if target == "native" and (kind == "no-trap" or (kind == "killed" and h.get("status") == "killed:SIGSEGV")):
            return "C22-KF11"
        if target == "python" and kind == "no-trap" and (pr is None or _sgn(pr[1][0], 32) < 0 or not pr[0].startswith(("i", "f"))):
            return "C22-KF11"  # python: only addresses >= 2^31 (negative as i32) escape the heap bounds assertion
    if _has_op(desc, lambda o: o == "call_indirect") and ref in ("trap:indirect", "trap:oob-table"):
        if kind in ("no-trap", "exc-vs-val") or (kind == "killed" and h.get("status") in ("killed:SIGSEGV", "killed:SIGILL", "killed:SIGBUS")):
            return "C22-KF12"
    if target == "native" and ref == "trap:unreachable" and kind in ("no-trap", "inst-no-trap") and _has_op(desc, lambda o: o == "unreachable"):
        return "C22-KF13"
    if target == "python" and h.get("exc") == "NameError" and re.search(r"name '(math|nan|inf)' is not defined", h.get("msg", "")) and _nonfinite_const(desc):
        return "C22-KF14"
    if target == "python" and kind == "global-exc" and h.get("exc") == "KeyError" and h.get("vt") in ("f32", "f64") and h.get("frame", "").endswith("_python_instance.py:read"):
        return "C22-KF15"
    if target == "python" and kind == "inst-exc" and h.get("exc") == "KeyError" and "env_" in h.get("msg", ""):
        nfi = R.n_func_imports(desc)
        if any(fi < nfi for e in desc.get("elems", []) for fi in e["funcs"]):
            return "C22-KF16"
    if _grow_negative(desc) and ref == "i32:-1":
        if target == "python" and kind == "exc-vs-val" and h.get("exc") == "ValueError" and h.get("frame", "").endswith("_python_instance.py:grow"):
            return "C22-KF18"
        if target == "native" and kind == "value":
            return "C22-KF18"
    if case.get("twice") and _has_op(desc, lambda o: o == "br_table") and kind in ("value", "no-trap", "exc-vs-val", "global", "mem-content", "killed"):
        return "C22-KF17"
    # findings that also show inside programs when their exclusion is lifted
    if target == "native" and kind == "killed" and h.get("status") == "killed:SIGFPE" and _has_op(desc, lambda o: o in IDIV):
        return "C22-KF1"
    if ref == "trap:trunc" and kind == "no-trap" and _has_op(desc, lambda o: ".trunc_f" in o):
        return "C22-KF3"
    return None


# ---------------------------------------------------------------------------------------------
# programs


def _nontrivial_program(case, ref):
    if any("trap" in c for c in ref["calls"]) or ref["instantiate"]:
        return True
    for f, args in case["calls"]:
        for t, v in args:
            if (v & ((1 << int(t[1:])) - 1)) in G.BOUNDARY[t]:
                return True
    for fn in case["desc"]["funcs"]:
        for n in R.walk(fn["body"]):
            if n[0].endswith(".const") and (n[1][0] & ((1 << int(n[0][1:3])) - 1)) in G.BOUNDARY[n[0][:3]]:
                return True
    return False


def _program_worker(arg):
    seed, n, target, open_ids, sizes = arg
    preload()
    stats = Stats()
    flags, used = flags_for(target, open_ids)
    for kid in used:
        stats.excluded[kid] += 0
    twice_ok = "twice_br_table" not in flags.no_features

    found = {}  # hash of failing case -> message (shrink cap: see below)
    t_first = [None]

    def prop(case):
        h = core.jhash(case)
        if t_first[0] is not None and time.time() - t_first[0] > sizes["shrink_s"]:
            # shrink budget used up: only cases already known to fail still fail, so that Hypothesis
            # stops at the smallest failure found so far (and its final replay stays consistent)
            return found.get(h)
        msg = _prop(case)
        if msg is not None and not (classify(case, msg) in open_ids):
            found[h] = msg
            if t_first[0] is None:
                t_first[0] = time.time()
        return msg

    def _prop(case):
        pack = reference(case)
        wasm, info, plan, ref = pack
        msg = check_case(case, pack)
        for kid in used:
            stats.excluded[kid] += 1
        feats = sorted(G.features(case["desc"]))
        sample = None
        if len(stats.samples) < 1:
            sample = {"target": target, "wat": R.to_wat(case["desc"])[:1200], "calls": case["calls"],
                      "reference": [c.get("v") or c.get("trap") for c in ref["calls"]]}  # fmt: skip
        classes = ["program:" + target] + ["feat:" + f for f in feats]
        for c in ref["calls"]:
            classes.append("ref:" + ("value" if "v" in c else "trap-" + c["trap"]))
        if ref["instantiate"]:
            classes.append("ref:start-trap")
        stats.case(core.jhash(case), _nontrivial_program(case, ref), sample, classes=classes)
        return msg

    import hypothesis.strategies as st

    base = G.cases(flags, max_funcs=sizes["max_funcs"], fuel=sizes["fuel"], depth=sizes["depth"])

    def finish(c, tw):
        c = dict(c)
        c["target"] = target
        if tw and (twice_ok or "br_table" not in R.ops_of(c["desc"])):
            c["twice"] = True
        return c

    strat = st.builds(finish, base, st.integers(0, 3).map(lambda k: k == 0))
    fails = hyp_search(strat, prop, n, seed, stats, classify=lambda c, m: (classify(c, m) if classify(c, m) in open_ids else None),
                       budget_s=sizes["budget_s"])  # fmt: skip
    if _NODE[0] is not None:
        _NODE[0].close()
        _NODE[0] = None
    return stats, fails


def _mem_worker(arg):
    target, quick, open_ids = arg
    preload()
    stats = Stats()
    fails = []
    oob = 2 if "C22-KF11" not in open_ids else (0 if target == "native" else 1)
    if oob < 2:
        stats.excluded["C22-KF11"] += 1
    case = mem_probe_case(target, quick, oob)
    try:
        wasm, info, plan, ref = reference(case)
    except Discard as d:
        stats.discard(d.reason)
        return stats, fails
    got = run_target(wasm, target, info, plan)
    if got["status"] == "timeout":
        stats.discard("timeout:" + target)
        return stats, fails
    diff = compare(ref, got, plan, info)
    stats.bulk(len(plan), len(plan), {"memprobe:" + target: len(plan)})
    stats.sample({"memory-probe": target, "calls": len(plan), "ops": MEM_OPS, "memory_sha256": ref["mem"]["sha256"]})
    if diff is not None:
        # reduce to the prefix of calls up to the failing one
        upto = diff.get("call")
        small = dict(case, calls=case["calls"][: upto + 1]) if upto is not None else case
        msg = message(target, diff, case["desc"])
        kid = classify(small, msg)
        if kid and kid in open_ids:
            stats.known[kid] += 1
        else:
            fails.append((small, msg))
    if _NODE[0] is not None:
        _NODE[0].close()
        _NODE[0] = None
    return stats, fails


# ---------------------------------------------------------------------------------------------
# sign-chain probes: the result of an integer instruction consumed by a SIGN-SENSITIVE instruction in the same function
# (a target that keeps a result such as INT_MIN in a non-canonical form - say +2^31 - returns the right bit pattern from
# the single-instruction probes, and goes wrong only when the value is used again)

SIGN_PRODUCERS = ("add", "sub", "mul", "shl", "xor", "or", "rotl", "shr_u")
SIGN_CONSUMERS = ("lt_s0", "shr_s1", "div_s2", "ext", "store8", "global")


def sign_desc():
    """-> (desc, [(export, type, producer, consumer)]): one function per (type, producer, consumer): (T, T) -> i32 | i64"""
    desc = {"types": [], "imports": [], "funcs": [], "table": None, "mem": {"min": 1, "max": 1}, "globals": [], "exports": [],
            "start": None, "elems": [], "datas": []}  # fmt: skip
    desc["globals"] = [{"vt": "i32", "mut": True, "init": ["i32.const", [0], []]}, {"vt": "i64", "mut": True, "init": ["i64.const", [0], []]}]
    items = []
    for t in ("i32", "i64"):
        for prod in SIGN_PRODUCERS:
            for cons in SIGN_CONSUMERS:
                if cons == "ext" and t != "i32":
                    continue
                C = ["%s.%s" % (t, prod), [], [["local.get", [0], []], ["local.get", [1], []]]]
                k = lambda v: ["%s.const" % t, [v], []]  # noqa: E731
                out = t
                if cons == "lt_s0":
                    body, out = [["%s.lt_s" % t, [], [C, k(0)]]], "i32"
                elif cons == "shr_s1":
                    body = [["%s.shr_s" % t, [], [C, k(1)]]]
                elif cons == "div_s2":
                    body = [["%s.div_s" % t, [], [C, k(2)]]]
                elif cons == "ext":
                    body, out = [["i64.extend_i32_s", [], [C]]], "i64"
                elif cons == "store8":  # through memory: stored and re-read with sign extension
                    st_op = "%s.store" % t
                    body = [[st_op, [R.natural_align(st_op), 0], [["i32.const", [16], []], C]],
                            ["%s.load8_s" % t, [0, 3 if t == "i32" else 7], [["i32.const", [16], []]]]]
                else:  # through a global
                    gi = 0 if t == "i32" else 1
                    body = [["global.set", [gi], [C]], ["%s.shr_s" % t, [], [["global.get", [gi], []], k(31 if t == "i32" else 63)]]]
                sig = [[t, t], [out]]
                if sig not in desc["types"]:
                    desc["types"].append(sig)
                name = "s%d" % len(items)
                desc["funcs"].append({"type": desc["types"].index(sig), "locals": [], "body": body})
                desc["exports"].append({"name": name, "kind": "func", "idx": len(items)})
                items.append((name, t, prod, cons))
    return desc, items


def _sign_worker(arg):
    target, open_ids = arg
    preload()
    stats = Stats()
    fails = []
    desc, items = sign_desc()
    calls = [[name, [[t, a], [t, b]]] for name, t, prod, cons in items for a in COMP_POOL[t] for b in COMP_POOL[t]
             if not (prod in ("shl", "rotl", "shr_u") and not 0 <= b < 64)]
    case = {"desc": desc, "calls": calls, "target": target}
    try:
        msg = check_case(case)
    except Discard as d:
        stats.discard(d.reason)
        msg = None
    stats.bulk(len(calls), len(calls), {"sign-chain:" + target: len(calls)})
    if msg is not None:
        # narrow the report to one call (each attempt needs its own child processes)
        single, smsg = case, msg
        for c in calls:
            one = dict(case, calls=[c])
            try:
                m = check_case(one)
            except Discard:
                continue
            if m is not None:
                single, smsg = one, m
                break
        kid = classify(single, smsg)
        if kid and kid in open_ids:
            stats.known[kid] += 1
        else:
            fails.append((single, smsg))
    if not stats.samples:
        stats.sample({"sign_chain": target, "functions": len(items), "calls": len(calls)})
    if _NODE[0] is not None:
        _NODE[0].close()
        _NODE[0] = None
    return stats, fails


def _job(arg):
    kind, payload = arg
    if kind == "sign":
        return _sign_worker(payload)
    if kind == "probe":
        return _probe_worker(payload)
    if kind == "mem":
        return _mem_worker(payload)
    if kind == "comp":
        return _comp_worker(payload)
    return _program_worker(payload)


def run(ctx):
    preload()
    open_ids = core.open_finding_ids(PID) - set(os.environ.get("VERIF_ASSUME_FIXED", "").split(","))  # validation of fixes/*.diff
    tier = "quick" if ctx.quick else "full"
    sizes = dict(max_funcs=ctx.scale(3, 4), fuel=ctx.scale(30, 45), depth=ctx.scale(4, 5), budget_s=ctx.scale(150, 1500),
                 shrink_s=ctx.scale(40, 240))  # fmt: skip
    n = ctx.scale(4, 250)
    nprog = ctx.scale(12, 16)
    # one job list, longest jobs first, so that 16 workers stay busy
    jobs = [("program", (subseed(ctx.seed, PID, w), n, TARGETS[w % 2], open_ids, sizes)) for w in range(nprog)]
    jobs += [("mem", (t, ctx.quick, open_ids)) for t in TARGETS]
    jobs += [("sign", (t, open_ids)) for t in TARGETS]
    # unary instructions and conversions cost one call per operand: they get the full pool in the quick tier too
    rest = {t: [v for v in FULL_POOL[t] if v not in QUICK_POOL[t]] for t in FULL_POOL}
    pj = [("probe", (ops, target, tier, open_ids, rest if ctx.quick and len(R.SIG[ops[0]][0]) == 1 else None))
          for target in TARGETS for ops in probe_groups()]
    pj.sort(key=lambda j: -len(j[1][0]) * (8 if len(R.SIG[j[1][0][0]][0]) == 2 else 1))
    jobs += [("comp", (vt, target, tier, open_ids)) for target in TARGETS for vt in ("f64", "f32", "i64", "i32")]
    jobs += pj
    ctx.pmap(_job, jobs)
    ctx.extra["targets_covered"] = list(TARGETS)
    ctx.extra["probe_ops"] = sum(len(g) for g in probe_groups()) + len(MEM_OPS)
    ctx.extra["composition_probes"] = {"comparisons": len(CMP_OPS), "variants": list(COMP_VARIANTS)}
    ctx.extra["rejections_by_feature"] = {k: v for k, v in ctx.stats.discarded.items() if k.startswith("rejected:")}
