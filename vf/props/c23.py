"""C23 - IR to WebAssembly translation preserves behaviour (ppci.wasm.ir_to_wasm vs vf/irsem.py, executed by V8)."""

import contextlib
import io
import re
import struct
import traceback

from hypothesis import strategies as st

from .. import genir, irsem
from ..core import Discard, HarnessError, Stats, hyp_search, subseed
from ..irpasses import innermost_ppci_frame

PID = "C23"
REGISTER = True
RULE = (
    "Hypothesis-generated IR modules (vf/genir.py, 32-bit pointers; structured and unstructured CFGs incl. permuted block "
    "order, two-exit and nested loops, irreducible entries; globals with initial data; direct, external and indirect calls "
    "through function pointers; self tail calls) in five variants - main (instruction menu restricted to what ir_to_wasm "
    "implements), static_data (initial data and literals left as static data -> wasm data segments), same_target_cjmp, "
    "full_menu (everything genir can produce: measures the rejection classes) - and C units from vf/gencc.py compiled the way "
    "the repository's wasm sample test does it (c_to_ir(src, 'arm'), optimisation level 0; gencc's LP64 type model does "
    "not matter because the oracle is the IR the front-end produced, not gcc). Every module is instrumented IN IR with "
    "caller buffers as globals, byte/word reader functions for every global (ir_to_wasm exports no memory) and - unless "
    "variant static_data - a c23_init() procedure that stores the initial data; the SAME instrumented module is run by "
    "the reference interpreter vf/irsem.py (two memory layouts, address dependent parts masked) and, after "
    "ir_to_wasm(m).to_bytes(), by V8 (vf/irnode.js: fresh instance per call; externals are host imports 'js.<name>' that log "
    "their arguments and return irsem's ext_default value). Compared per call: return value (reduced to the ir type), "
    "external call trace, every byte of every global and buffer. Executions undefined in IR terms are not run. ANY "
    "exception of ir_to_wasm is a rejection (acceptable, counted by exception type / innermost ppci frame / message "
    "class); a translated module that V8 does not validate or instantiate, traps, hangs or observes differently is a failure. "
    "non-trivial = translated AND at least one defined call executed and compared; distinct = (module or source, calls, init mode)"
)
ASSUMPTIONS = [
    "IR semantics of DESIGN.md 3.1 (vf/irsem.py), 32-bit little-endian; external routines are pure functions of (name, arguments, call index)",
    "sub-word and u32 values cross the export boundary in the wasm type ppci chose (i8..i32, ptr -> i32; u32, i64, u64 -> i64); arguments are passed sign/zero extended by their ir type and results are reduced to the ir type before comparison",
    "NaN sign/payload is not compared (return values as a class; memory words that hold a NaN on both sides are equal)",
    "the translated module has a virtual stack of 1000 bytes: an out-of-bounds trap is discarded only when the static frame bound of the call chain exceeds it",
    "C programs: optimisation level 0 only, as in test/samples/test_samples_on_wasm.py",
]
TRUSTED = ["CPython", "Hypothesis", "vf/irsem.py (reference interpreter)", "vf/genir.py", "vf/gencc.py", "Node/V8 WebAssembly engine (vf/irnode.js, vf/irnode.py)"]
TECHNIQUE = "differential: ir_to_wasm output executed by V8 vs reference IR interpreter on Hypothesis-generated IR modules and C programs; rejections counted by class"
LEVEL_TEXT = (
    "Exploration with a differential oracle: for generated IR modules and front-end produced modules of generated C programs "
    "the binary produced by ir_to_wasm is validated, instantiated and executed by V8 and compared call by call with an "
    "independent IR interpreter on return value, external call trace and all global memory (read back through generated IR "
    "reader functions). Rejections are counted by class so that a translator that rejects a whole feature is visible. The "
    "translator is a deterministic function of the module, so generated-input search is the fitting level; no bound is closed."
)

FUEL = 20000
TIMEOUTS = (12.0, 45.0)  # seconds: first attempt, retry in a fresh node process (a defined execution needs < FUEL ir steps)
STACKSIZE = 1000  # ppci2wasm: IrToWasmCompiler.STACKSIZE, the whole virtual stack of a translated module
WTY = {"i8": "i32", "u8": "i32", "i16": "i32", "u16": "i32", "i32": "i32", "ptr": "i32",
       "u32": "i64", "i64": "i64", "u64": "i64", "f32": "f32", "f64": "f64"}
BUF_BYTES = bytes(range(16, 32))
PREFIX = "c23_"


# ---------------------------------------------------------------------------
# what ir_to_wasm implements (read off ppci2wasm.py's tables and confirmed by probing): the generator profile for
# the main population stays inside it; a share of the cases uses the full menu so that the rejection classes are measured

NARROW = ("i8", "u8", "i16", "u16", "u32")  # ir types narrower than the wasm type ppci keeps them in (u32 lives in an i64)


def _wasm_forbidden(exclude=()):
    """(kind, type, op) triples outside what ir_to_wasm implements, plus the shapes of the open findings in `exclude`."""
    ints = genir.INT_TYPES
    out = []
    for t in ("i64", "u64"):
        for op in ("&", "|", "^", "<<", ">>"):
            out.append(("binop", t, op))
    for t in ints:
        out.append(("unop", t, "~"))
        if t[0] == "u":
            out.append(("unop", t, "-"))
    ok = set()
    for a in ("i64", "u64"):
        for b in ("i64", "u64"):
            ok.add((a, b))
    ok |= {("u32", "i64"), ("u32", "u64"), ("u64", "u32"), ("i64", "u32"), ("i32", "i32"), ("u32", "u32")}
    for n in ("i8", "u8", "i16", "u16"):
        ok |= {("i32", n), (n, "i32"), ("u32", n), (n, "u32")}
    for f in ("f32", "f64"):
        for i in ("i32", "u32", "i64", "u64"):
            ok |= {(f, i), (i, f)}
    ok |= {("f64", "f32"), ("f32", "f64"), ("i32", "i64"), ("i32", "u64"), ("u64", "i32"), ("i64", "i32"), ("i32", "u32"), ("u32", "i32")}
    if "KF1" in exclude:
        # results of narrow arithmetic and of casts into narrow types keep the bits above the type's width
        for t in NARROW:
            for op in ("+", "-", "*", "<<"):
                out.append(("binop", t, op))
            out.append(("unop", t, "-"))
        for a in list(ok):
            if a[1] in NARROW and not (a[0] in ("u8", "u16") and a[1] == "u32"):
                ok.discard(a)
    if "KF3" in exclude:
        ok.discard(("u32", "f32"))
    if "KF4" in exclude:
        ok.discard(("i32", "u64"))
    if "KF2" in exclude:
        for a in list(ok):
            if a[0] in ("f32", "f64") and a[1] not in ("f32", "f64"):
                ok.discard(a)
    allt = ints + genir.FLOAT_TYPES
    for a in allt:
        for b in allt:
            if (a, b) not in ok:
                out.append(("cast", a, b))
    return out


def wasm_profile(exclude=(), **kw):
    base = dict(name="c23", ptr_bits=32, rotates=False, copyblob=False, global_refs=False, forbidden=_wasm_forbidden(exclude),
                permute_blocks=True, max_funcs=3, max_blocks=8, distinct_cjmp_targets=True, obs_type="i64", literals=False, indirect_boost=2, observe_pct=60, swap_cjmp_arms=50, ptr_int_casts=False, nonfinite=True, nonfinite_args=True)
    base.update(kw)
    return genir.Profile(**base)


PROFILE = wasm_profile()
PROFILE_FULL = genir.Profile(name="c23-full", ptr_bits=32, permute_blocks=True)


# ---------------------------------------------------------------------------
# instrumentation of an ir.Module (both sides execute the SAME instrumented module)

def _mk_function(m, name, ret_ty, params):
    from ppci import ir

    f = ir.Function(name, ir.Binding.GLOBAL, ret_ty) if ret_ty is not None else ir.Procedure(name, ir.Binding.GLOBAL)
    ps = []
    for pn, pty in params:
        p = ir.Parameter(pn, pty)
        f.add_parameter(p)
        ps.append(p)
    b = ir.Block(name + "_b")
    f.entry = b
    f.add_block(b)
    m.add_function(f)
    return f, b, ps


def instrument(m, nbufs, init_mode):
    """Adds to module m: caller buffers as globals (+ functions handing out their addresses), reader functions for
    every global, and - init_mode 'stores' - a procedure c23_init that writes the initial data of every global
    (whose static initialisers are removed).  Returns {"globals": [(name, size)], "init": bool}."""
    from ppci import ir

    for k in range(nbufs):
        m.add_variable(ir.Variable("%sbuf%d" % (PREFIX, k), ir.Binding.GLOBAL, 16, 8, value=(BUF_BYTES,)))
    variables = list(m.variables)
    symbols = {}
    for x in list(m.externals) + list(m.functions) + variables:
        symbols[x.name] = x
    has_init = False
    if init_mode == "stores":
        f, b, _ = _mk_function(m, PREFIX + "init", None, [])
        n = 0
        for v in variables:
            if not v.value:
                continue
            pos = 0
            for part in v.value:
                if isinstance(part, bytes):
                    i = 0
                    while i < len(part):
                        if len(part) - i >= 4:
                            val = ir.Const(struct.unpack("<i", part[i:i + 4])[0], "w%d" % n, ir.i32)
                            step = 4
                        else:
                            val = ir.Const(part[i], "w%d" % n, ir.u8)
                            step = 1
                        b.add_instruction(val)
                        off = ir.Const(pos + i, "o%d" % n, ir.ptr)
                        b.add_instruction(off)
                        a = ir.Binop(v, "+", off, "a%d" % n, ir.ptr)
                        b.add_instruction(a)
                        b.add_instruction(ir.Store(val, a))
                        n += 1
                        i += step
                    pos += len(part)
                elif isinstance(part, tuple) and part[0] is ir.ptr and part[1] in symbols:
                    off = ir.Const(pos, "o%d" % n, ir.ptr)
                    b.add_instruction(off)
                    a = ir.Binop(v, "+", off, "a%d" % n, ir.ptr)
                    b.add_instruction(a)
                    b.add_instruction(ir.Store(symbols[part[1]], a))
                    n += 1
                    pos += 4
                else:
                    raise Discard("initialiser part not modelled")
            v.value = None
        b.add_instruction(ir.Exit())
        has_init = True
    for k in range(nbufs):
        v = symbols["%sbuf%d" % (PREFIX, k)]
        f, b, _ = _mk_function(m, "%saddr%d" % (PREFIX, k), ir.ptr, [])
        b.add_instruction(ir.Return(v))
    for v in variables:
        for width, lty in ((8, ir.u8), (32, ir.i32)):
            if width == 32 and v.amount < 4:
                continue
            f, b, (p,) = _mk_function(m, "%srd%d_%s" % (PREFIX, width, v.name), ir.i32, [("off", ir.i32)])
            pc = ir.Cast(p, "pc", ir.ptr)
            a = ir.Binop(v, "+", pc, "a", ir.ptr)
            x = ir.Load(a, "x", lty)
            b.add_instruction(pc)
            b.add_instruction(a)
            b.add_instruction(x)
            if lty is not ir.i32:
                r = ir.Cast(x, "r", ir.i32)
                b.add_instruction(r)
                x = r
            b.add_instruction(ir.Return(x))
    return {"globals": [(v.name, v.amount) for v in variables], "init": has_init}


def reader_calls(info):
    """[(export, offset, nbytes)] covering every byte of every global."""
    out = []
    for name, size in info["globals"]:
        off = 0
        while size - off >= 4:
            out.append(("%srd32_%s" % (PREFIX, name), name, off, 4))
            off += 4
        while off < size:
            out.append(("%srd8_%s" % (PREFIX, name), name, off, 1))
            off += 1
    return out


# ---------------------------------------------------------------------------
# building the module of a case

def build_module(case):
    """-> (ir.Module, nbufs).  Raises Discard when a front-end rejects the source."""
    if "module" in case:
        try:
            m = genir.build(case["module"])
        except Exception:
            raise HarnessError("generator produced an unbuildable module:\n" + traceback.format_exc())
    else:
        from ppci.api import c_to_ir

        try:
            with contextlib.redirect_stdout(io.StringIO()):
                m = c_to_ir(io.StringIO(case["src"]), "arm")
        except Exception as e:
            raise Discard("front-end rejects or crashes: %s" % type(e).__name__)
    nb = 0
    for fname, args in case["calls"]:
        nb = max(nb, sum(1 for a in args if isinstance(a, list)))
    return m, nb


def frame_bound(m):
    """Upper bound of the virtual stack a call chain may need (every function active up to 6 times: the generator's
    self-recursive functions recurse at most 5 deep and only call earlier functions)."""
    from ppci import ir

    total = 0
    for f in m.functions:
        fr = 0
        for b in f.blocks:
            for ins in b.instructions:
                if isinstance(ins, ir.Alloc):
                    fr += ins.amount + max(ins.alignment, 8)
        total += 6 * fr
    return total


# ---------------------------------------------------------------------------
# reference side

def reference(m, info, fname, args):
    """irsem observation of [c23_init();] fname(args) under both layouts, merged."""
    out = []
    for layout in (0, 1):
        mach = irsem.Machine(m, 32, True, layout, FUEL)
        if info["init"]:
            mach.call(PREFIX + "init", [])
        conv = []
        for a in args:
            if isinstance(a, list):
                conv.append(mach.globals["%sbuf%d" % (PREFIX, a[1])].base)
            elif isinstance(a, str):
                conv.append(genir.unfhex(a))
            else:
                conv.append(a)
        ret = mach.call(fname, conv)
        out.append(mach.observe(ret))
    return irsem.merge_layouts(out[0], out[1])


# ---------------------------------------------------------------------------
# wasm side

_NODE = None


def node():
    global _NODE
    if _NODE is None:
        from ..irnode import IrNodeRunner

        _NODE = IrNodeRunner(timeout_s=TIMEOUTS[0])
    return _NODE


def close_node():
    global _NODE
    if _NODE is not None:
        _NODE.close()
        _NODE = None


def translate(m):
    """-> wasm bytes; raises Rejected."""
    from ppci.wasm import ir_to_wasm

    try:
        with contextlib.redirect_stdout(io.StringIO()):
            w = ir_to_wasm(m)
            return w.to_bytes()
    except RecursionError as e:
        raise Rejected("RecursionError", innermost_ppci_frame(e), "")
    except Exception as e:
        raise Rejected(type(e).__name__, innermost_ppci_frame(e), str(e))


class Rejected(Exception):
    def __init__(self, etype, frame, msg):
        super().__init__(etype)
        self.etype, self.frame, self.msg = etype, frame, msg

    def klass(self):
        if self.etype == "RecursionError":
            return "rejected:RecursionError:graph/relooper.py (structuring does not terminate)"
        head = re.split(r"[(\[]", self.msg, maxsplit=1)[0].strip()
        if not re.fullmatch(r"[A-Z][A-Z0-9]+", head):  # not a selection-tree operator name: drop the variable parts
            head = re.sub(r"CFG-node.*", "CFG-node", head)
            head = re.sub(r"[0-9]+", "N", head)[:60].strip()
        return "rejected:%s:%s:%s" % (self.etype, self.frame, head)


def wasm_arg(ty, a):
    """ir-typed python value -> (wasm type, wire value)"""
    w = WTY[ty]
    if ty in ("f32", "f64"):
        x = genir.unfhex(a) if isinstance(a, str) else float(a)
        if ty == "f32":
            return (w, struct.unpack("<I", struct.pack("<f", irsem.round_f32(x)))[0])
        return (w, struct.unpack("<Q", struct.pack("<d", x))[0])
    bits = 32 if ty == "ptr" else genir.BITS[ty]
    return (w, irsem.norm_int(int(a), bits, ty[0] == "i"))


def ret_obs(ty, v):
    """wasm result -> the value irsem's observation has for a result of ir type ty"""
    if ty is None:
        return None
    if v == "nan":
        return "nan"
    if ty == "f32":
        x = struct.unpack("<f", struct.pack("<I", v))[0]
        return "nan" if x != x else "f:" + struct.pack(">d", x).hex()
    if ty == "f64":
        x = struct.unpack("<d", struct.pack("<Q", v))[0]
        return "nan" if x != x else "f:" + struct.pack(">d", x).hex()
    if ty == "ptr":
        return v & 0xFFFFFFFF
    return irsem.norm_int(v, genir.BITS[ty], ty[0] == "i")


def ext_specs(m):
    from ppci import ir

    out = []
    for e in m.externals:
        if isinstance(e, ir.ExternalSubRoutine):
            out.append({"name": e.name, "args": [t.name for t in e.argument_types],
                        "ret": e.return_ty.name if isinstance(e, ir.ExternalFunction) else None})
    return out


def run_wasm(wasm, exts, groups):
    """One node job, a retry with a long time-out when the first attempt does not answer."""
    from ..irnode import NodeError, NodeTimeout

    for attempt, tmo in enumerate(TIMEOUTS):
        try:
            return node().run_groups(wasm, ext=exts, groups=groups, timeout_s=tmo)
        except NodeTimeout:
            close_node()
            if attempt == 1:
                return None
        except NodeError as e:
            close_node()
            if attempt == 1:
                raise HarnessError("node runner: %s" % e)
    return None


# ---------------------------------------------------------------------------
# one case

def run_case(case, stats=None):
    """-> (failure message | None, info dict)"""
    info = {"translated": False, "executed": 0, "classes": [], "reject": None}
    m_ref, nbufs = build_module(case)
    m_tr, _ = build_module(case)
    if _ptr_to_int(m_ref):
        raise Discard("pointer -> integer cast (outside the domain: irsem's two layouts cannot vouch for address independence at wasm's small addresses)")
    init_mode = case.get("init", "stores")
    has_data = any(v.value for v in m_ref.variables) or nbufs > 0
    ins = instrument(m_ref, nbufs, init_mode)
    instrument(m_tr, nbufs, init_mode)
    info["classes"] = module_classes(m_ref, case)
    if has_data:
        info["classes"].append("globals_with_initial_data:" + ("data_segment" if init_mode == "data" else "written_by_c23_init"))
    if init_mode == "data" and (has_data or "literal_data" in info["classes"]):
        info["classes"].append("needs_data_segment")
    byname = {f.name: f for f in m_ref.functions}
    # reference first: calls whose execution is undefined in IR terms are not run at all
    refs = []
    for fname, args in case["calls"]:
        if fname not in byname:
            refs.append(None)
            continue
        try:
            obs = reference(m_ref, ins, fname, args)
        except irsem.Undef as e:
            if stats is not None:
                stats.discard("irsem undefined: " + e.reason)
            refs.append(None)
            continue
        except irsem.Unsupported as e:
            if stats is not None:
                stats.discard("irsem unsupported: " + e.reason)
            refs.append(None)
            continue
        if any(a == "ADDR" for _, targs in obs["trace"] for a in targs):
            if stats is not None:
                stats.discard("address passed to an external")
            refs.append(None)
            continue
        refs.append(obs)
    try:
        wasm = translate(m_tr)
    except Rejected as r:
        info["reject"] = r
        return None, info
    info["translated"] = True
    readers = reader_calls(ins)
    groups = []
    index = []
    for (fname, args), ref in zip(case["calls"], refs):
        if ref is None:
            continue
        f = byname[fname]
        g = []
        if ins["init"]:
            g.append((PREFIX + "init", [], None))
        base = len(g)
        for k in range(nbufs):
            g.append(("%saddr%d" % (PREFIX, k), [], "i32"))
        wargs = []
        for a, p in zip(args, f.arguments):
            if isinstance(a, list):
                wargs.append(("ref", base + a[1]))
            else:
                wargs.append(wasm_arg(p.ty.name, a))
        rty = None if _is_procedure(f) else f.return_ty.name
        g.append((fname, wargs, WTY[rty] if rty else None))
        pos = len(g) - 1
        for rname, gname, off, nbytes in readers:
            g.append((rname, [("i32", off)], "i32"))
        groups.append(g)
        index.append((fname, args, ref, rty, pos))
    if not groups:
        # still ask V8 to validate and instantiate the module
        groups_to_run = [[]]
    else:
        groups_to_run = groups
    ans = run_wasm(wasm, ext_specs(m_tr), groups_to_run)
    if ans is None:
        if not groups:
            raise Discard("node time-out")
        return "V8 does not finish executing the translated module (two attempts, %d s and %d s) although every call terminates within %d IR steps" % (TIMEOUTS[0], TIMEOUTS[1], FUEL), info
    if ans["compile"]:
        return "ir_to_wasm output does not validate in V8: %s" % ans["compile"][:300], info
    for g in ans["groups"]:
        if g["inst"]:
            return "ir_to_wasm output cannot be instantiated: %s" % (g["inst"],), info
    bound = frame_bound(m_ref)
    for gi, ((fname, args, ref, rty, pos), g) in enumerate(zip(index, ans["groups"])):
        calls = g["calls"]
        trap = [c for c in calls if "trap" in c]
        where = "%s%r" % (fname, args)
        if trap:
            t = trap[0]
            at = groups[gi][len(calls) - 1][0]
            if t["trap"] in ("oob", "exhaustion") and bound > STACKSIZE - 100:
                if stats is not None:
                    stats.discard("virtual stack of 1000 bytes may be exhausted")
                continue
            return "%s: V8 traps (%s: %s) in %s; the IR execution is defined and returns %r" % (where, t["trap"], t["msg"][:80], at, ref["ret"]), info
        info["executed"] += 1
        got = ret_obs(rty, calls[pos]["v"])
        if ref["ret"] != "ADDR" and ref["ret"] != got:
            return "%s: return value: IR semantics %r, wasm %r" % (where, ref["ret"], got), info
        if len(ref["trace"]) != len(g["trace"]) or any(
            n != n2 or len(xa) != len(xb) or any(p != "ADDR" and p != q for p, q in zip(xa, xb))
            for (n, xa), (n2, xb) in zip(ref["trace"], g["trace"])
        ):
            return "%s: external call trace: IR semantics %r, wasm %r" % (where, ref["trace"], g["trace"]), info
        mem = {}
        for (rname, gname, off, nbytes), c in zip(readers, calls[pos + 1:]):
            mem.setdefault(gname, []).append((c["v"] & 0xFFFFFFFF).to_bytes(4, "little")[:nbytes])
        for gname, parts in mem.items():
            hx = b"".join(parts).hex()
            want = ref["globals"][gname]
            if not irsem._hex_match(want, hx) and not _nan_only(want, hx):
                return "%s: memory of global %s after the call: IR semantics %s, wasm %s" % (where, gname, want, hx), info
    return None, info


def _nan_only(want, got):
    """True when the two memory images differ only where both hold a NaN of the same float format (the sign and
    payload of a NaN produced by an operation are not defined by IR semantics; V8 and CPython choose differently)."""
    if len(want) != len(got):
        return False
    a = [want[i:i + 2] for i in range(0, len(want), 2)]
    b = [got[i:i + 2] for i in range(0, len(got), 2)]
    explained = [x == y or x == "??" for x, y in zip(a, b)]
    for size, expmask, manmask in ((8, 0x7FF0000000000000, 0x000FFFFFFFFFFFFF), (4, 0x7F800000, 0x007FFFFF)):
        for off in range(0, len(a) - size + 1):
            if all(explained[off:off + size]) or "??" in a[off:off + size]:
                continue
            x = int.from_bytes(bytes.fromhex("".join(a[off:off + size])), "little")
            y = int.from_bytes(bytes.fromhex("".join(b[off:off + size])), "little")
            if all((v & expmask) == expmask and (v & manmask) for v in (x, y)):
                for k in range(off, off + size):
                    explained[k] = True
    return all(explained)


def _ptr_to_int(m):
    from ppci import ir

    for f in m.functions:
        for b in f.blocks:
            for ins in b.instructions:
                if isinstance(ins, ir.Cast) and ins.src.ty is ir.ptr and ins.ty is not ir.ptr:
                    return True
    return False


def _is_procedure(f):
    from ppci import ir

    return isinstance(f, ir.Procedure)


# ---------------------------------------------------------------------------
# classes for evidence

def module_classes(m, case):
    from ppci import ir

    cl = set()
    cl.add("source:" + ("genir" if "module" in case else "c_to_ir"))
    cl.add("init:" + case.get("init", "stores"))
    if m.externals:
        cl.add("externals")
    for f in m.functions:
        if f.name.startswith(PREFIX):
            continue
        blocks = list(f.blocks)
        idx = {b: i for i, b in enumerate(blocks)}
        if f.entry not in idx:
            continue
        order = [f.entry] + [b for b in blocks if b is not f.entry]
        idx = {b: i for i, b in enumerate(order)}
        succs = [[idx[s] for s in b.successors if s in idx] for b in order]
        dom, preds = genir.dominators(len(order), succs)
        back = [(i, s) for i, ss in enumerate(succs) for s in ss if s in dom[i]]
        # retreating edges that are not back edges: a cycle entered at more than one place
        seen, stack, retreat = {}, [(0, iter(succs[0]))], []
        seen[0] = 1
        while stack:
            n, it = stack[-1]
            for s in it:
                if s not in seen:
                    seen[s] = 1
                    stack.append((s, iter(succs[s])))
                    break
                if seen[s] == 1:
                    retreat.append((n, s))
            else:
                seen[n] = 2
                stack.pop()
        if any(e not in back for e in retreat):
            cl.add("cfg:irreducible")
        if back:
            cl.add("cfg:loop")
            headers = {h for _, h in back}
            if len(headers) > 1:
                cl.add("cfg:several_loops")
            for h in headers:
                body = {h}
                work = [t for t, hh in back if hh == h]
                while work:
                    x = work.pop()
                    if x not in body:
                        body.add(x)
                        work.extend(preds[x])
                exits = {s for b in body for s in succs[b] if s not in body}
                if len(exits) >= 2:
                    cl.add("cfg:loop_with_two_exits")
                if any(h2 != h and h2 in body for h2 in headers):
                    cl.add("cfg:nested_loops")
        elif any(len(ss) == 2 for ss in succs):
            cl.add("cfg:branches")
        for b in blocks:
            for ins in b.instructions:
                if isinstance(ins, (ir.FunctionCall, ir.ProcedureCall)):
                    if isinstance(ins.callee, (ir.SubRoutine, ir.ExternalSubRoutine)):
                        cl.add("call:direct" if isinstance(ins.callee, ir.SubRoutine) else "call:external")
                    else:
                        cl.add("call:indirect")
                elif isinstance(ins, ir.Phi):
                    cl.add("phi")
                elif isinstance(ins, ir.Alloc):
                    cl.add("alloca")
                elif isinstance(ins, ir.LiteralData):
                    cl.add("literal_data")
    return sorted(cl)


def replay(case):
    try:
        return run_case(case)[0]
    finally:
        close_node()


# ---------------------------------------------------------------------------
# open findings: shapes (for exclusion and classification)

KF_ALL = ("KF1", "KF2", "KF3", "KF4", "KF5", "KF6", "KF7", "KF8")
_SAME_SIZE_SIGN = {("i8", "u8"), ("u8", "i8"), ("i16", "u16"), ("u16", "i16")}
_WIDENING = {("i8", "i32"), ("u8", "i32"), ("i16", "i32"), ("u16", "i32"), ("u8", "u32"), ("u16", "u32")}


def open_kfs():
    """Short ids of the findings to steer away from: the open ones, minus $VERIF_C23_NOEXCLUDE (comma separated short
    ids, or 'all'): used to validate a fix, e.g. VERIF_C23_NOEXCLUDE=KF1 tools/withpatch.sh fixes/C23-narrow-wrap.diff -- ./check C23 quick"""
    import os

    from ..core import open_finding_ids

    ids = {i.split("-")[1] for i in open_finding_ids(PID)}
    off = os.environ.get("VERIF_C23_NOEXCLUDE", "")
    if off == "all":
        return ()
    return tuple(sorted(ids - set(x.strip() for x in off.split(","))))


def hazards(m):
    """Short ids of the value-level findings whose triggering instruction occurs in module m."""
    from ppci import ir

    hz = set()
    for f in m.functions:
        if f.name.startswith(PREFIX):
            continue
        for b in f.blocks:
            for ins in b.instructions:
                ty = getattr(ins, "ty", None)
                tn = ty.name if ty is not None and hasattr(ty, "name") else None
                if isinstance(ins, ir.Binop) and tn in NARROW and ins.operation in ("+", "-", "*", "<<"):
                    hz.add("KF1")
                elif isinstance(ins, ir.Unop) and tn in NARROW:
                    hz.add("KF1")
                elif isinstance(ins, ir.Cast):
                    sn = ins.src.ty.name
                    if (sn, tn) in _SAME_SIZE_SIGN:
                        hz.add("KF8")
                    elif tn in NARROW and sn != tn and sn != "ptr" and (sn, tn) not in _WIDENING:
                        hz.add("KF1")  # (ptr -> u32 sign-extends too, but addresses are far below 2^31)
                    if sn in ("f32", "f64") and tn not in ("f32", "f64"):
                        hz.add("KF2")
                    if (sn, tn) == ("u32", "f32"):
                        hz.add("KF3")
                    if (sn, tn) == ("i32", "u64"):
                        hz.add("KF4")
                elif isinstance(ins, ir.Const) and tn == "u64" and isinstance(ins.value, int) and ins.value >= 1 << 63:
                    hz.add("KF5")
    return hz


def phi_on_branch_edge(desc):
    for f in desc["functions"]:
        phib = set(b["name"] for b in f["blocks"] if b["ins"] and b["ins"][0][0] == "phi")
        for b in f["blocks"]:
            t = b["ins"][-1]
            if t[0] == "cjmp" and t[4] != t[5] and (t[4] in phib or t[5] in phib):
                return True
    return False


def shadow_phis(desc):
    """Semantics-preserving and CFG-preserving: every phi p gets a copy 't = p + 0' (floats: 'p * 1.0') right after the
    phis of its block and every other use of p - phi inputs included - reads t.  C23-KF7 overwrites the register of p
    at the end of a predecessor also when the other branch is taken; after the rewrite nothing reads that register
    except the copy at the top of p's own block, where it is valid.  -> (description, number of phis rewritten)"""
    import copy

    desc = copy.deepcopy(desc)
    n = 0
    for f in desc["functions"]:
        ren = {}
        for b in f["blocks"]:
            k = 0
            while k < len(b["ins"]) and b["ins"][k][0] == "phi":
                k += 1
            extra = []
            for ins in b["ins"][:k]:
                p, ty = ins[1], ins[2]
                t, c = p + "_s", p + "_sc"
                if ty in ("f32", "f64"):
                    extra += [["const", c, ty, genir.fhex(1.0)], ["binop", t, ty, p, "*", c]]
                else:  # '|' where ir_to_wasm has it (it cannot wrap: no C23-KF1 shape), '+' for the 64 bit types
                    extra += [["const", c, ty, 0], ["binop", t, ty, p, "+" if ty in ("i64", "u64") else "|", c]]
                ren[p] = t
                n += 1
            b["ins"][k:k] = extra
        if not ren:
            continue
        shadows = set(ren.values())
        r = lambda x: ren.get(x, x) if isinstance(x, str) else x
        for b in f["blocks"]:
            for ins in b["ins"]:
                k = ins[0]
                if k == "binop":
                    if ins[1] in shadows:
                        continue
                    ins[3], ins[5] = r(ins[3]), r(ins[5])
                elif k == "unop":
                    ins[4] = r(ins[4])
                elif k in ("cast", "load"):
                    ins[3] = r(ins[3])
                elif k in ("store", "copy"):
                    ins[1], ins[2] = r(ins[1]), r(ins[2])
                elif k == "call":
                    ins[3] = r(ins[3])
                    ins[4] = [r(a) for a in ins[4]]
                elif k == "phi":
                    ins[3] = {bn: r(v) for bn, v in ins[3].items()}
                elif k == "cjmp":
                    ins[1], ins[3] = r(ins[1]), r(ins[3])
                elif k == "ret":
                    ins[1] = r(ins[1])
    return desc, n


def steer(desc, exclude, excluded=None, restricted=True):
    """Generator-side exclusion of open findings that cannot be expressed as a Profile restriction."""
    if restricted:
        # genir guards variable divisors with 'x | 1' without asking the profile; ir_to_wasm has no 64 bit '|' and one
        # such instruction rejects the whole module (20 % of the restricted population): use 'x + 1' there
        for f in desc["functions"]:
            for b in f["blocks"]:
                for ins in b["ins"]:
                    if ins[0] == "binop" and ins[2] in ("i64", "u64") and ins[4] == "|":
                        ins[4] = "+"
    if "KF7" in exclude and phi_on_branch_edge(desc):
        desc, n = shadow_phis(desc)
        if n and excluded is not None:
            excluded["C23-KF7"] += 1
    if "KF5" in exclude:
        for f in desc["functions"]:
            for b in f["blocks"]:
                for ins in b["ins"]:
                    if ins[0] == "const" and ins[2] == "u64" and ins[3] >= 1 << 63:
                        ins[3] -= 1 << 63
                        if excluded is not None:
                            excluded["C23-KF5"] += 1
    return desc


def _reachable(m, fname):
    """Functions of m that a call of fname can execute (all of them when fname is unknown; every function whose
    address is taken somewhere as soon as an indirect call is reachable)."""
    from ppci import ir

    byname = {f.name: f for f in m.functions}
    if fname not in byname:
        return list(m.functions)
    taken = set()
    for f in m.functions:
        for b in f.blocks:
            for ins in b.instructions:
                if isinstance(ins, ir.Store) and isinstance(ins.value, ir.SubRoutine):
                    taken.add(ins.value.name)
    for v in m.variables:
        for part in v.value or ():
            if isinstance(part, tuple) and part[1] in byname:
                taken.add(part[1])
    seen, work = set(), [fname, PREFIX + "init"]
    while work:
        n = work.pop()
        if n in seen or n not in byname:
            continue
        seen.add(n)
        for b in byname[n].blocks:
            for ins in b.instructions:
                if isinstance(ins, (ir.FunctionCall, ir.ProcedureCall)):
                    if isinstance(ins.callee, ir.SubRoutine):
                        work.append(ins.callee.name)
                    elif not isinstance(ins.callee, ir.ExternalSubRoutine):
                        work.extend(taken)
    return [byname[n] for n in seen]


def classify(case, msg):
    """Attribute a failure to an open finding: the triggering shape is in the module AND the failure is of the kind
    the finding produces (validation message of the very opcode / a semantic difference that disappears under the
    semantics-preserving rewrite that removes the shape)."""
    try:
        m, _ = build_module(case)
    except Exception:
        return None
    semantic = any(k in msg for k in (": return value:", ": external call trace:", ": memory of global", "V8 traps", "does not finish"))
    hz = hazards(m)
    if "does not validate" in msg:
        if "KF3" in hz and "f32.convert_i32_u" in msg:
            return "C23-KF3"
        if "KF5" in hz and "extra bits in varint" in msg:
            return "C23-KF5"
        return None
    if not semantic:
        return None
    reach = _reachable(m, msg.split("[", 1)[0])
    try:
        # look at the control flow graph ir_to_wasm structures: with fixes/C23-phi-edges.diff it first gives every
        # branch edge into a phi block a block of its own (m is a private copy)
        from ppci.wasm import ppci2wasm

        if hasattr(ppci2wasm, "split_phi_edges"):
            for f in reach:
                ppci2wasm.split_phi_edges(f)
    except Exception:
        pass
    if any(dropped_edges(f) for f in reach):
        return "C23-KF6"
    if "module" in case and phi_on_branch_edge(case["module"]):
        c2 = dict(case)
        c2["module"] = shadow_phis(case["module"])[0]
        try:
            if run_case(c2)[0] is None:
                return "C23-KF7"
        except Exception:
            pass
    for k in ("KF8", "KF1", "KF2", "KF4"):
        if k in hz:
            return "C23-" + k
    return None


# ---------------------------------------------------------------------------
# search

def full_profile(exclude=()):
    """Full instruction menu (what ir_to_wasm does not implement is REJECTED and counted by class) minus the shapes
    of the open findings."""
    forb = [x for x in _wasm_forbidden(exclude) if x not in set(_wasm_forbidden(()))]
    if "KF8" in exclude:
        forb += [("cast", a, b) for a, b in sorted(_SAME_SIZE_SIGN)]
    return genir.Profile(name="c23-full", ptr_bits=32, permute_blocks=True, obs_type="i64", indirect_boost=2, observe_pct=60, swap_cjmp_arms=50, ptr_int_casts=False, forbidden=forb, nonfinite=True, nonfinite_args=True)


def calls_for(draw, desc, profile):
    calls = []
    for f in desc["functions"]:
        for _ in range(draw(st.integers(1, 2))):
            calls.append([f["name"], draw(genir.arg_strategy(f, profile))])
    return calls


@st.composite
def ir_case_strategy(draw, profile=PROFILE, exclude=(), init="stores", excluded=None, variant="main"):
    desc = steer(draw(genir.modules(profile)), exclude, excluded, restricted=(variant != "full_menu"))
    return {"module": desc, "calls": calls_for(draw, desc, profile), "init": init, "variant": variant}


@st.composite
def c_case_strategy(draw, exclude=()):
    from .. import gencc

    opt = gencc.Options(max_funcs=3, max_stmts=5, structs=False, floats="KF2" not in exclude, switch=False)
    p = draw(gencc.programs(opt))
    calls = []
    for f in p["funcs"]:
        for v in gencc.arg_vectors(draw, f, draw(st.integers(1, 2))):
            calls.append([f["name"], [["buf", 0] if a == "buf" else (genir.fhex(a) if isinstance(a, float) else a) for a in v]])
    return {"src": p["src"], "calls": calls, "init": draw(st.sampled_from(["stores", "stores", "data"])), "variant": "c"}


@st.composite
def case_strategy(draw, exclude=(), excluded=None):
    r = draw(st.integers(0, 99))
    if r < 58:
        return draw(ir_case_strategy(wasm_profile(exclude), exclude, "stores", excluded, "main"))
    if r < 68:
        return draw(ir_case_strategy(wasm_profile(exclude, literals=True), exclude, "data", excluded, "static_data"))
    if r < 74:
        return draw(ir_case_strategy(wasm_profile(exclude, distinct_cjmp_targets=False), exclude, "stores", excluded, "same_target_cjmp"))
    if r < 86:
        return draw(ir_case_strategy(full_profile(exclude), exclude, "stores", excluded, "full_menu"))
    return draw(c_case_strategy(exclude))


# ---------------------------------------------------------------------------
# operator sweep: one tiny module per (operator, type) / (cast pair) / (condition, type) / (memory type), boundary
# argument vectors.  Random modules exercise a given (operator, type, operand sign) too rarely for the quick tier
# (measured: 1 module in 600 notices an 'i32 >>' that shifts logically); the sweep is enumerated, seed independent.

def _widen(t):
    return {"i8": "i32", "u8": "i32", "i16": "i32", "u16": "i32", "u32": "u64"}.get(t, t)


def _boundary(t, n):
    if t in ("f32", "f64"):
        vals = [0.0, 1.0, -1.0, 1.5, -2.5, 2.5, 0.5, -0.75, 100.0, 3.999, -3.999, 1e6, 65536.0, 2147483520.0 if t == "f32" else 2147483647.0, -7.25, 16777217.0]
        return [genir.fhex(irsem.round_f32(v) if t == "f32" else v) for v in vals][:n]
    lo, hi = genir.int_range(t)
    b = genir.BITS[t]
    vals = [0, 1, hi, lo, -1, 2, hi - 1, lo + 1, 1 << (b - 2), 3, -3, 7, 100, -128, 255, 0x55 & hi, 1 << (b - 1), (1 << (b - 1)) - 3, 31, 5]
    out = []
    for v in vals:
        if lo <= v <= hi and v not in out:
            out.append(v)
    return out[:n]


def _sweep_fn(name, params, ret, blocks):
    if isinstance(blocks, list):
        blocks = {name + "_b0": blocks}
    bl = [{"name": k, "ins": v} for k, v in blocks.items()]
    return {"name": name, "params": params, "ret": ret, "bufs": {}, "tailrec": False, "blocks": bl, "layout": list(range(len(bl)))}


def _sweep_case(tag, fns, calls):
    desc = {"ptr_bits": 32, "globals": [{"name": "g0", "size": 16, "align": 8, "init": None}], "externals": [], "functions": fns}
    return {"module": desc, "calls": calls, "init": "stores", "variant": "sweep", "tag": tag}


def sweep_cases():
    cases = []
    types = genir.INT_TYPES + genir.FLOAT_TYPES
    for t in types:
        fl = t in genir.FLOAT_TYPES
        w = _widen(t)
        vals = _boundary(t, 9)
        pairs = [[a, b] for a in vals for b in vals]
        tail = ([["cast", "y", w, "x"], ["ret", "y"]] if w != t else [["ret", "x"]])
        for op in (genir.FLOAT_OPS if fl else genir.INT_OPS + genir.ROT_OPS):
            f = _sweep_fn("f0", [["a", t], ["b", t]], w, [["binop", "x", t, "a", op, "b"], ["store", "x", "g0", False]] + tail)
            ps = pairs
            if op in ("<<", ">>", "rol", "ror"):  # counts inside [0, bits): anything else is undefined in ir terms
                nb = genir.BITS[t]
                ps = [[a, c] for a in vals for c in (0, 1, 2, 3, 7, nb // 2, nb - 2, nb - 1)]
            elif op in ("/", "%"):
                ps = [p for p in pairs if p[1] != 0]
            cases.append(_sweep_case("binop:%s:%s" % (t, op), [f], [["f0", p] for p in ps]))
        for op in (["-"] if fl else ["-", "~"]):
            f = _sweep_fn("f0", [["a", t]], w, [["unop", "x", t, op, "a"], ["store", "x", "g0", False]] + tail)
            cases.append(_sweep_case("unop:%s:%s" % (t, op), [f], [["f0", [a]] for a in _boundary(t, 20)]))
        for cond in genir.CONDS:
            f = _sweep_fn("f0", [["a", t], ["b", t]], "i32", {
                "e": [["const", "one", "i32", 1], ["const", "zero", "i32", 0], ["cjmp", "a", cond, "b", "y", "n"]],
                "y": [["ret", "one"]],
                "n": [["ret", "zero"]]})
            cpairs = pairs
            if fl:
                # comparisons are where NaN, the infinities and -0.0 matter: every ordered compare with a NaN is false
                special = [genir.fhex(v) for v in (float("nan"), float("inf"), float("-inf"), -0.0)]
                cpairs = pairs + [[a, b] for a in special for b in vals[:4] + special] + [[a, b] for a in vals[:4] for b in special]
            cases.append(_sweep_case("cjmp:%s:%s" % (t, cond), [f], [["f0", p] for p in cpairs]))
            # 'if' without else: one arm of the conditional jump IS the join block (the structured translation has an empty
            # then- or else-arm and may be tempted to invert the condition)
            for which in ("yes", "no"):
                tgt = ("j", "o") if which == "yes" else ("o", "j")
                f = _sweep_fn("f0", [["a", t], ["b", t]], "i32", {
                    "e": [["const", "c5", "i32", 5], ["const", "c9", "i32", 9], ["store", "c5", "g0", False], ["cjmp", "a", cond, "b", tgt[0], tgt[1]]],
                    "o": [["store", "c9", "g0", False], ["jmp", "j"]],
                    "j": [["load", "x", "i32", "g0", False], ["ret", "x"]]})
                cases.append(_sweep_case("cjmp-join-%s:%s:%s" % (which, t, cond), [f], [["f0", p] for p in cpairs]))
        for d in types:
            wd = _widen(d)
            tl = ([["cast", "y", wd, "x"], ["ret", "y"]] if wd != d else [["ret", "x"]])
            f = _sweep_fn("f0", [["a", t]], wd, [["cast", "x", d, "a"], ["store", "x", "g0", False]] + tl)
            cases.append(_sweep_case("cast:%s:%s" % (t, d), [f], [["f0", [a]] for a in _boundary(t, 20)]))
        # memory: store as t, load back as every type of the same size
        for d in types:
            if genir.BITS[d] != genir.BITS[t] or (d in genir.FLOAT_TYPES) != fl:
                continue
            wd = _widen(d)
            tl = ([["cast", "y", wd, "x"], ["ret", "y"]] if wd != d else [["ret", "x"]])
            f = _sweep_fn("f0", [["a", t]], wd, [["const", "four", "ptr", 4], ["binop", "q", "ptr", "g0", "+", "four"], ["store", "a", "q", False], ["load", "x", d, "q", False]] + tl)
            cases.append(_sweep_case("mem:%s:%s" % (t, d), [f], [["f0", [a]] for a in _boundary(t, 20)]))
    return cases


def _sweep_worker(arg, stats=None, keep_node=False):
    shard, nshards = arg
    stats = stats or Stats()
    fails = []
    from ..core import open_finding_ids

    open_ids = open_finding_ids(PID)
    try:
        for case in sweep_cases()[shard::nshards]:
            try:
                msg, info = run_case(case, stats)
            except Discard as d:
                stats.discard(d.reason)
                continue
            kind = case["tag"].split(":")[0]
            if info["reject"] is not None:
                stats.case(None, False, None, classes=[info["reject"].klass(), "rejected", "rejected[sweep]", "sweep_rejected:" + case["tag"]])
                continue
            nt = info["executed"] > 0
            stats.case(case["tag"], nt, {"variant": "sweep", "tag": case["tag"], "function": case["module"]["functions"][0], "calls": case["calls"][:3]} if nt and shard == 0 and len(stats.samples) < 2 else None,
                       classes=["translated", "translated[sweep]", "sweep:" + kind] + (["executed[sweep]"] if nt else []))
            if msg:
                kid = classify(case, msg)
                if kid and kid in open_ids:
                    stats.known[kid] += 1
                elif len(fails) < 2:
                    fails.append((dict(case), msg))
    finally:
        if not keep_node:
            close_node()
    return stats, fails


def _worker(arg):
    seed, n, shard = arg
    stats = Stats()
    exclude = open_kfs()
    sweep_fails = []
    if shard is not None:
        _, sweep_fails = _sweep_worker((shard, 16), stats, keep_node=True)

    def prop(case):
        import time

        t0 = time.time()
        msg, info = run_case(case, stats)
        if time.time() - t0 > 8 and len(stats.notes) < 5:
            stats.notes.append("slow case (%.0f s): variant %s, translated %s, message %s" % (time.time() - t0, case.get("variant"), info["translated"], str(msg)[:120]))
        var = case.get("variant", "main")
        for k in exclude:
            if k not in ("KF5", "KF6", "KF7", "KF8"):
                stats.excluded["C23-" + k] += 1
        nt = info["translated"] and info["executed"] > 0
        if info["reject"] is not None:
            classes = [info["reject"].klass(), "rejected", "rejected[%s]" % var]
        else:
            classes = list(info["classes"]) + ["translated", "translated[%s]" % var, "executed_calls:%d" % min(info["executed"], 4)]
            if nt:
                classes.append("executed[%s]" % var)
        key = None
        sample = None
        if nt:
            key = str(case.get("module") or case.get("src"))[:8000] + str(case["calls"]) + case.get("init", "")
            sample = {"variant": var, "calls": case["calls"][:2], "init": case.get("init"), "classes": info["classes"]}
            if "module" in case:
                sample["last_function"] = case["module"]["functions"][-1]
            else:
                sample["src"] = case["src"][:1500]
        stats.case(key, nt, sample, classes=classes)
        return msg

    try:
        fails = hyp_search(case_strategy(exclude, stats.excluded), prop, n, seed, stats, classify=classify)
    finally:
        close_node()
    return stats, sweep_fails + fails


def run(ctx):
    n = ctx.scale(960, 48000)
    ctx.pmap(_worker, [(subseed(ctx.seed, PID, w), max(1, n // 16), w) for w in range(16)])
    h = ctx.stats.hist
    rej = {k: v for k, v in h.items() if str(k).startswith("rejected:")}
    ctx.extra["rejections_by_class"] = dict(sorted(rej.items(), key=lambda kv: -kv[1]))
    ctx.extra["translated"] = h.get("translated", 0)
    ctx.extra["rejected"] = h.get("rejected", 0)
    unreachable = []
    if h.get("needs_data_segment", 0) == 0:
        unreachable.append("globals/literals with STATIC initial data: ir_to_wasm rejects every module that needs a data segment "
                           "(ValueError in components.Data, see fixes/C23-data-segment.diff); initial data is covered only "
                           "through the generated c23_init() stores")
    if h.get("executed[c]", 0) == 0:
        unreachable.append("no C program was translated and executed in this run")
    for c in ("cfg:loop", "cfg:loop_with_two_exits", "cfg:nested_loops", "cfg:irreducible", "call:indirect", "call:external", "phi"):
        if h.get(c, 0) == 0:
            unreachable.append("class %s never translated in this run" % c)
    ctx.extra["classes_not_reached"] = unreachable
    ctx.extra["excluded_by_open_findings"] = list(open_kfs())


# ---------------------------------------------------------------------------
# C23-KF6: edges the structuring drops.  StructureDetector.test() answers None ("nothing to emit") for every jump to an
# already marked node that is neither the innermost loop's header nor its follow; that is right only when the node is
# where control arrives anyway by running off the end of the shape under construction.  The detector below repeats
# ppci's traversal, carries that fall-through node along and reports the first jump for which the answer is wrong.

def dropped_edges(ir_function):
    """-> description of a jump ppci's structuring drops silently, or None (also None when ppci itself rejects)."""
    from ppci.graph import relooper
    from ppci.graph.cfg import ir_function_to_graph

    class Dropped(Exception):
        pass

    class Detector(relooper.StructureDetector):
        def detect(self, cfg):
            self.ft = [cfg.exit_node]
            return super().detect(cfg)

        def make_shape(self, entry):
            cfg = self.cfg
            ft = self.ft[-1]
            if entry is cfg.exit_node:
                return None
            if self.is_inactive_header(entry):
                loop = self.loop_headers[entry]
                follow_up = self.follows_loop(loop)
                self.loop_stack.append((loop, follow_up))
                self.marked.add(entry)
                self.marked.add(follow_up)
                self.ft.append(follow_up)
                self.make_shape(entry)
                self.ft.pop()
                self.loop_stack.pop(-1)
                if follow_up:
                    self.make_shape(follow_up)
            elif len(entry.successors) == 1:
                (follow_up,) = entry.successors
                self.test(follow_up)
            elif len(entry.successors) == 2:
                merger = cfg.get_immediate_post_dominator(entry)
                if merger in self.loop_stack[-1][0].rest:
                    follow_up = merger
                    self.marked.add(follow_up)
                else:
                    follow_up = None
                self.ft.append(follow_up if follow_up else ft)
                self.test(entry.yes)
                self.test(entry.no)
                self.ft.pop()
                if follow_up:
                    self.make_shape(follow_up)
            else:
                raise NotImplementedError(str(entry))
            return None

        def test(self, node):
            if node in self.marked:
                if node is self.cfg.exit_node or node is self.loop_stack[-1][0].header or node is self.loop_stack[-1][1]:
                    return None
                if node is self.ft[-1]:
                    return None
                raise Dropped("jump to %s" % node.name)
            return self.make_shape(node)

    try:
        cfg, _ = ir_function_to_graph(ir_function)
        Detector().detect(cfg)
    except Dropped as e:
        return str(e)
    except RecursionError:
        return None
    except Exception:
        return None
    return None
