"""C17 - ELF output is read back faithfully by independent ELF tools."""

import collections
import io
import os
import re
import shutil
import subprocess
import tempfile
import traceback

from hypothesis import strategies as st

from .. import asmgen, elfref, linkgen
from ..core import Discard, HarnessError, Stats, hyp_search, subseed

PID = "C17"
TARGETS = ["x86_64", "arm", "riscv", "xtensa", "microblaze"]
RULE = (
    "objects for x86_64/arm/riscv/xtensa/microblaze from three sources - vf/linkgen.py object sets (generated section names, sizes, "
    "alignments, local/global/undefined symbols, data relocations), vf/asmgen.py assembly programs through ppci.api.asm, small generated "
    "C translation units through ppci.api.cc - written with ppci.format.elf.write_elf as relocatable files (single object or partial link) "
    "and as executables linked under generated layouts (1-3 images at page-aligned and unaligned addresses, with/without entry); the file is "
    "read by GNU readelf, llvm-readelf and the struct-based parser vf/elfref.py and each view is compared with the ObjectFile. "
    "non-trivial = >= 2 sections and >= 1 global and >= 1 local symbol; distinct = hash of the whole case"
)
ASSUMPTIONS = [
    "relocatable files are written from unlinked objects (section addresses 0), executables from objects linked with a layout - the two uses in ppci's own callers",
    "a write_elf call that raises writes no file and is a rejection (histogram write_rejected:*), e.g. the documented NotImplementedError('ELF format relocations') of non-x86 targets",
    "x86-64 relocation numbers follow the psABI: abs64/absaddr64 -> R_X86_64_64, abs32 -> R_X86_64_32 or 32S, rel32 -> PC32 or PLT32",
    "GNU readelf 2.40 and llvm-readelf 14 print what they read",
]
TRUSTED = ["CPython", "Hypothesis", "GNU readelf 2.40", "llvm-readelf 14", "vf/elfref.py (parser written from the ELF gABI)", "text parsers for the readelf output in vf/props/c17.py"]
TECHNIQUE = "generated objects written as ELF and read back by readelf, llvm-readelf and an independent struct parser"
LEVEL_TEXT = (
    "Exploration: every generated ELF file must be accepted silently by two independent readers and by a third parser written from the "
    "specification, and the three views must equal the ObjectFile (sections with contents at the reported offsets, symbols, RELA entries, "
    "entry point, PT_LOAD bytes = image bytes). Objects come from three generators so that section/symbol/relocation shapes vary."
)
REGISTER = True

READELF = shutil.which("readelf")
LLVM_READELF = shutil.which("llvm-readelf-14") or shutil.which("llvm-readelf")

MACHINE_WORDS = {"x86_64": "x86-64", "arm": "arm", "riscv": "risc-v", "xtensa": "xtensa", "microblaze": "microblaze"}
ARCH_FORMAT = {"x86_64": (64, "little"), "arm": (32, "little"), "riscv": (32, "little"), "xtensa": (32, "little"), "microblaze": (32, "big")}
X86_RELOC = {"abs64": {1}, "absaddr64": {1}, "abs32": {10, 11}, "absaddr32": {10}, "rel32": {2, 4}, "absaddr16": {12}, "jmp8": {15}}
SYM_TYPE = {"func": 2, "object": 1}
TYPE_NAMES = {"NOTYPE": 0, "OBJECT": 1, "FUNC": 2, "SECTION": 3, "FILE": 4}
BIND_NAMES = {"LOCAL": 0, "GLOBAL": 1, "WEAK": 2}


# ---------------------------------------------------------------------------
# building the object under test from a case


def _quiet():
    import logging

    logging.disable(logging.CRITICAL)


def build(case):
    """-> (ObjectFile to write, elf type string).  Raises Discard when the
    inputs cannot be assembled / linked."""
    from ppci.api import cc, link

    _quiet()
    target = case["target"]
    try:
        if case["source"] == "linkgen":
            arch = linkgen.get_arch(target)
            objs = [linkgen.build_object(arch, od) for od in case["objects"]]
        elif case["source"] == "asm":
            objs = asmgen.assemble(case["prog"])
        elif case["source"] == "cc":
            objs = [cc(io.StringIO(case["csrc"]), target)]
        else:
            raise HarnessError("unknown source %r" % case["source"])
    except HarnessError:
        raise
    except Exception as e:
        raise Discard("input_build:%s" % type(e).__name__)
    try:
        if case["elf_type"] == "relocatable":
            obj = objs[0] if len(objs) == 1 else link(objs, partial_link=True)
        else:
            # compiled code may call the compiler runtime (xtensa multiplication, ...)
            obj = link(objs, linkgen.build_layout(case["layout"], "object"), use_runtime=case["source"] == "cc")
    except Exception as e:
        raise Discard("link:%s" % type(e).__name__)
    return obj


# ---------------------------------------------------------------------------
# views


def own_view(data):
    r = elfref.parse_elf(data)
    v = {
        "class": r["class"],
        "endian": r["endian"],
        "type": r["type"],
        "machine": r["machine"],
        "entry": r["entry"],
        "sections": [{"index": i, "name": s["name"], "type": s["type"], "addr": s["addr"], "offset": s["offset"], "size": s["size"], "info": s["info"], "link": s["link"]} for i, s in enumerate(r["sections"])],
        "symbols": [{"index": i, "name": y["name"], "value": y["value"], "size": y["size"], "type": y["type"], "bind": y["bind"], "ndx": y["shndx"]} for i, y in enumerate(r["symbols"])],
        "relocs": [{"target": x["section_index"], "offset": x["offset"], "sym": x["sym"], "type": x["type"], "addend": x["addend"]} for x in r["relocations"]],
        "segments": [{"type": g["type"], "offset": g["offset"], "vaddr": g["vaddr"], "filesz": g["filesz"], "memsz": g["memsz"], "align": g["align"]} for g in r["segments"]],
    }
    return v


_SEC_TYPES = "NULL|PROGBITS|SYMTAB|STRTAB|RELA|REL|HASH|DYNAMIC|NOTE|NOBITS|DYNSYM"
_SEC_RE = re.compile(r"^\s*\[\s*(\d+)\] (.*?)\s+(" + _SEC_TYPES + r")\s+([0-9a-f]+) ([0-9a-f]+) ([0-9a-f]+) ([0-9a-f]+)\s+([A-Za-z]*)\s+(\d+)\s+(\d+)\s+(\d+)\s*$")
_SEC0_RE = re.compile(r"^\s*\[\s*0\]\s+NULL\s")
_SYM_RE = re.compile(r"^\s*(\d+): ([0-9a-f]+)\s+(\d+|0x[0-9a-f]+) (\w+)\s+(\w+)\s+(\w+)\s+(\S+)(?: (.*))?$")
_REL_HDR_RE = re.compile(r"^Relocation section '(.*)' at offset 0x[0-9a-f]+ contains (\d+) entr")
_REL_RE = re.compile(r"^([0-9a-f]+)\s+([0-9a-f]+)\s+(\S+)\s+([0-9a-f]+)\s+(.*?) ([+-]) ([0-9a-f]+)\s*$")
_PH_RE = re.compile(r"^\s*(LOAD|DYNAMIC|INTERP|NOTE|PHDR|TLS|NULL|GNU_\w+)\s+0x([0-9a-f]+) 0x([0-9a-f]+) 0x([0-9a-f]+) 0x([0-9a-f]+) 0x([0-9a-f]+) (...) (0x[0-9a-f]+|\d+)\s*$")
_PT = {"NULL": 0, "LOAD": 1, "DYNAMIC": 2, "INTERP": 3, "NOTE": 4, "PHDR": 6, "TLS": 7}
_SHT = {"NULL": 0, "PROGBITS": 1, "SYMTAB": 2, "STRTAB": 3, "RELA": 4, "HASH": 5, "DYNAMIC": 6, "NOTE": 7, "NOBITS": 8, "REL": 9, "DYNSYM": 11}


class ToolParseError(Exception):
    pass


def tool_view(text, bits):
    """Parse `readelf -W -h -S -s -r -l` output (GNU or LLVM flavour)."""
    v = {"sections": [], "symbols": [], "relocs": [], "segments": []}
    hdr = {}
    lines = text.splitlines()
    mode = None
    cur_rel = None
    expect = {}
    for ln in lines:
        m = re.match(r"^\s+([A-Za-z/ ]+[A-Za-z]):\s+(.*)$", ln)
        if mode is None and m:
            hdr.setdefault(m.group(1).strip(), m.group(2).strip())
        if ln.startswith("Section Headers:"):
            mode = "sec"
            continue
        if ln.startswith("Program Headers:"):
            mode = "ph"
            continue
        if ln.startswith("Symbol table '"):
            mode = "sym"
            m2 = re.search(r"contains (\d+) entr", ln)
            expect["symbols"] = int(m2.group(1)) if m2 else None
            continue
        m = _REL_HDR_RE.match(ln)
        if m:
            mode = "rel"
            cur_rel = m.group(1)
            expect["relocs"] = expect.get("relocs", 0) + int(m.group(2))
            continue
        if ln.startswith("Key to Flags") or ln.startswith(" Section to Segment") or ln.startswith("There are no") or not ln.strip():
            if ln.strip():
                mode = "skip"
            elif mode in ("sym", "rel", "ph"):
                mode = "skip"
            continue
        if mode == "sec":
            if _SEC0_RE.match(ln):
                v["sections"].append({"index": 0, "name": "", "type": 0, "addr": 0, "offset": 0, "size": 0, "info": 0, "link": 0})
                continue
            m = _SEC_RE.match(ln)
            if m:
                v["sections"].append({"index": int(m.group(1)), "name": m.group(2), "type": _SHT[m.group(3)], "addr": int(m.group(4), 16), "offset": int(m.group(5), 16), "size": int(m.group(6), 16), "link": int(m.group(9)), "info": int(m.group(10))})
            elif ln.lstrip().startswith("[") and not ln.lstrip().startswith("[Nr]"):
                raise ToolParseError("section line not understood: %r" % ln)
        elif mode == "sym":
            if ln.lstrip().startswith("Num:"):
                continue
            m = _SYM_RE.match(ln)
            if not m:
                raise ToolParseError("symbol line not understood: %r" % ln)
            ndx = m.group(7)
            ndx = {"UND": 0, "ABS": 0xFFF1, "COM": 0xFFF2}.get(ndx, None) if not ndx.isdigit() else int(ndx)
            if ndx is None:
                raise ToolParseError("symbol index not understood: %r" % ln)
            if m.group(4) not in TYPE_NAMES or m.group(5) not in BIND_NAMES:
                raise ToolParseError("symbol type/bind not understood: %r" % ln)
            v["symbols"].append({"index": int(m.group(1)), "name": (m.group(8) or "").strip(), "value": int(m.group(2), 16), "size": int(m.group(3), 0), "type": TYPE_NAMES[m.group(4)], "bind": BIND_NAMES[m.group(5)], "ndx": ndx})
        elif mode == "rel":
            if ln.lstrip().startswith("Offset"):
                continue
            m = _REL_RE.match(ln)
            if not m:
                raise ToolParseError("relocation line not understood: %r" % ln)
            info = int(m.group(2), 16)
            sym, typ = (info >> 32, info & 0xFFFFFFFF) if bits == 64 else (info >> 8, info & 0xFF)
            add = int(m.group(7), 16)
            v["relocs"].append({"table": cur_rel, "offset": int(m.group(1), 16), "sym": sym, "type": typ, "typename": m.group(3), "symname": m.group(5), "addend": -add if m.group(6) == "-" else add})
        elif mode == "ph":
            if ln.lstrip().startswith("Type"):
                continue
            m = _PH_RE.match(ln)
            if not m:
                raise ToolParseError("program header line not understood: %r" % ln)
            v["segments"].append({"type": _PT.get(m.group(1), -1), "offset": int(m.group(2), 16), "vaddr": int(m.group(3), 16), "filesz": int(m.group(5), 16), "memsz": int(m.group(6), 16), "align": int(m.group(8), 0)})
    try:
        v["class"] = {"ELF32": 32, "ELF64": 64}[hdr["Class"]]
        v["endian"] = "little" if "little" in hdr["Data"] else "big"
        v["type"] = {"REL": 1, "EXEC": 2, "DYN": 3}[hdr["Type"].split()[0]]
        v["machine"] = hdr["Machine"]
        v["entry"] = int(hdr["Entry point address"], 16)
        nsec = int(hdr["Number of section headers"].split()[0])
        nph = int(hdr["Number of program headers"].split()[0])
    except (KeyError, ValueError) as e:
        raise ToolParseError("header not understood: %r" % (e,))
    if len(v["sections"]) != nsec:
        raise ToolParseError("%d section lines parsed, header announces %d" % (len(v["sections"]), nsec))
    if len(v["segments"]) != nph:
        raise ToolParseError("%d program header lines parsed, header announces %d" % (len(v["segments"]), nph))
    if expect.get("symbols") is not None and len(v["symbols"]) != expect["symbols"]:
        raise ToolParseError("%d symbol lines parsed, table announces %d" % (len(v["symbols"]), expect["symbols"]))
    if len(v["relocs"]) != expect.get("relocs", 0):
        raise ToolParseError("%d relocation lines parsed, tables announce %d" % (len(v["relocs"]), expect.get("relocs", 0)))
    # relocation table -> target section through the table's sh_info
    byname = {}
    for s in v["sections"]:
        byname.setdefault(s["name"], s)
    for r in v["relocs"]:
        t = byname.get(r["table"])
        r["target"] = t["info"] if t else None
    return v


def run_tool(tool, path):
    p = subprocess.run([tool, "-W", "-h", "-S", "-s", "-r", "-l", path], capture_output=True, timeout=60)
    out = p.stdout.decode("latin-1")
    err = p.stderr.decode("latin-1")
    return p.returncode, out, err


# ---------------------------------------------------------------------------
# expected view and comparison


def expected(obj, elf_type, target):
    bits, endian = ARCH_FORMAT[target]
    exp = {"class": bits, "endian": endian, "type": 1 if elf_type == "relocatable" else 2, "machine": elfref.EM[target]}
    if elf_type == "executable" and obj.entry_symbol_id is not None:
        exp["entry"] = obj.get_symbol_id_value(obj.entry_symbol_id)
    else:
        exp["entry"] = 0
    exp["sections"] = [{"name": s.name, "addr": s.address, "size": s.size, "data": bytes(s.data)} for s in obj.sections]
    syms = []
    for y in obj.symbols:
        if y.defined:
            value = y.value + (obj.get_section(y.section).address if y.section is not None else 0)
        else:
            value = 0
        syms.append({"id": y.id, "name": y.name, "value": value, "size": y.size, "type": SYM_TYPE.get(y.typ, 0), "bind": 1 if y.binding == "global" else 0, "section": y.section if y.defined else None, "defined": y.defined})
    exp["symbols"] = syms
    exp["relocs"] = []
    if elf_type == "relocatable":
        for r in obj.relocations:
            exp["relocs"].append({"section": r.section, "offset": r.offset, "symbol_id": r.symbol_id, "reloc_type": r.reloc_type, "addend": r.addend})
    exp["images"] = []
    if elf_type == "executable":
        for img in obj.images:
            exp["images"].append({"name": img.name, "address": img.address, "data": bytes(img.data)})
    return exp


def compare(exp, view, data, who, target):
    """Compare one reader's view with the expectation.  Returns message or None."""
    mask = (1 << exp["class"]) - 1
    if view["class"] != exp["class"] or view["endian"] != exp["endian"]:
        return "%s: class/endianness %s/%s, expected %s/%s" % (who, view["class"], view["endian"], exp["class"], exp["endian"])
    if view["type"] != exp["type"]:
        return "%s: e_type %s, expected %s" % (who, view["type"], exp["type"])
    if isinstance(view["machine"], int):
        if view["machine"] != exp["machine"]:
            return "%s: e_machine %d, expected %d" % (who, view["machine"], exp["machine"])
    elif MACHINE_WORDS[target] not in view["machine"].lower():
        return "%s: machine %r, expected %s" % (who, view["machine"], target)
    if view["entry"] != exp["entry"]:
        return "%s: entry point 0x%x, expected 0x%x" % (who, view["entry"], exp["entry"])
    # sections
    vsec = {}
    for s in view["sections"]:
        if s["type"] == 1:
            if s["name"] in vsec:
                return "%s: two PROGBITS sections named %r" % (who, s["name"])
            vsec[s["name"]] = s
    for s in exp["sections"]:
        v = vsec.get(s["name"])
        if v is None:
            return "%s: section %r missing (sees %s)" % (who, s["name"], sorted(vsec))
        if v["addr"] != s["addr"] or v["size"] != s["size"]:
            return "%s: section %r at 0x%x size %d, object has 0x%x size %d" % (who, s["name"], v["addr"], v["size"], s["addr"], s["size"])
        got = data[v["offset"] : v["offset"] + v["size"]]
        if got != s["data"]:
            return "%s: contents of section %r at file offset 0x%x differ from the object (%s... vs %s...)" % (who, s["name"], v["offset"], got[:16].hex(), s["data"][:16].hex())
    extra = set(vsec) - {s["name"] for s in exp["sections"]}
    if extra:
        return "%s: PROGBITS sections %s are not in the object" % (who, sorted(extra))
    # symbols: index 0 is the null symbol, the rest is the object's symbols (as a multiset)
    if not view["symbols"] or any(view["symbols"][0][k] for k in ("value", "size", "type", "bind", "ndx")) or view["symbols"][0]["name"]:
        return "%s: symbol 0 is not the null symbol: %r" % (who, view["symbols"][:1])
    secindex = {s["name"]: s["index"] for s in view["sections"] if s["type"] == 1}

    def key_exp(y):
        return (y["name"], y["value"] & mask, y["size"], y["type"], y["bind"], secindex[y["section"]] if y["defined"] and y["section"] is not None else (0 if not y["defined"] else 0xFFF1))

    def key_view(y):
        return (y["name"], y["value"], y["size"], y["type"], y["bind"], y["ndx"])

    want = collections.Counter(key_exp(y) for y in exp["symbols"])
    got = collections.Counter(key_view(y) for y in view["symbols"][1:])
    if want != got:
        return "%s: symbols (name, value, size, type, bind, shndx) differ: only in file %s; only in object %s" % (who, sorted((got - want).elements())[:4], sorted((want - got).elements())[:4])
    # locals precede globals
    seen_global = False
    for y in view["symbols"][1:]:
        if y["bind"] != 0:
            seen_global = True
        elif seen_global:
            return "%s: local symbol %r (index %d) follows a global symbol" % (who, y["name"], y["index"])
    # relocations
    if exp["type"] == 1:
        byid = {y["id"]: y for y in exp["symbols"]}
        want = collections.Counter()
        for r in exp["relocs"]:
            y = byid[r["symbol_id"]]
            types = X86_RELOC.get(r["reloc_type"]) if target == "x86_64" else None
            want[(secindex[r["section"]], r["offset"], key_exp(y), r["addend"])] += 1
        got = collections.Counter()
        for r in view["relocs"]:
            if r["sym"] >= len(view["symbols"]):
                return "%s: relocation refers to symbol index %d of %d" % (who, r["sym"], len(view["symbols"]))
            got[(r["target"], r["offset"], key_view(view["symbols"][r["sym"]]), r["addend"])] += 1
        if want != got:
            return "%s: relocation entries (section, offset, symbol, addend) differ: only in file %s; only in object %s" % (who, sorted((got - want).elements(), key=repr)[:3], sorted((want - got).elements(), key=repr)[:3])
        if target == "x86_64":
            # type numbers: match entry by entry on (section, offset)
            tmap = {(secindex[r["section"]], r["offset"]): r["reloc_type"] for r in exp["relocs"]}
            for r in view["relocs"]:
                rt = tmap[(r["target"], r["offset"])]
                if r["type"] not in X86_RELOC.get(rt, set()):
                    return "%s: relocation %r at %s+0x%x has ELF type %d, psABI numbers for it are %s" % (who, rt, r["target"], r["offset"], r["type"], sorted(X86_RELOC.get(rt, [])))
    elif view["relocs"]:
        return "%s: executable has %d relocation entries" % (who, len(view["relocs"]))
    # segments
    loads = [g for g in view["segments"] if g["type"] == 1]
    if len(loads) != len(exp["images"]):
        return "%s: %d PT_LOAD segments for %d images" % (who, len(loads), len(exp["images"]))
    for g, img in zip(loads, exp["images"]):
        if g["vaddr"] != img["address"] or g["filesz"] != len(img["data"]) or g["memsz"] != len(img["data"]):
            return "%s: PT_LOAD vaddr 0x%x filesz %d memsz %d, image %s is at 0x%x with %d bytes" % (who, g["vaddr"], g["filesz"], g["memsz"], img["name"], img["address"], len(img["data"]))
        got = data[g["offset"] : g["offset"] + g["filesz"]]
        if got != img["data"]:
            k = next((i for i, (a, b) in enumerate(zip(got, img["data"])) if a != b), min(len(got), len(img["data"])))
            return "%s: PT_LOAD at file offset 0x%x differs from image %s at virtual address 0x%x" % (who, g["offset"], img["name"], img["address"] + k)
    return None


_BAD_MARKS = re.compile(r"<corrupt|<unknown|<no-name>|<no-strings>|<invalid|bad symbol index|out of range", re.I)
_BAD_WORDS = re.compile(r"warning|error|corrupt|invalid|bad |unable|cannot|out of range|<corrupt|<unknown|unrecognized", re.I)


def stage1(case, hist, info):
    """Build, write, read with the spec parser.  -> (message or None, state)."""
    from ppci.format.elf import write_elf

    target = case["target"]
    obj = build(case)
    info["nontrivial"] = len(obj.sections) >= 2 and any(y.binding == "global" for y in obj.symbols) and any(y.binding != "global" for y in obj.symbols)
    info["with_rela"] = bool(obj.relocations) and case["elf_type"] == "relocatable"
    f = io.BytesIO()
    try:
        write_elf(obj, f, type=case["elf_type"])
    except Exception as e:
        fr = [x for x in traceback.extract_tb(e.__traceback__) if "/ppci/" in x.filename]
        where = "%s:%s" % (fr[-1].filename.split("/ppci/")[-1], fr[-1].name) if fr else "?"
        hist["write_rejected:%s@%s" % (type(e).__name__, where)] += 1
        raise Discard("write_rejected:%s" % type(e).__name__)
    data = f.getvalue()
    exp = expected(obj, case["elf_type"], target)
    hist["written:%s:%s" % (target, case["elf_type"])] += 1
    try:
        view = own_view(data)
    except elfref.ElfFormatError as e:
        return "vf/elfref.py rejects the file: %s" % e, None
    msg = compare(exp, view, data, "elfref", target)
    if msg:
        return msg, None
    return None, {"data": data, "exp": exp, "view": view, "target": target}


def check_tool_output(who, rc, out, err, state, hist):
    """One tool's verdict on one file: silent acceptance + equal view."""
    if rc != 0 or err.strip():
        return "%s exits %d, stderr: %s" % (who, rc, err.strip()[:400])
    # complaints on lines of their own, and the markers the tools substitute for unreadable items (generated names never contain '<')
    bad = [ln for ln in out.splitlines() if (_BAD_WORDS.search(ln) and not ln.startswith(("  ", "Symbol table", "Relocation section", "File: "))) or _BAD_MARKS.search(ln)]
    if bad:
        return "%s prints: %s" % (who, bad[0][:300])
    try:
        tv = tool_view(out, state["exp"]["class"])
    except ToolParseError as e:
        hist["tool_output_unparsed:%s" % who] += 1
        hist["tool_output_unparsed_detail:%s" % str(e)[:80]] += 1
        return None
    msg = compare(state["exp"], tv, state["data"], who, state["target"])
    if msg:
        return msg
    hist["tool_views_equal_object"] += 1
    return None


def stage3(state):
    """The segments must be loadable as the specification demands (checked last, so that
    everything else is still compared for images at unaligned addresses)."""
    msg = elfref.check_loadable(state["view"]["segments"])
    if msg:
        return "vf/elfref.py rejects the file: " + msg
    return None


TOOLS = (("readelf", READELF), ("llvm-readelf", LLVM_READELF))


def run_tool_batch(tool, paths):
    """One invocation for many files.  -> (rc, {path: text}, stderr)."""
    p = subprocess.run([tool, "-W", "-h", "-S", "-s", "-r", "-l"] + list(paths), capture_output=True, timeout=600)
    out = p.stdout.decode("latin-1")
    err = p.stderr.decode("latin-1")
    if len(paths) == 1:
        return p.returncode, {paths[0]: out}, err
    parts = {}
    cur = None
    for ln in out.splitlines(True):
        if ln.startswith("File: ") and ln[6:].strip() in paths:
            cur = ln[6:].strip()
            parts[cur] = ""
            continue
        if cur is not None:
            parts[cur] += ln
    return p.returncode, parts, err


def evaluate(case, hist=None, tmpdir=None, info=None):
    """All stages for one case, the tools run on this file alone (replay path)."""
    hist = collections.Counter() if hist is None else hist
    info = {} if info is None else info
    if not READELF or not LLVM_READELF:
        raise HarnessError("readelf / llvm-readelf not found")
    msg, state = stage1(case, hist, info)
    if msg:
        return msg
    d = tempfile.mkdtemp(prefix="vf-C17-")
    path = os.path.join(d, "t.elf")
    try:
        with open(path, "wb") as fh:
            fh.write(state["data"])
        for who, tool in TOOLS:
            rc, out, err = run_tool(tool, path)
            msg = check_tool_output(who, rc, out, err, state, hist)
            if msg:
                return msg
    finally:
        shutil.rmtree(d, ignore_errors=True)
    return stage3(state)


def replay(case):
    return evaluate(case)


_CONGR = re.compile(r"p_offset 0x([0-9a-f]+) and p_vaddr 0x([0-9a-f]+) are not congruent modulo p_align 0x1000$")


def classify(case, msg):
    from ..core import open_finding_ids

    open_ids = open_finding_ids(PID)
    # KF1: big-endian targets get little-endian header fields: e_ehsize 52 reads back as 0x3400
    if "C17-KF1" in open_ids and case.get("target") == "microblaze" and msg == "vf/elfref.py rejects the file: e_ehsize 13312":
        return "C17-KF1"
    # KF2: p_offset is rounded up to a page whatever p_vaddr is
    m = _CONGR.search(msg)
    if "C17-KF2" in open_ids and m and msg.startswith("vf/elfref.py rejects the file: PT_LOAD segment"):
        off, vaddr = int(m.group(1), 16), int(m.group(2), 16)
        ld = case.get("layout") or {}
        if off % 0x1000 == 0 and vaddr % 0x1000 != 0 and any(mm["location"] == vaddr for mm in ld.get("memories", [])):
            return "C17-KF2"
    return None


def big_endian_defect_present():
    """Probe for KF1 on the tree under test: an empty microblaze object."""
    from ppci.binutils.objectfile import ObjectFile
    from ppci.format.elf import write_elf

    f = io.BytesIO()
    write_elf(ObjectFile(linkgen.get_arch("microblaze")), f, type="relocatable")
    try:
        elfref.parse_elf(f.getvalue())
    except elfref.ElfFormatError:
        return True
    return False


# ---------------------------------------------------------------------------
# generation


@st.composite
def c_source(draw):
    ng = draw(st.integers(1, 4))
    nf = draw(st.integers(1, 4))
    lines = []
    gl = []
    for i in range(ng):
        static = draw(st.booleans())
        kind = draw(st.integers(0, 2))
        name = "v%d" % i
        if kind == 0:
            lines.append("%sint %s = %d;" % ("static " if static else "", name, draw(st.integers(-100, 100000))))
        elif kind == 1:
            lines.append("%sint %s;" % ("static " if static else "", name))
        else:
            n = draw(st.integers(1, 6))
            lines.append("%sint %s[%d] = {%s};" % ("static " if static else "", name, n, ", ".join(str(draw(st.integers(0, 99))) for _ in range(n))))
            name = name + "[0]"
        gl.append(name)
    if draw(st.booleans()):
        lines.append("extern int ext_fn(int);")
        ext = True
    else:
        ext = False
    fns = []
    for i in range(nf):
        static = draw(st.booleans()) and i != nf - 1
        name = "f%d" % i
        terms = ["a", str(draw(st.integers(1, 1000)))]
        terms += [draw(st.sampled_from(gl)) for _ in range(draw(st.integers(0, 2)))]
        terms += ["%s(a)" % draw(st.sampled_from(fns)) for _ in range(draw(st.integers(0, 1))) if fns]
        if ext and draw(st.booleans()):
            terms.append("ext_fn(a)")
        body = "  %s = a;\n" % draw(st.sampled_from(gl)) if draw(st.booleans()) else ""
        lines.append("%sint %s(int a) {\n%s  return %s;\n}" % ("static " if static else "", name, body, " + ".join(terms)))
        fns.append(name)
    return "\n".join(lines) + "\n", fns[-1], ext


@st.composite
def elf_case(draw, max_size=48, targets=tuple(TARGETS)):
    target = draw(st.sampled_from(list(targets)))
    source = draw(st.sampled_from(["linkgen", "asm", "cc"]))
    elf_type = draw(st.sampled_from(["relocatable", "executable", "executable"] if target != "x86_64" else ["relocatable", "executable"]))
    case = {"source": source, "target": target, "elf_type": elf_type, "layout": None}
    if source == "linkgen":
        secnames = draw(st.lists(st.sampled_from(linkgen.ID_NAMES[:4] + linkgen.FREE_NAMES[:4]), unique=True, min_size=1, max_size=4))
        # non-x86 targets cannot write RELA tables: give them relocation-free relocatables most of the time
        relocs = elf_type == "executable" or target == "x86_64" or draw(st.integers(0, 5)) == 0
        # the x86-64 writer maps abs64/abs32/rel32/absaddr64 only; other types make write_elf raise KeyError (a rejection)
        rtypes = [("absaddr64", 8, 4)] if target == "x86_64" and elf_type == "relocatable" and draw(st.integers(0, 7)) else None
        objs = draw(linkgen.object_set(target, secnames, max_size=max_size, max_objects=3, with_relocs=relocs, rtypes=rtypes))
        if elf_type == "relocatable" and draw(st.booleans()):
            objs = objs[:1]
        case["objects"] = objs
        if elf_type == "executable":
            # undefined references would stop the link: define them through the layout is not possible, so drop them
            defined = {y["name"] for o in objs for y in o["symbols"] if y["binding"] == "global" and y["value"] is not None}
            for o in objs:
                dead = {y["id"] for y in o["symbols"] if y["value"] is None and y["name"] not in defined}
                o["symbols"] = [y for y in o["symbols"] if y["id"] not in dead]
                o["relocs"] = [r for r in o["relocs"] if r["sym"] not in dead]
            case["layout"] = draw(linkgen.layout_for(objs, secnames, fit=draw(st.sampled_from(["exact", "generous", "round"])), entry_candidates=sorted(defined), allow_sectiondata=draw(st.booleans())))
    elif source == "asm":
        words = ["dcd ={L}", "dq ={L}"]
        kinds = None
        if target == "x86_64" and elf_type == "relocatable" and draw(st.integers(0, 7)):
            words, kinds = ["dq ={L}"], ("branch", "load")
        prog = draw(asmgen.program(target, max_objects=2 if elf_type == "executable" else draw(st.sampled_from([1, 2])), max_items=8, words=words, kinds=kinds, pads=[0, 4, 8, 12, 24, 60]))
        if elf_type == "relocatable" and target != "x86_64" and draw(st.integers(0, 5)):
            # relocation-free variant
            for od in prog["objects"]:
                for s in od["sections"]:
                    s["items"] = [it for it in s["items"] if it[0] != "ref"]
        case["prog"] = prog
        if elf_type == "executable":
            gl = sorted({g for od in prog["objects"] for g in od["globals"]})
            case["layout"] = draw(linkgen.simple_layout(asmgen.section_names(prog), entry_candidates=gl, min_size=0x400, gaps=[0, 0x10, 0x100]))
    else:
        src, last, ext = draw(c_source())
        if elf_type == "executable" and ext:
            src = src.replace("extern int ext_fn(int);", "int ext_fn(int x) { return x + 1; }")
        case["csrc"] = src
        if elf_type == "executable":
            case["layout"] = draw(linkgen.simple_layout(["code", "data"], entry_candidates=[last], min_size=0x8000))
    return case


def _case_classes(case, info):
    cls = ["src_" + case["source"], "type_" + case["elf_type"], "target_" + case["target"]]
    ld = case.get("layout")
    if ld:
        cls.append("images_%d" % len(ld["memories"]))
        cls.append("image_unaligned" if any(m["location"] % 0x1000 for m in ld["memories"]) else "images_page_aligned")
        if ld.get("entry"):
            cls.append("with_entry")
    if info.get("with_rela"):
        cls.append("with_rela")
    return cls


BATCH = 32


def _worker(arg):
    """Phase A (Hypothesis): build, write, spec parser - failures are shrunk.
    Phase B: readelf and llvm-readelf over the written files, many files per
    invocation (llvm-readelf needs about a second to start), then the loadability rule."""
    seed, n, max_size, targets, excluded = arg
    _quiet()
    stats = Stats()
    tmp = tempfile.mkdtemp(prefix="vf-C17-")
    pending = []

    def prop(case):
        hist = collections.Counter()
        info = {}
        try:
            msg, state = stage1(case, hist, info)
        finally:
            stats.hist.update(hist)
        nt = bool(info.get("nontrivial"))
        stats.case(case, nt, case if nt and not stats.samples else None, classes=_case_classes(case, info))
        if msg is None:
            path = os.path.join(tmp, "f%05d.elf" % len(pending))
            with open(path, "wb") as fh:
                fh.write(state["data"])
            pending.append((case, path, state))
        return msg

    fails = []
    try:
        fails = hyp_search(elf_case(max_size=max_size, targets=targets), prop, n, seed, stats, classify=classify, budget_s=900)
        for k in excluded:
            # share of the draws that would have gone to the excluded target
            stats.excluded[k] += n // len(TARGETS)
        # Hypothesis may evaluate a case more than once: keep one entry per case
        seen = set()
        uniq = []
        from ..core import jhash

        for item in pending:
            h = jhash(item[0])
            if h not in seen:
                seen.add(h)
                uniq.append(item)
        verdict = {}
        for i in range(0, len(uniq), BATCH):
            chunk = uniq[i : i + BATCH]
            paths = [c[1] for c in chunk]
            for who, tool in TOOLS:
                rc, parts, err = run_tool_batch(tool, paths)
                single = rc != 0 or err.strip() or any(p not in parts for p in paths)
                for case, path, state in chunk:
                    if path in verdict:
                        continue
                    if single:
                        rc1, out1, err1 = run_tool(tool, path)
                    else:
                        rc1, out1, err1 = 0, parts[path], ""
                    msg = check_tool_output(who, rc1, out1, err1, state, stats.hist)
                    if msg:
                        verdict[path] = msg
        for case, path, state in uniq:
            msg = verdict.get(path) or stage3(state)
            if msg:
                kid = classify(case, msg)
                if kid:
                    stats.known[kid] += 1
                elif len(fails) < 3:
                    fails.append((case, msg))
    finally:
        shutil.rmtree(tmp, ignore_errors=True)
    return stats, fails


def run(ctx):
    if not READELF or not LLVM_READELF:
        raise HarnessError("readelf / llvm-readelf not found")
    from ..core import open_finding_ids

    n = ctx.scale(400, 20000)
    targets = list(TARGETS)
    excluded = []
    if "C17-KF1" in open_finding_ids(PID) and big_endian_defect_present():
        # every big-endian file is unreadable from its first header field on: nothing else can be compared
        targets.remove("microblaze")
        excluded.append("C17-KF1")
    args = [(subseed(ctx.seed, PID, w), n // 16, ctx.scale(48, 1024), tuple(targets), tuple(excluded)) for w in range(16)]
    ctx.pmap(_worker, args)
    ctx.extra["targets_covered"] = targets
    ctx.extra["tools"] = {"readelf": READELF, "llvm-readelf": LLVM_READELF}
