"""C14 - Object files and archives survive save and load."""

import io
import logging

from hypothesis import strategies as st

from .. import objgen
from ..core import Discard, Stats, hyp_search, jhash, load_findings, open_finding_ids, subseed

PID = "C14"
RULE = (
    "two sources of objects. (direct) 1-3 Hypothesis-drawn object descriptions per case (vf/objgen.py: 0-4 sections "
    "with data around the 30-byte hex-chunking edge and up to 600 bytes (thorough 20 000), addresses up to 2^64, "
    "alignments; local/global/undefined/absolute symbols with unordered non-dense ids; relocations of the arch's "
    "own types with negative and 64-bit addends; images; entry symbol; debug info with base/pointer/array/struct "
    "types incl. recursive ones, fixed/frame-relative/unknown addresses; odd names: empty, spaces, quotes, "
    "newlines, NUL, non-ASCII, 300 chars) for 8 arch ids. (program) small generated C, C3 and assembly programs "
    "compiled with debug=True for x86_64/arm/riscv, optionally plus an assembly helper object, and their linked "
    "result (layout with two memories, entry symbol). Each object is saved, loaded and compared field by field by "
    "vf/objgen.diff_objects (sections, symbols, relocations, images, entry, arch id, debug info by bisimulation); "
    "the same through Archive.save/load; then link(originals) and link(reloaded) (partial and full, debug=True) "
    "must serialise identically or raise the same error. non-trivial = the object set has relocations and at "
    "least one of entry/image/debug info; distinct = hash of the case"
)
ASSUMPTIONS = [
    "ObjectFile contents obey the ObjectFile API's own preconditions (unique section names and symbol ids, unique "
    "global names, references name existing sections/symbols)",
    "DebugBaseType.encoding is 1 (every producer in ppci passes 1; the serial format has no field for it)",
    "the byte size of a frame slot (StackLocation.size inside FpOffsetAddress) is not debug information: the format "
    "stores the frame offset only and the debugger reads only the offset",
    "sharing of debug type objects is not compared, only their structure (bisimulation)",
]
TRUSTED = ["CPython", "Hypothesis", "structural comparison and generators in vf/objgen.py"]
REGISTER = True
TECHNIQUE = "Hypothesis object descriptions + compiled programs; save/load round trip compared field by field; link equivalence"
LEVEL_TEXT = (
    "Exploration: generated objects carrying every attribute the format has (and compiled objects with real debug "
    "info) are saved and loaded, singly and in archives, and compared by a structural walk that is independent of "
    "ppci's own __eq__; linking originals and reloaded objects must give identical serialisations. A serialiser "
    "bug shows only on objects that carry the affected attribute, so a generator that sets all of them, with "
    "names and numbers from the awkward corners, is the right tool."
)

# the linker reports undefined references through logging.error; without a handler Python prints them
logging.getLogger().addHandler(logging.NullHandler())

KF_RECTYPE = "C14-KF1"
TAG_KF = {"debug-type-cycle-via-pointer": KF_RECTYPE}


# --- one object ------------------------------------------------------------------------
def save_text(obj):
    f = io.StringIO()
    obj.save(f)
    return f.getvalue()


def roundtrip_object(obj, label, desc=None):
    """Save/load one object.  Returns (issues, reloaded or None, text)."""
    from ppci.binutils.objectfile import ObjectFile

    issues = []
    try:
        text = save_text(obj)
    except Exception as e:
        return [("save-raised", "%s: save raised %s: %s" % (label, type(e).__name__, e))], None, None
    try:
        back = ObjectFile.load(io.StringIO(text))
    except Exception as e:
        tag = "load-raised"
        dd = (desc or {}).get("debug")
        if isinstance(e, KeyError) and dd is not None and objgen.pointer_first_cycle(dd) and _innermost_ppci_frame(e) == "debuginfo.py:get_type":
            tag = "debug-type-cycle-via-pointer"
        return [(tag, "%s: load(save(obj)) raised %s: %s" % (label, type(e).__name__, e))], None, text
    diffs = objgen.diff_objects(obj, back)
    for d in diffs[:4]:
        issues.append(("field", "%s: load(save(obj)) differs: %s" % (label, d)))
    for d in objgen.check_indexes(back)[:2]:
        issues.append(("index", "%s: reloaded object inconsistent: %s" % (label, d)))
    if not diffs:
        try:
            again = save_text(back)
        except Exception as e:
            issues.append(("resave", "%s: saving the reloaded object raised %s: %s" % (label, type(e).__name__, e)))
        else:
            if again != text:
                issues.append(("resave", "%s: save(load(save(obj))) differs from save(obj) although no field differs" % label))
    return issues, back, text


def _innermost_ppci_frame(e):
    import os
    import traceback

    frames = traceback.extract_tb(e.__traceback__)
    for fr in reversed(frames):
        if "ppci" in fr.filename:
            return "%s:%s" % (os.path.basename(fr.filename), fr.name)
    return None


def link_outcome(objs, **kw):
    """('ok', serialised text) | ('raise', type name, message)."""
    from ppci.binutils.linker import link

    try:
        out = link(list(objs), **kw)
    except Exception as e:
        return ("raise", type(e).__name__, str(e)[:300])
    return ("ok", save_text(out), out)


def compare_links(originals, reloaded, label, **kw):
    a = link_outcome(originals, **kw)
    b = link_outcome(reloaded, **kw)
    if a[:2] == b[:2] and (a[0] == "ok" or a[2] == b[2]):
        return [], a
    # is the linker itself repeatable on the originals?
    a2 = link_outcome(originals, **kw)
    if a2[:2] != a[:2]:
        raise Discard("link of the original objects is not repeatable")
    if a[0] != b[0]:
        return [("link", "%s: link(originals) -> %s, link(reloaded) -> %s" % (label, _short(a), _short(b)))], a
    if a[0] == "raise":
        return [("link", "%s: link(originals) raises %s: %s, link(reloaded) raises %s: %s" % (label, a[1], a[2], b[1], b[2]))], a
    d = objgen.diff_objects(a[2], b[2])
    return [("link", "%s: link(reloaded) serialises differently from link(originals): %s" % (label, "; ".join(d[:3]) or "texts differ"))], a


def _short(o):
    return "ok" if o[0] == "ok" else "%s: %s" % (o[1], o[2][:120])


def roundtrip_set(objs, labels, descs, use_archive, link_kws):
    """Round trip every object (and the archive of them), then compare links."""
    from ppci.binutils.archive import Archive

    issues = []
    reloaded = []
    for obj, label, desc in zip(objs, labels, descs):
        iss, back, _ = roundtrip_object(obj, label, desc)
        issues += iss
        reloaded.append(back)
    if any(b is None for b in reloaded):
        return issues, None
    if use_archive:
        f = io.StringIO()
        try:
            Archive(list(objs)).save(f)
            ar = Archive.load(io.StringIO(f.getvalue()))
            members = list(ar)
        except Exception as e:
            issues.append(("archive", "archive save/load raised %s: %s" % (type(e).__name__, e)))
            members = None
        if members is not None:
            if len(members) != len(objs):
                issues.append(("archive", "archive of %d objects loads %d objects" % (len(objs), len(members))))
            for obj, m, label in zip(objs, members, labels):
                for d in objgen.diff_objects(obj, m)[:3]:
                    issues.append(("archive", "archive member %s differs: %s" % (label, d)))
                for d in objgen.check_indexes(m)[:2]:
                    issues.append(("archive", "archive member %s inconsistent: %s" % (label, d)))
            if len(members) == len(objs):
                reloaded = members  # link the archive's members
    first = None
    if not issues:
        for kw in link_kws:
            iss, out = compare_links(objs, reloaded, "link(%s)" % ", ".join("%s=%s" % (k, v if not isinstance(v, str) or len(v) < 12 else "...") for k, v in sorted(kw.items())), **kw)
            issues += iss
            if first is None:
                first = out
    return issues, first


# --- direct cases ---------------------------------------------------------------------
def eval_direct(case):
    descs = case["objs"]
    try:
        objs = [objgen.build_object(d) for d in descs]
    except Exception as e:
        raise Discard("description violates an ObjectFile precondition: %s: %s" % (type(e).__name__, str(e)[:80]))
    labels = ["obj%d" % i for i in range(len(objs))]
    issues, _ = roundtrip_set(
        objs,
        labels,
        descs,
        case.get("archive", False),
        [{"partial_link": True, "debug": True}, {"debug": True}, {"partial_link": True}],
    )
    return issues


# --- program cases --------------------------------------------------------------------
LAYOUT = """
MEMORY flash LOCATION=0x10000 SIZE=0x40000 {
 SECTION(code)
 ALIGN(8)
 DEFINESYMBOL(code_end)
}
MEMORY ram LOCATION=0x20000000 SIZE=0x10000 {
 SECTION(data)
}
"""


def compile_program(case):
    import contextlib

    from ppci import api

    arch = case["arch"]
    lang = case["lang"]
    src = case["src"]
    opt = case.get("opt", 0)
    try:
        with contextlib.redirect_stdout(io.StringIO()):  # the front-ends print their warnings
            if lang == "c":
                main = api.cc(io.StringIO(src), arch, opt_level=opt, debug=True)
            elif lang == "c3":
                main = api.c3c([io.StringIO(src)], [], arch, opt_level=opt, debug=True)
            else:
                main = api.asm(io.StringIO(src), arch, debug=True)
            objs = [main]
            if case.get("helper"):
                objs.append(api.asm(io.StringIO(case["helper"]), arch, debug=True))
    except Exception as e:
        raise Discard("program does not compile: %s in %s" % (type(e).__name__, _innermost_ppci_frame(e)))
    return objs


def eval_program(case):
    from ppci.binutils.layout import get_layout

    objs = compile_program(case)
    labels = [case["lang"]] + (["helper"] if len(objs) > 1 else [])
    layout = get_layout(io.StringIO(LAYOUT))
    issues, linked = roundtrip_set(
        objs,
        labels,
        [None] * len(objs),
        case.get("archive", False),
        [{"layout": layout, "debug": True, "entry": case.get("entry")}, {"partial_link": True, "debug": True}],
    )
    if not issues and linked is not None and linked[0] == "ok":
        # the linked executable (images, entry, merged debug info) is itself an object to round-trip
        iss, _, _ = roundtrip_object(linked[2], "linked")
        issues += iss
    return issues, (linked[0] if linked else None)


def case_features(case):
    if case["kind"] == "direct":
        f = set()
        for d in case["objs"]:
            f |= objgen.features(d)
        f.add("objects_%d" % len(case["objs"]))
        if case.get("archive"):
            f.add("archive")
        return f
    f = {"program_" + case["lang"], "arch_" + case["arch"], "relocs", "debug"}
    if case.get("helper"):
        f.add("with_helper_object")
    if case.get("archive"):
        f.add("archive")
    return f


def evaluate(case, info=None):
    if case["kind"] == "direct":
        return eval_direct(case)
    issues, linked = eval_program(case)
    if info is not None:
        info["full_link"] = linked
    return issues


def render(issues):
    return "\n".join("[%s] %s" % (t, m) for t, m in issues) if issues else None


def replay(case):
    return render(evaluate(case))


_OPEN = None


def open_ids():
    global _OPEN
    if _OPEN is None:
        _OPEN = open_finding_ids(PID)
    return _OPEN


def classify(case, msg):
    tags = [l[1 : l.index("]")] for l in str(msg).split("\n") if l.startswith("[") and "]" in l]
    if not tags or any(t not in TAG_KF or TAG_KF[t] not in open_ids() for t in tags):
        return None
    return TAG_KF[tags[0]]


def active_findings():
    act = set()
    for e in load_findings(PID):
        if e.get("status") != "open":
            continue
        try:
            m = replay(e["witness"])
        except Discard:
            continue
        if m is not None and classify(e["witness"], m) == e["id"]:
            act.add(e["id"])
    return act


# --- generation: direct -----------------------------------------------------------------
@st.composite
def direct_cases(draw, max_data, exclude):
    arch = draw(st.sampled_from(objgen.ARCHS))
    n = draw(st.sampled_from((1, 1, 2, 3)))
    rec = KF_RECTYPE not in exclude
    descs = []
    externs = []
    for i in range(n):
        d = draw(
            objgen.object_descs(
                arch=arch,
                max_data=max_data,
                global_prefix="o%d_" % i if n > 1 else "",
                allow_entry=(i == 0),
                recursive_types=rec,
                extern_names=tuple(externs),
            )
        )
        externs += [y["name"] for y in d["symbols"] if y["binding"] == "global" and y["value"] is not None]
        descs.append(d)
    case = {"kind": "direct", "objs": descs, "archive": draw(st.booleans()), "excluded": []}
    if not rec and any(d["debug"] is not None for d in descs):
        case["excluded"].append(KF_RECTYPE)
    return case


# --- generation: programs ---------------------------------------------------------------
OPS = ("+", "-", "*", "&", "|", "^")


@st.composite
def program_shape(draw):
    """Language-neutral description of a small program."""
    nfun = draw(st.integers(1, 3))
    funs = []
    for k in range(nfun):
        stmts = []
        for _ in range(draw(st.integers(1, 4))):
            stmts.append(
                {
                    "op": draw(st.sampled_from(OPS)),
                    "rhs": draw(st.sampled_from(("a", "b", "const", "global", "call", "field"))),
                    "c": draw(st.integers(0, 1000)),
                    "cond": draw(st.booleans()),
                }
            )
        funs.append({"stmts": stmts, "nlocals": draw(st.integers(0, 2))})
    return {
        "nglob": draw(st.integers(1, 3)),
        "ginit": [draw(st.integers(-100, 100000)) for _ in range(3)],
        "arr": draw(st.integers(1, 40)),
        "carr": draw(st.integers(1, 9)),
        "recursive_struct": draw(st.booleans()),
        "funs": funs,
        "use_extern": draw(st.booleans()),
    }


def render_c(p):
    out = []
    out.append("struct node { int a; char c[%d]; %s};" % (p["carr"], "struct node *next; " if p["recursive_struct"] else ""))
    out.append("struct node n1;")
    out.append("int arr[%d];" % p["arr"])
    for i in range(p["nglob"]):
        out.append("%sint g%d = %d;" % ("static " if i == 1 else "", i, p["ginit"][i]))
    if p["use_extern"]:
        out.append("extern int ext_fn(int x);")
    for k, f in enumerate(p["funs"]):
        out.append("%sint f%d(int a, int b) {" % ("static " if k + 1 < len(p["funs"]) and k == 0 else "", k))
        out.append("  int t = a;")
        for j in range(f["nlocals"]):
            out.append("  int l%d = b + %d;" % (j, j))
        for s in f["stmts"]:
            rhs = _rhs(p, k, f, s, c=True)
            line = "t = t %s %s;" % (s["op"], rhs)
            out.append(("  if (t > %d) { %s }" % (s["c"], line)) if s["cond"] else "  " + line)
        out.append("  return t;")
        out.append("}")
    out.append("int entry(void) { n1.a = f%d(1, 2); return n1.a; }" % (len(p["funs"]) - 1))
    return "\n".join(out) + "\n"


def render_c3(p):
    out = ["module main;"]
    out.append("type struct { int a; byte[%d] c; %s} node_t;" % (p["carr"], "node_t* next; " if p["recursive_struct"] else ""))
    out.append("var node_t n1;")
    out.append("var int[%d] arr;" % p["arr"])
    for i in range(p["nglob"]):
        out.append("var int g%d = %d;" % (i, abs(p["ginit"][i])))  # c3 has no negative constant initialisers
    if p["use_extern"]:
        out.append("function int ext_fn(int x);")
    for k, f in enumerate(p["funs"]):
        out.append("%sfunction int f%d(int a, int b) {" % ("public " if k else "", k))
        out.append("  var int t;")
        for j in range(f["nlocals"]):
            out.append("  var int l%d;" % j)
        out.append("  t = a;")
        for j in range(f["nlocals"]):
            out.append("  l%d = b + %d;" % (j, j))
        for s in f["stmts"]:
            rhs = _rhs(p, k, f, s, c=False)
            line = "t = t %s %s;" % (s["op"], rhs)
            out.append(("  if (t > %d) { %s }" % (s["c"], line)) if s["cond"] else "  " + line)
        out.append("  return t;")
        out.append("}")
    out.append("public function int entry() { n1.a = f%d(1, 2); return n1.a; }" % (len(p["funs"]) - 1))
    return "\n".join(out) + "\n"


def _rhs(p, k, f, s, c):
    r = s["rhs"]
    if r == "const":
        return str(s["c"])
    if r == "global":
        return "g%d" % (s["c"] % p["nglob"])
    if r == "call":
        if k > 0:
            return "f%d(t, %d)" % (s["c"] % k, s["c"])
        if p["use_extern"]:
            return "ext_fn(t)"
        return "b"
    if r == "field":
        return "n1.a" if s["c"] % 2 else "arr[%d]" % (s["c"] % p["arr"])
    if r == "b" and f["nlocals"]:
        return "l%d" % (s["c"] % f["nlocals"])
    return r if r in ("a", "b") else "a"


ASM_LINES = {
    "arm": {
        "code": ["mov r0, {c8}", "add r0, r0, r1", "bl {sym}", "b {loc}", "bne {loc}", "ldr r1, ={sym}", "ldr r0, {loc}", "adr r0, {loc}", "push {{r0, r1}}", "dcd ={sym}"],
        "data": ["dd {c32}", "db {c8}", "dw {c8}", "dcd ={sym}", "ds {c8}", "align 4"],
    },
    "x86_64": {
        "code": ["mov rax, {c8}", "add rax, rbx", "call {sym}", "jmp {loc}", "jne {loc}", "mov rax, {sym}", "push rbp", "ret"],
        "data": ["dd {c32}", "db {c8}", "dw {c8}", "dq {c32}", "align 8"],
    },
    "riscv": {
        "code": ["addi x5, x0, {c8}", "add x5, x5, x6", "jal x1, {sym}", "j {loc}", "bne x5, x6, {loc}", "lui x7, {sym}", "la x5, {sym}", "li x5, {c32}", "lw x5, 4(x6)"],
        "data": ["dd {c32}", "db {c8}", "dw {c8}", "dcd ={sym}", "align 4"],
    },
}


@st.composite
def asm_source(draw, arch, defines, externs):
    """Assembly text that defines the global labels `defines` and may refer to `externs`."""
    menu = ASM_LINES[arch]
    lines = ["section code"]
    locs = []
    syms = list(defines) + list(externs)
    for name in defines:
        lines.append("global %s" % name)
    for name in defines:
        lines.append("%s:" % name)
        for _ in range(draw(st.integers(1, 6))):
            loc = "L%d" % len(locs)
            if draw(st.integers(0, 2)) == 0:
                locs.append(loc)
                lines.append("%s:" % loc)
            t = draw(st.sampled_from(menu["code"]))
            lines.append(
                " "
                + t.format(
                    c8=draw(st.integers(0, 200)),
                    c32=draw(st.integers(0, 2**31 - 1)),
                    sym=draw(st.sampled_from(syms)),
                    loc=draw(st.sampled_from(locs)) if locs else name,
                )
            )
    lines.append("section data")
    lines.append("dlabel_%s:" % defines[0])
    for _ in range(draw(st.integers(0, 8))):
        t = draw(st.sampled_from(menu["data"]))
        lines.append(" " + t.format(c8=draw(st.integers(0, 200)), c32=draw(st.integers(0, 2**31 - 1)), sym=draw(st.sampled_from(syms))))
    return "\n".join(lines) + "\n"


@st.composite
def program_cases(draw):
    arch = draw(st.sampled_from(("x86_64", "arm", "riscv")))
    lang = draw(st.sampled_from(("c", "c3", "asm")))
    case = {"kind": "prog", "arch": arch, "lang": lang, "opt": draw(st.sampled_from((0, 0, 1, 2))), "archive": draw(st.booleans())}
    if lang == "asm":
        case["src"] = draw(asm_source(arch, ["entry", "f0"], ["ext_fn", "undefined_fn"]))
        case["helper"] = draw(asm_source(arch, ["ext_fn"], ["entry", "undefined_fn"])) if draw(st.booleans()) else None
    else:
        p = draw(program_shape())
        case["src"] = render_c(p) if lang == "c" else render_c3(p)
        case["helper"] = draw(asm_source(arch, ["ext_fn"], ["ext_fn"])) if (p["use_extern"] and draw(st.booleans())) else None
    case["entry"] = "entry" if lang != "c3" else "main_entry"
    return case


# --- workers ----------------------------------------------------------------------------
def _nontrivial(feats):
    return "relocs" in feats and bool(feats & {"entry", "image", "debug"})


def _worker(arg):
    seed, n_direct, n_prog, max_data, exclude = arg
    stats = Stats()

    def prop(case):
        for kid in case.get("excluded", ()):
            stats.excluded[kid] += 1
        info = {}
        issues = evaluate(case, info)
        feats = case_features(case)
        if info.get("full_link"):
            feats.add("program_full_link_" + info["full_link"])
        nt = _nontrivial(feats)
        sample = None
        if nt and case["kind"] == "prog" and not any(s.get("kind") == "prog" for s in stats.samples):
            sample = {k: v for k, v in case.items() if k != "excluded"}
        elif nt and case["kind"] == "direct" and not any(s.get("kind") == "direct" for s in stats.samples) and len(str(case)) < 4000:
            sample = {k: v for k, v in case.items() if k != "excluded"}
        stats.case(jhash({k: v for k, v in case.items() if k != "excluded"}), nt, sample, classes=sorted(feats) + [case["kind"]])
        return render(issues)

    fails = hyp_search(direct_cases(max_data, exclude), prop, n_direct, seed, stats, classify=classify)
    fails += hyp_search(program_cases(), prop, n_prog, seed + 1, stats, classify=classify)
    return stats, fails


def run(ctx):
    import ppci.api  # noqa: F401  (imported before the pool forks, so that the workers share it)

    exclude = sorted(active_findings())
    if exclude:
        ctx.stats.notes.append("generator exclusions active for %s" % ", ".join(exclude))
    n_direct = ctx.scale(640, 48000)
    n_prog = ctx.scale(64, 2400)
    max_data = ctx.scale(600, 20000)
    ctx.pmap(_worker, [(subseed(ctx.seed, PID, w), n_direct // 16, n_prog // 16, max_data, exclude) for w in range(16)])
    ctx.extra["targets_covered"] = list(objgen.ARCHS)
