"""C18 - Intel HEX files round-trip and are standard-conforming."""

import io
import os
import shutil
import tempfile

from hypothesis import strategies as st

from .. import bfdread
from ..core import Discard, HarnessError, Stats, hyp_search, jhash, load_findings, open_finding_ids, subseed
from ..objgen import expand_data

PID = "C18"
RULE = (
    "Hypothesis-drawn sets of 1-6 non-empty, non-overlapping regions below 4 GiB (start addresses biased to "
    "k*64KiB + {-17..17}, sizes 1..70 000 (thorough 300 000) chosen to stop short of / end on / cross 64 KiB "
    "boundaries, gaps 0 (adjacent), small, to-the-next-boundary, far; the last region may end exactly at 4 GiB), "
    "added to a HexFile in a drawn order, plus a 32-bit start address. Oracles: own region merge; record parser "
    "written from the Intel HEX specification (length, checksum, type, type-specific length/offset, single final "
    "EOF) that also decodes the file; HexFile.load(save(h)); GNU BFD (objdump -s -f -b ihex). "
    "non-trivial = a region crosses or touches a 64 KiB boundary or start address != 0; distinct = hash of the case"
)
ASSUMPTIONS = [
    "GNU BFD's ihex reader is a correct independent Intel HEX reader",
    "HexFile.start_address (public attribute, read by load) is the file's start address; 0 means 'none'",
    "a data record whose bytes run past offset 0xFFFF continues linearly (Intel HEX spec, 32-bit linear "
    "addressing: address = (ULBA<<16 + offset + index) mod 4G)",
]
TRUSTED = ["CPython", "Hypothesis", "reference parser and region merge in vf/props/c18.py", "GNU objdump (BFD ihex)"]
REGISTER = True
TECHNIQUE = "Hypothesis region sets; round trip + spec-derived record parser + GNU BFD ihex reader"
LEVEL_TEXT = (
    "Exploration: each generated region set is saved, every record is checked against the format specification "
    "by an independent parser, and the decoded bytes/addresses/start address are compared with the generated "
    "regions three ways (own parser, HexFile.load, GNU BFD). The input space is unbounded, so sampling biased to "
    "the 64 KiB segment edges, where the extended-address logic lives, is the right level."
)

KF_MERGE = "C18-KF1"
KF_START = "C18-KF2"
TAG_KF = {"merge-drops-region": KF_MERGE, "start-not-saved": KF_START}
M32 = 0xFFFFFFFF


# --- reference model ------------------------------------------------------------
def merge_expected(regions):
    """[(addr, bytes)] non-overlapping -> sorted, adjacent ones joined."""
    out = []
    for a, d in sorted(regions):
        if out and out[-1][0] + len(out[-1][1]) == a:
            out[-1] = (out[-1][0], out[-1][1] + d)
        else:
            if out and out[-1][0] + len(out[-1][1]) > a:
                raise HarnessError("generator produced overlapping regions")
            out.append((a, d))
    return out


def buggy_merge_model(regions_in_order):
    """Model of the known defect C18-KF1: HexFile.check() keeps walking a stale pair list after a
    merge, so a region added between two adjacent neighbours swallows nothing of the right one:
    the right neighbour's bytes are appended to the (already removed) middle region and lost."""
    held = []
    for a, d in regions_in_order:
        held.append([a, d])
        held.sort(key=lambda r: r[0])
        change = True
        while change and len(held) > 1:
            change = False
            pairs = list(zip(held[:-1], held[1:]))
            for r1, r2 in pairs:
                if r1[0] + len(r1[1]) == r2[0]:
                    r1[1] = r1[1] + r2[1]
                    for k, h in enumerate(held):  # list.remove(): first *equal* element
                        if h[0] == r2[0] and h[1] == r2[1]:
                            del held[k]
                            break
                    change = True
    return [(a, d) for a, d in held]


def merge_trigger(regions_in_order):
    """Does some add_region() call insert a region adjacent to present regions on both sides?"""
    present = []
    for a, d in regions_in_order:
        e = a + len(d)
        left = any(pa + len(pd) == a for pa, pd in present)
        right = any(pa == e for pa, pd in present)
        if left and right:
            return True
        present = merge_expected(present + [(a, d)])
    return False


def parse_ihex(text):
    """Intel HEX parser written from the specification (Intel, Hexadecimal Object File Format
    Specification, rev. A).  Returns (issues, pieces, starts): issues = list of strings,
    pieces = [(absolute address, bytes)] per data record, starts = linear start addresses."""
    issues = []
    pieces = []
    starts = []
    ulba = 0  # upper linear base address (type 04)
    usba = None  # segment base (type 02); None = linear mode
    eof_seen = False
    lines = text.split("\n")
    if lines and lines[-1] == "":
        lines.pop()
    for n, line in enumerate(lines, 1):
        if line.endswith("\r"):
            line = line[:-1]
        if eof_seen:
            issues.append("line %d: content after the end-of-file record" % n)
            break
        if not line.startswith(":"):
            issues.append("line %d: not a record (%r)" % (n, line[:20]))
            continue
        body = line[1:]
        try:
            if len(body) % 2:
                raise ValueError
            raw = bytes.fromhex(body)
            if body.strip() != body or " " in body:
                raise ValueError
        except ValueError:
            issues.append("line %d: not an even number of hex digits" % n)
            continue
        if len(raw) < 5:
            issues.append("line %d: record shorter than 5 bytes" % n)
            continue
        ll, off, typ, data, chk = raw[0], (raw[1] << 8) | raw[2], raw[3], raw[4:-1], raw[-1]
        if ll != len(data):
            issues.append("line %d: length field %d but %d data bytes" % (n, ll, len(data)))
        if sum(raw) & 0xFF:
            issues.append("line %d: checksum %02x wrong (sum of record bytes is %02x, must be 00)" % (n, chk, sum(raw) & 0xFF))
        if typ == 0:
            if not data:
                issues.append("line %d: data record without data" % n)
            if usba is None:
                pieces.append((((ulba << 16) + off) & M32, data, n))
            else:
                # segmented: the offset wraps inside the 64 KiB segment
                for i, b in enumerate(data):
                    pieces.append((((usba << 4) + ((off + i) & 0xFFFF)) & M32, bytes([b]), n))
        elif typ == 1:
            if data or off:
                issues.append("line %d: end-of-file record must have no data and offset 0000" % n)
            eof_seen = True
        elif typ == 2:
            if len(data) != 2 or off:
                issues.append("line %d: extended segment address record must have length 2, offset 0000" % n)
            else:
                usba = (data[0] << 8) | data[1]
        elif typ == 4:
            if len(data) != 2 or off:
                issues.append("line %d: extended linear address record must have length 2, offset 0000" % n)
            else:
                ulba = (data[0] << 8) | data[1]
                usba = None
        elif typ == 5:
            if len(data) != 4 or off:
                issues.append("line %d: start linear address record must have length 4, offset 0000" % n)
            else:
                starts.append(int.from_bytes(data, "big"))
        elif typ == 3:
            if len(data) != 4 or off:
                issues.append("line %d: start segment address record must have length 4, offset 0000" % n)
        else:
            issues.append("line %d: record type %02x is not defined" % (n, typ))
    if not eof_seen:
        issues.append("no end-of-file record")
    # a data record running past 4 GiB wraps (mod 4G): split so that the comparison sees it
    out = []
    for a, d, n in pieces:
        if a + len(d) > 1 << 32:
            k = (1 << 32) - a
            out.append((a, d[:k]))
            out.append((0, d[k:]))
        else:
            out.append((a, d))
    return issues, out, starts


def fmt_regions(regs, limit=6):
    return "[" + ", ".join("0x%x+%d" % (a, len(d)) for a, d in regs[:limit]) + (", ..." if len(regs) > limit else "") + "]"


def first_diff(exp, got):
    """Describe the first difference between two region lists."""
    if [(a, len(d)) for a, d in exp] != [(a, len(d)) for a, d in got]:
        return "regions %s, expected %s" % (fmt_regions(got), fmt_regions(exp))
    for (a, d), (_, g) in zip(exp, got):
        if d != g:
            i = next(i for i in range(len(d)) if d[i] != g[i])
            return "byte at 0x%x is %02x, expected %02x" % (a + i, g[i], d[i])
    return None


# --- evaluation of one case --------------------------------------------------------
def case_regions(case):
    regs = [(int(r["a"]), expand_data(r)) for r in case["regions"]]
    for a, d in regs:
        if not d or a < 0 or a + len(d) > 1 << 32:
            raise Discard("region outside the domain (empty or not below 4 GiB)")
    order = case.get("order") or list(range(len(regs)))
    if sorted(order) != list(range(len(regs))):
        raise Discard("order is not a permutation")
    srt = sorted(regs)
    for (a, d), (b, _) in zip(srt, srt[1:]):
        if a + len(d) > b:
            raise Discard("overlapping regions")
    start = int(case.get("start", 0))
    if not 0 <= start <= M32:
        raise Discard("start address not 32 bit")
    return regs, order, start


def evaluate_core(case):
    """Everything except the BFD reader.  Returns (issues, job); job (or None) holds what the
    BFD comparison needs: the saved text, the expected regions and start address."""
    from ppci.format.hexfile import HexFile

    regs, order, start = case_regions(case)
    expected = merge_expected(regs)
    in_order = [regs[i] for i in order]
    issues = []

    h = HexFile()
    try:
        for a, d in in_order:
            h.add_region(a, d)
    except Exception as e:
        return [("add-region-raised", "add_region raised %s: %s for non-overlapping regions %s" % (type(e).__name__, e, fmt_regions(in_order)))], None
    h.start_address = start
    held = [(r.address, bytes(r.data)) for r in h.regions]
    diff = first_diff(expected, held)
    if diff:
        tag = "merge-wrong"
        if merge_trigger(in_order) and held == buggy_merge_model(in_order):
            tag = "merge-drops-region"
        issues.append((tag, "after add_region in order %s the HexFile holds %s" % (fmt_regions(in_order), diff)))
        # the remaining checks are relative to what the HexFile actually holds
        try:
            expected = merge_expected(held)
        except HarnessError:
            return issues, None

    f = io.StringIO()
    try:
        h.save(f)
    except Exception as e:
        issues.append(("save-raised", "save raised %s: %s for regions %s" % (type(e).__name__, e, fmt_regions(expected))))
        return issues, None
    text = f.getvalue()

    # conformance of every record + own decoding
    rec_issues, pieces, starts = parse_ihex(text)
    for m in rec_issues[:3]:
        issues.append(("record", "saved file: " + m))
    mine = bfdread.merge_regions(pieces)
    diff = first_diff(expected, mine)
    if diff:
        issues.append(("decode", "saved file decodes (specification parser) to %s" % diff))
    if len(starts) > 1:
        issues.append(("record", "saved file has %d start address records" % len(starts)))
    file_start = starts[-1] if starts else 0
    start_lost = False
    if file_start != start:
        if not starts and start != 0:
            start_lost = True
        else:
            issues.append(("start", "saved file carries start address 0x%x, HexFile.start_address was 0x%x" % (file_start, start)))

    # round trip through ppci's reader
    try:
        g = HexFile.load(io.StringIO(text))
    except Exception as e:
        issues.append(("load-raised", "HexFile.load(save(h)) raised %s: %s" % (type(e).__name__, e)))
        g = None
    if g is not None:
        got = [(r.address, bytes(r.data)) for r in g.regions]
        diff = first_diff(expected, got)
        if diff:
            issues.append(("roundtrip", "HexFile.load(save(h)) has %s" % diff))
        if g.start_address != start and not (start_lost and g.start_address == 0):
            issues.append(("start", "HexFile.load(save(h)).start_address = 0x%x, expected 0x%x" % (g.start_address, start)))
    if start_lost:
        issues.append(("start-not-saved", "start address 0x%x is not written: the saved file has no start address record; load gives 0" % start))
    return issues, {"text": text, "expected": expected, "start": start, "start_lost": start_lost}


def bfd_issues(job, r):
    """Compare what GNU BFD read (entry of bfdread.read_files) with the job's expectations."""
    if r["error"]:
        return [("bfd", "objdump -b ihex rejects the saved file: %s" % r["error"].strip()[:300])]
    issues = []
    diff = first_diff(job["expected"], r["regions"])
    if diff:
        issues.append(("bfd", "GNU BFD reads the saved file as %s" % diff))
    bstart = (r["start"] or 0) & M32
    if bstart != job["start"] and not (job["start_lost"] and bstart == 0):
        issues.append(("start", "GNU BFD reads start address 0x%x, expected 0x%x" % (bstart, job["start"])))
    return issues


def evaluate(case):
    """Returns a list of (tag, message); empty = property holds for the case."""
    issues, job = evaluate_core(case)
    if job is None:
        return issues
    d = tempfile.mkdtemp(prefix="vf-C18-")
    try:
        path = os.path.join(d, "case.hex")
        with open(path, "w") as fh:
            fh.write(job["text"])
        try:
            r = bfdread.read_files([path], "ihex", mask=M32)[path]
        except bfdread.BfdUnavailable:
            return issues
    finally:
        shutil.rmtree(d, ignore_errors=True)
    return issues + bfd_issues(job, r)


def render(issues):
    return "\n".join("[%s] %s" % (t, m) for t, m in issues) if issues else None


def replay(case):
    return render(evaluate(case))


def classify(case, msg):
    """All issues of the failure must be modelled known defects; returns the first one's id."""
    tags = [l[1 : l.index("]")] for l in str(msg).split("\n") if l.startswith("[") and "]" in l]
    if not tags or any(t not in TAG_KF for t in tags):
        return None
    if "start-not-saved" in tags and int(case.get("start", 0)) == 0:
        return None
    kid = TAG_KF[tags[0]]
    return kid if all(TAG_KF[t] in open_ids() for t in tags) else None


_OPEN = None


def open_ids():
    global _OPEN
    if _OPEN is None:
        _OPEN = open_finding_ids(PID)
    return _OPEN


def active_findings():
    """Open findings whose witness still fails on the tree under test (so that a tree with the
    fix applied is searched without the exclusions)."""
    act = set()
    for e in load_findings(PID):
        if e.get("status") != "open":
            continue
        try:
            m = replay(e["witness"])
        except Discard:
            continue
        if m is not None and classify(e["witness"], m) == e["id"]:
            act.add(e["id"])
    return act


# --- generation ---------------------------------------------------------------------
BND = 0x10000
DELTAS = (-17, -16, -15, -2, -1, 0, 1, 2, 15, 16, 17, 29, 30, 31)
BEFORE = (-600, -301, -300, -299, -61, -60, -59, -31, -30, -29)  # a small region from here reaches the boundary


@st.composite
def cases(draw, max_size, exclude):
    k = draw(st.integers(1, 6))
    # first address
    kind = draw(st.sampled_from(("zero", "boundary", "boundary", "any", "high")))
    if kind == "zero":
        addr = 0
    elif kind == "boundary":
        addr = max(0, draw(st.integers(0, 0xFFFF)) * BND + draw(st.sampled_from(BEFORE + DELTAS)))
    elif kind == "high":
        addr = draw(st.integers(0xFFF00000, M32))
    else:
        addr = draw(st.integers(0, M32))
    layout = []  # (gap before, size)
    budget = max_size // 2
    pos = addr
    for i in range(k):
        gap = 0
        if i:
            gk = draw(st.sampled_from(("adjacent", "adjacent", "small", "boundary", "far")))
            if gk == "small":
                gap = draw(st.integers(1, 64))
            elif gk == "boundary":
                gap = (-pos) % BND + draw(st.sampled_from(BEFORE + DELTAS))
                if gap < 0:
                    gap += BND
            elif gk == "far":
                gap = draw(st.integers(1, 1 << 28))
        pos += gap
        sk = draw(st.sampled_from(("tiny",) * 6 + ("small",) * 5 + ("mid", "mid", "to_boundary", "to_boundary", "large")))
        if sk in ("to_boundary", "large") and budget <= 0:
            sk = "small"  # at most about one big region per case keeps the quick tier cheap
        if sk == "tiny":
            size = draw(st.integers(1, 33))
        elif sk == "small":
            size = draw(st.integers(1, 600))
        elif sk == "to_boundary":
            nb = draw(st.sampled_from((1, 1, 1, 2)))
            size = (-pos) % BND + (nb - 1) * BND + draw(st.sampled_from(DELTAS))
            if size < 1:
                size += BND
        elif sk == "mid":
            size = draw(st.integers(1, 5000))
        else:
            size = draw(st.integers(60000, max_size))
        size = max(1, min(size, max_size))
        if size > 5000:
            budget -= size
        layout.append((gap, size))
        pos += size
    total = pos - addr
    if addr + total > 1 << 32:
        addr = (1 << 32) - total if draw(st.booleans()) else draw(st.integers(0, (1 << 32) - total))
    regions = []
    pos = addr
    for gap, size in layout:
        pos += gap
        if size <= 40 and draw(st.booleans()):
            regions.append({"a": pos, "hex": draw(st.binary(min_size=size, max_size=size)).hex()})
        else:
            regions.append({"a": pos, "n": size, "seed": draw(st.integers(0, 2**32 - 1))})
        pos += size
    order = list(draw(st.permutations(list(range(k))))) if draw(st.booleans()) else list(range(k))
    start = draw(st.one_of(st.just(0), st.integers(0, M32), st.sampled_from((1, 0xFFFF, 0x10000, 0x8000000, 0x80000000, M32))))
    case = {"regions": regions, "order": order, "start": start, "excluded": []}
    if KF_START in exclude and start != 0:
        case["start"] = 0
        case["excluded"].append(KF_START)
    if KF_MERGE in exclude:
        regs = [(r["a"], b"\0" * (len(r["hex"]) // 2 if "hex" in r else r["n"])) for r in regions]
        if merge_trigger([regs[i] for i in order]):
            case["order"] = list(range(k))
            case["excluded"].append(KF_MERGE)
    return case


def case_classes(case):
    regs = [(r["a"], len(r["hex"]) // 2 if "hex" in r else r["n"]) for r in case["regions"]]
    cl = ["regions_%d" % len(regs)]
    crosses = any(a // BND != (a + n - 1) // BND for a, n in regs)
    touches = any(a % BND == 0 or (a + n) % BND == 0 for a, n in regs)
    if crosses:
        cl.append("crosses_64k")
    if any((a + n - 1) // BND - a // BND >= 2 for a, n in regs):
        cl.append("crosses_two_64k")
    if touches:
        cl.append("touches_64k")
    srt = sorted(regs)
    if any(a + n == b for (a, n), (b, _) in zip(srt, srt[1:])):
        cl.append("adjacent_regions")
    if any(a >= 0x80000000 for a, n in regs):
        cl.append("address_ge_2G")
    if any(a + n == 1 << 32 for a, n in regs):
        cl.append("ends_at_4G")
    if case["start"]:
        cl.append("start_nonzero")
    if case["order"] != sorted(case["order"]):
        cl.append("added_out_of_order")
    big = max(n for a, n in regs)
    cl.append("max_region_" + ("le30" if big <= 30 else "le600" if big <= 600 else "le5000" if big <= 5000 else "gt5000"))
    return cl, (crosses or touches or case["start"] != 0)


BATCH = 48


def _worker(arg):
    seed, n, max_size, exclude = arg
    stats = Stats()
    tmp = tempfile.mkdtemp(prefix="vf-C18-")
    jobs = []  # (path, case, job, core issues)
    late = []  # failures found by the batched BFD comparison

    def flush():
        if not jobs:
            return
        try:
            res = bfdread.read_files([j[0] for j in jobs], "ihex", mask=M32)
        except bfdread.BfdUnavailable as e:
            stats.discard("objdump unavailable")
            if len(stats.notes) < 1:
                stats.notes.append("GNU BFD comparison skipped: %s" % str(e)[:200])
            res = None
        for path, case, job, core in jobs:
            if res is not None:
                more = bfd_issues(job, res[path])
                stats.hist["bfd_compared"] += 1
                if more:
                    msg = render(core + more)
                    kid = classify(case, msg)
                    if kid:
                        stats.known[kid] += 1
                    elif len(late) < 3:
                        late.append((case, msg))
            try:
                os.unlink(path)
            except OSError:
                pass
        del jobs[:]

    def prop(case):
        for kid in case.get("excluded", ()):
            stats.excluded[kid] += 1
        issues, job = evaluate_core(case)
        cl, nt = case_classes(case)
        key = jhash([case["regions"], case["order"], case["start"]])
        sample = None
        if nt and len(stats.samples) < 1:
            sample = {k: case[k] for k in ("regions", "order", "start")}
        stats.case(key, nt, sample, classes=cl)
        if job is not None and (not issues or classify(case, render(issues))):
            path = os.path.join(tmp, "c%d.hex" % stats.evaluations)
            with open(path, "w") as fh:
                fh.write(job["text"])
            jobs.append((path, case, job, issues))
            if len(jobs) >= BATCH:
                flush()
        return render(issues)

    try:
        fails = hyp_search(cases(max_size, exclude), prop, n, seed, stats, classify=classify)
        flush()
    finally:
        shutil.rmtree(tmp, ignore_errors=True)
    return stats, fails + late


def run(ctx):
    import ppci.api  # noqa: F401  (imported before the pool forks, so that the workers share it)

    exclude = sorted(active_findings())
    if exclude:
        ctx.stats.notes.append("generator exclusions active for %s" % ", ".join(exclude))
    n = ctx.scale(2000, 200000)
    max_size = ctx.scale(70000, 300000)
    ctx.pmap(_worker, [(subseed(ctx.seed, PID, w), n // 16, max_size, exclude) for w in range(16)])
