"""RV32I + M + C emulator written from the RISC-V unprivileged ISA manual (20191213),
chapters 2 (RV32I), 7 (M) and 16 (C); independent of ppci's encoders (DESIGN.md 3.6).

    m = Machine(rvc=True, step_limit=2_000_000)
    m.map(addr, size[, data])            map a zero-filled (or initialised) region of flat byte memory
    m.load_object(obj)                   map every image of a ppci-linked ObjectFile at its address
    m.load_bytes(addr, data)             write into mapped memory
    m.read(addr, n) / m.write(addr, b) / m.read_u32(addr) / m.write_u32(addr, v)
    m.regs[0..31], m.pc                  architectural state (x0 is kept 0)
    m.call(entry, args=(), ...) -> a0    ILP32 call: integer args in a0..a7, further ones in 4-byte stack
                                         slots at sp (16-byte aligned), ("i64", v) arguments take two slots
                                         (register pair / split a7+stack / 8-aligned on the stack); ra = SENTINEL;
                                         sp = top of the stack region; runs until pc == SENTINEL.  a1 is m.regs[11];
                                         m.ret64() = a0 | a1 << 32.
    m.run(pc, until=SENTINEL)            the bare fetch/execute loop
    m.steps, m.executed                  instruction count / set of executed (encoding, length)
    m.hooks[addr] = f(machine)           host function: when pc reaches addr, f runs and execution resumes at ra

Exceptions (all subclasses of EmuError): StepLimit, IllegalInstruction(pc, encoding), MisalignedFetch(pc),
MemoryFault(addr, size, kind), Trap (ecall / ebreak reached).  Data accesses may be misaligned (counted in
m.misaligned); with rvc=False compressed encodings are illegal and a taken control transfer to a target that is
not 4-byte aligned raises MisalignedFetch (IALIGN=32).

Self-validation, independent of ppci (selfcheck(level)):
  (a) decode: `disasm(encoding)` renders every instruction the way `llvm-mc-14 --disassemble -M no-aliases
      -M numeric` prints it; validate_decode() compares the two for a set of encodings (every encoding executed by
      the corpus below, every 16-bit encoding, and a deterministic sample of 32-bit words).
  (b) semantics: a corpus of C functions (fixed ones + deterministic generated expression functions) compiled with
      `clang --target=riscv32 -march=rv32imc -mabi=ilp32 -mno-relax -ffreestanding -O1 -c`, laid out by the tiny
      static linker in this file (R_RISCV_32/HI20/LO12_I/LO12_S/CALL/BRANCH/JAL/RVC_*; no RISC-V linker exists in the
      image) and run here must return what the same source returns natively (gcc, x86-64); plus ISA-manual vectors
      for what C cannot express (division by zero / overflow, x0, jalr bit 0, misaligned access).
"""

import hashlib
import os
import re
import shutil
import struct
import subprocess
import tempfile

M32 = 0xFFFFFFFF
SENTINEL = 0xFFFFF000


class EmuError(Exception):
    pass


class StepLimit(EmuError):
    pass


class IllegalInstruction(EmuError):
    def __init__(self, pc, encoding):
        super().__init__("illegal instruction 0x%08x at pc=0x%08x" % (encoding, pc))
        self.pc = pc
        self.encoding = encoding


class MisalignedFetch(EmuError):
    def __init__(self, pc):
        super().__init__("misaligned instruction fetch at pc=0x%08x" % pc)
        self.pc = pc


class MemoryFault(EmuError):
    def __init__(self, addr, size, kind):
        super().__init__("%s of %d bytes at unmapped address 0x%08x" % (kind, size, addr & M32))
        self.addr = addr
        self.size = size
        self.kind = kind


class Trap(EmuError):
    def __init__(self, pc, what):
        super().__init__("%s at pc=0x%08x" % (what, pc))
        self.pc = pc
        self.what = what


def _sx(v, bits):
    v &= (1 << bits) - 1
    return v - (1 << bits) if v >> (bits - 1) else v


def _s32(v):
    v &= M32
    return v - 0x100000000 if v & 0x80000000 else v


# ---------------------------------------------------------------------------
# decode: encoding -> (op, rd, rs1, rs2, imm, length, text)
#   op is the base-ISA operation that is executed; text is the llvm-mc rendering of the
#   encoding itself (compressed mnemonics for compressed encodings).

LOADS = {0: "lb", 1: "lh", 2: "lw", 4: "lbu", 5: "lhu"}
STORES = {0: "sb", 1: "sh", 2: "sw"}
BRANCHES = {0: "beq", 1: "bne", 4: "blt", 5: "bge", 6: "bltu", 7: "bgeu"}
OPS = {
    (0, 0): "add", (0, 0x20): "sub", (1, 0): "sll", (2, 0): "slt", (3, 0): "sltu", (4, 0): "xor",
    (5, 0): "srl", (5, 0x20): "sra", (6, 0): "or", (7, 0): "and",
    (0, 1): "mul", (1, 1): "mulh", (2, 1): "mulhsu", (3, 1): "mulhu", (4, 1): "div", (5, 1): "divu",
    (6, 1): "rem", (7, 1): "remu",
}  # fmt: skip
OPIMM = {0: "addi", 2: "slti", 3: "sltiu", 4: "xori", 6: "ori", 7: "andi"}
_FENCE = {i: "".join(c for c, b in zip("iorw", (8, 4, 2, 1)) if i & b) for i in range(16)}


class Unsupported(Exception):
    """A valid encoding outside RV32IMC's integer subset (CSR, fence.i, wfi, ...): decodes, cannot execute."""


def decode32(w):
    """Returns (op, rd, rs1, rs2, imm, 4, text) or None for an illegal/unknown encoding."""
    opc = w & 0x7F
    rd = (w >> 7) & 31
    f3 = (w >> 12) & 7
    rs1 = (w >> 15) & 31
    rs2 = (w >> 20) & 31
    f7 = w >> 25
    if opc == 0x37:
        return ("lui", rd, 0, 0, w & 0xFFFFF000, 4, "lui x%d, %d" % (rd, w >> 12))
    if opc == 0x17:
        return ("auipc", rd, 0, 0, w & 0xFFFFF000, 4, "auipc x%d, %d" % (rd, w >> 12))
    if opc == 0x6F:
        imm = _sx(((w >> 31) & 1) << 20 | ((w >> 12) & 0xFF) << 12 | ((w >> 20) & 1) << 11 | ((w >> 21) & 0x3FF) << 1, 21)
        return ("jal", rd, 0, 0, imm, 4, "jal x%d, %d" % (rd, imm))
    if opc == 0x67:
        if f3 != 0:
            return None
        imm = _sx(w >> 20, 12)
        return ("jalr", rd, rs1, 0, imm, 4, "jalr x%d, %d(x%d)" % (rd, imm, rs1))
    if opc == 0x63:
        if f3 not in BRANCHES:
            return None
        imm = _sx(((w >> 31) & 1) << 12 | ((w >> 7) & 1) << 11 | ((w >> 25) & 0x3F) << 5 | ((w >> 8) & 0xF) << 1, 13)
        return (BRANCHES[f3], 0, rs1, rs2, imm, 4, "%s x%d, x%d, %d" % (BRANCHES[f3], rs1, rs2, imm))
    if opc == 0x03:
        if f3 not in LOADS:
            return None
        imm = _sx(w >> 20, 12)
        return (LOADS[f3], rd, rs1, 0, imm, 4, "%s x%d, %d(x%d)" % (LOADS[f3], rd, imm, rs1))
    if opc == 0x23:
        if f3 not in STORES:
            return None
        imm = _sx((w >> 25) << 5 | ((w >> 7) & 31), 12)
        return (STORES[f3], 0, rs1, rs2, imm, 4, "%s x%d, %d(x%d)" % (STORES[f3], rs2, imm, rs1))
    if opc == 0x13:
        if f3 == 1:
            if f7 != 0:
                return None
            return ("slli", rd, rs1, 0, rs2, 4, "slli x%d, x%d, %d" % (rd, rs1, rs2))
        if f3 == 5:
            if f7 == 0:
                return ("srli", rd, rs1, 0, rs2, 4, "srli x%d, x%d, %d" % (rd, rs1, rs2))
            if f7 == 0x20:
                return ("srai", rd, rs1, 0, rs2, 4, "srai x%d, x%d, %d" % (rd, rs1, rs2))
            return None
        imm = _sx(w >> 20, 12)
        return (OPIMM[f3], rd, rs1, 0, imm, 4, "%s x%d, x%d, %d" % (OPIMM[f3], rd, rs1, imm))
    if opc == 0x33:
        name = OPS.get((f3, f7))
        if name is None:
            return None
        return (name, rd, rs1, rs2, 0, 4, "%s x%d, x%d, x%d" % (name, rd, rs1, rs2))
    if opc == 0x0F:
        if f3 == 0:
            fm, pred, succ = w >> 28, (w >> 24) & 15, (w >> 20) & 15
            if rd == 0 and rs1 == 0 and fm == 8 and pred == 3 and succ == 3:
                return ("fence", 0, 0, 0, 0, 4, "fence.tso")
            if rd == 0 and rs1 == 0 and fm == 0:
                return ("fence", 0, 0, 0, 0, 4, "fence %s, %s" % (_FENCE[pred] or "0", _FENCE[succ] or "0"))
            return ("fence", 0, 0, 0, 0, 4, None)  # reserved-field forms: executes as a fence, rendering not modelled
        if f3 == 1:
            return ("unsupported", 0, 0, 0, 0, 4, "fence.i" if w == 0x100F else None)
        return None
    if opc == 0x73:
        if w == 0x73:
            return ("ecall", 0, 0, 0, 0, 4, "ecall")
        if w == 0x100073:
            return ("ebreak", 0, 0, 0, 0, 4, "ebreak")
        return ("unsupported", 0, 0, 0, 0, 4, None)  # CSR / privileged: not part of this emulator
    return None


def decode16(h):
    """RV32C (no F/D).  Returns the expanded base operation plus the compressed rendering, or None."""
    q = h & 3
    f3 = (h >> 13) & 7
    r_lo = 8 + ((h >> 2) & 7)  # rd' / rs2'
    r_hi = 8 + ((h >> 7) & 7)  # rs1' / rd'
    r_full = (h >> 7) & 31
    r2_full = (h >> 2) & 31
    b12 = (h >> 12) & 1
    if q == 0:
        if f3 == 0:
            imm = ((h >> 7) & 0xF) << 6 | ((h >> 11) & 3) << 4 | ((h >> 5) & 1) << 3 | ((h >> 6) & 1) << 2
            if imm == 0:
                return None  # includes the all-zero illegal instruction
            return ("addi", r_lo, 2, 0, imm, 2, "c.addi4spn x%d, x2, %d" % (r_lo, imm))
        if f3 in (2, 6):
            imm = ((h >> 10) & 7) << 3 | ((h >> 6) & 1) << 2 | ((h >> 5) & 1) << 6
            if f3 == 2:
                return ("lw", r_lo, r_hi, 0, imm, 2, "c.lw x%d, %d(x%d)" % (r_lo, imm, r_hi))
            return ("sw", 0, r_hi, r_lo, imm, 2, "c.sw x%d, %d(x%d)" % (r_lo, imm, r_hi))
        return None  # c.fld/c.flw/c.fsd/c.fsw and reserved
    if q == 1:
        imm6 = _sx(b12 << 5 | ((h >> 2) & 31), 6)
        if f3 == 0:
            if r_full == 0:
                if imm6 == 0:
                    return ("addi", 0, 0, 0, 0, 2, "c.nop")
                return ("addi", 0, 0, 0, 0, 2, "c.nop %d" % imm6)  # HINT
            if imm6 == 0:
                return ("addi", r_full, r_full, 0, 0, 2, None)  # HINT (c.addi rd, 0)
            return ("addi", r_full, r_full, 0, imm6, 2, "c.addi x%d, %d" % (r_full, imm6))
        if f3 in (1, 5):
            imm = _sx(
                b12 << 11 | ((h >> 11) & 1) << 4 | ((h >> 9) & 3) << 8 | ((h >> 8) & 1) << 10 | ((h >> 7) & 1) << 6
                | ((h >> 6) & 1) << 7 | ((h >> 3) & 7) << 1 | ((h >> 2) & 1) << 5,
                12,
            )  # fmt: skip
            if f3 == 1:
                return ("jal", 1, 0, 0, imm, 2, "c.jal %d" % imm)
            return ("jal", 0, 0, 0, imm, 2, "c.j %d" % imm)
        if f3 == 2:
            return ("addi", r_full, 0, 0, imm6, 2, "c.li x%d, %d" % (r_full, imm6))  # rd = x0: HINT
        if f3 == 3:
            if r_full == 2:
                imm = _sx(b12 << 9 | ((h >> 6) & 1) << 4 | ((h >> 5) & 1) << 6 | ((h >> 3) & 3) << 7 | ((h >> 2) & 1) << 5, 10)
                if imm == 0:
                    return None
                return ("addi", 2, 2, 0, imm, 2, "c.addi16sp x2, %d" % imm)
            if imm6 == 0:
                return None  # reserved
            # rd = x0: HINT, which llvm-mc prints with the signed immediate
            return ("lui", r_full, 0, 0, (imm6 << 12) & M32, 2, "c.lui x%d, %d" % (r_full, imm6 & 0xFFFFF if r_full else imm6))
        if f3 == 4:
            sub = (h >> 10) & 3
            if sub in (0, 1):
                if b12:
                    return None  # RV32 NSE
                sh = (h >> 2) & 31
                name = "srli" if sub == 0 else "srai"
                if sh == 0:
                    return (name, r_hi, r_hi, 0, 0, 2, "c.%s64 x%d" % (name, r_hi))  # HINT
                return (name, r_hi, r_hi, 0, sh, 2, "c.%s x%d, %d" % (name, r_hi, sh))
            if sub == 2:
                return ("andi", r_hi, r_hi, 0, imm6, 2, "c.andi x%d, %d" % (r_hi, imm6))
            if b12:
                return None  # c.subw/c.addw (RV64) and reserved
            name = ("sub", "xor", "or", "and")[(h >> 5) & 3]
            return (name, r_hi, r_hi, r_lo, 0, 2, "c.%s x%d, x%d" % (name, r_hi, r_lo))
        imm = _sx(b12 << 8 | ((h >> 10) & 3) << 3 | ((h >> 5) & 3) << 6 | ((h >> 3) & 3) << 1 | ((h >> 2) & 1) << 5, 9)
        if f3 == 6:
            return ("beq", 0, r_hi, 0, imm, 2, "c.beqz x%d, %d" % (r_hi, imm))
        return ("bne", 0, r_hi, 0, imm, 2, "c.bnez x%d, %d" % (r_hi, imm))
    if q == 2:
        if f3 == 0:
            if b12:
                return None  # RV32 NSE
            sh = (h >> 2) & 31
            if sh == 0:
                return ("slli", r_full, r_full, 0, 0, 2, "c.slli64 x%d" % r_full)  # HINT
            return ("slli", r_full, r_full, 0, sh, 2, "c.slli x%d, %d" % (r_full, sh))  # rd = x0: HINT
        if f3 == 2:
            if r_full == 0:
                return None  # reserved
            imm = b12 << 5 | ((h >> 4) & 7) << 2 | ((h >> 2) & 3) << 6
            return ("lw", r_full, 2, 0, imm, 2, "c.lwsp x%d, %d(x2)" % (r_full, imm))
        if f3 == 4:
            if b12 == 0:
                if r2_full == 0:
                    if r_full == 0:
                        return None  # reserved
                    return ("jalr", 0, r_full, 0, 0, 2, "c.jr x%d" % r_full)
                return ("add", r_full, 0, r2_full, 0, 2, "c.mv x%d, x%d" % (r_full, r2_full))  # rd = x0: HINT
            if r2_full == 0:
                if r_full == 0:
                    return ("ebreak", 0, 0, 0, 0, 2, "c.ebreak")
                return ("jalr", 1, r_full, 0, 0, 2, "c.jalr x%d" % r_full)
            return ("add", r_full, r_full, r2_full, 0, 2, "c.add x%d, x%d" % (r_full, r2_full))  # rd = x0: HINT
        if f3 == 6:
            imm = ((h >> 9) & 0xF) << 2 | ((h >> 7) & 3) << 6
            return ("sw", 0, 2, r2_full, imm, 2, "c.swsp x%d, %d(x2)" % (r2_full, imm))
        return None  # c.fldsp/c.flwsp/c.fsdsp/c.fswsp
    raise AssertionError("not a compressed encoding")


def decode(enc):
    """enc: the 32-bit little-endian word at pc (only its low half matters for compressed encodings)."""
    if enc & 3 == 3:
        if enc & 0x1F == 0x1F:
            return None  # >= 48-bit encodings
        return decode32(enc & M32)
    return decode16(enc & 0xFFFF)


def disasm(enc):
    d = decode(enc)
    return None if d is None else d[6]


# operation numbers for the execute loop
_OPNAMES = (
    "addi add sub lw sw lui jal jalr beq bne blt bge bltu bgeu slli srli srai andi ori xori slti sltiu "
    "and or xor sll srl sra slt sltu lb lbu lh lhu sb sh auipc mul mulh mulhsu mulhu div divu rem remu "
    "fence ecall ebreak unsupported"
).split()
_OPNUM = {n: i for i, n in enumerate(_OPNAMES)}
(ADDI, ADD, SUB, LW, SW, LUI, JAL, JALR, BEQ, BNE, BLT, BGE, BLTU, BGEU, SLLI, SRLI, SRAI, ANDI, ORI, XORI, SLTI, SLTIU,
 AND, OR, XOR, SLL, SRL, SRA, SLT, SLTU, LB, LBU, LH, LHU, SB, SH, AUIPC, MUL, MULH, MULHSU, MULHU, DIV, DIVU, REM, REMU,
 FENCE, ECALL, EBREAK, UNSUPPORTED) = range(len(_OPNAMES))  # fmt: skip


class Machine:
    def __init__(self, rvc=True, step_limit=2_000_000, strict_align=False):
        self.rvc = rvc
        self.step_limit = step_limit
        self.strict_align = strict_align
        self.regs = [0] * 32
        self.pc = 0
        self.regions = []  # (base, end, bytearray, name)
        self.steps = 0
        self.misaligned = 0
        self.executed = set()
        self._dcache = {}
        self._last = None
        self.stack_top = None
        self.hooks = {}  # address -> callable(machine): host function called when pc gets there; then pc = ra

    # -- memory ------------------------------------------------------------
    def map(self, addr, size, data=None, name=None):
        addr &= M32
        buf = bytearray(size)
        if data is not None:
            buf[: len(data)] = data
        for b, e, _, n in self.regions:
            if addr < e and b < addr + size:
                raise ValueError("region %r at 0x%x+%d overlaps %r" % (name, addr, size, n))
        reg = (addr, addr + size, buf, name)
        self.regions.append(reg)
        return reg

    def _region(self, addr, n, kind):
        r = self._last
        if r is not None and r[0] <= addr and addr + n <= r[1]:
            return r
        for r in self.regions:
            if r[0] <= addr and addr + n <= r[1]:
                self._last = r
                return r
        raise MemoryFault(addr, n, kind)

    def read(self, addr, n):
        addr &= M32
        if n == 0:
            return b""
        r = self._region(addr, n, "read")
        o = addr - r[0]
        return bytes(r[2][o : o + n])

    def write(self, addr, data):
        addr &= M32
        if not data:
            return
        r = self._region(addr, len(data), "write")
        o = addr - r[0]
        r[2][o : o + len(data)] = data

    load_bytes = write

    def read_u32(self, addr):
        return int.from_bytes(self.read(addr, 4), "little")

    def write_u32(self, addr, v):
        self.write(addr, (v & M32).to_bytes(4, "little"))

    def load_object(self, obj, extra=0):
        """Map every image of a ppci-linked ObjectFile (zero-size images are skipped).  extra: spare bytes after each."""
        res = []
        for image in obj.images:
            data = bytes(image.data)
            if not data and not extra:
                continue
            res.append(self.map(image.address, len(data) + extra, data, name=image.name))
        return res

    def map_stack(self, top=0xF0000000, size=0x10000):
        self.map(top - size, size + 64, name="stack")
        self.stack_top = top
        return top

    # -- calls ---------------------------------------------------------------
    def call(self, entry, args=(), sp=None, step_limit=None):
        """Call the function at `entry` through the ILP32 integer calling convention; returns a0."""
        if sp is None:
            if self.stack_top is None:
                self.map_stack()
            sp = self.stack_top
        regs_free = list(range(10, 18))
        stack = []  # 4-byte slots

        def push_reg_or_stack(v):
            if regs_free:
                self.regs[regs_free.pop(0)] = v & M32
            else:
                stack.append(v & M32)

        for a in args:
            if isinstance(a, (tuple, list)) and a[0] == "i64":
                v = a[1] & 0xFFFFFFFFFFFFFFFF
                if len(regs_free) >= 1:
                    push_reg_or_stack(v)
                    push_reg_or_stack(v >> 32)  # second half: next register, or the first stack slot
                else:
                    if len(stack) % 2:
                        stack.append(0)  # 8-byte alignment of a 2*XLEN scalar on the stack
                    stack.append(v & M32)
                    stack.append(v >> 32)
            else:
                push_reg_or_stack(int(a))
        sp = (sp - 4 * len(stack)) & ~15
        for i, v in enumerate(stack):
            self.write_u32(sp + 4 * i, v)
        self.regs[2] = sp & M32
        self.regs[1] = SENTINEL
        self.run(entry, SENTINEL, step_limit)
        return self.regs[10]

    def ret64(self):
        return self.regs[10] | self.regs[11] << 32

    # -- execution -------------------------------------------------------------
    def run(self, pc, until=SENTINEL, step_limit=None):
        regs = self.regs
        dcache = self._dcache
        executed = self.executed
        limit = self.step_limit if step_limit is None else step_limit
        rvc = self.rvc
        steps = 0
        pc &= M32
        hooks = self.hooks
        try:
            while pc != until:
                if hooks and pc in hooks:
                    self.pc = pc
                    hooks[pc](self)
                    pc = regs[1] & ~1
                    continue
                if pc & 1 or (not rvc and pc & 3):
                    raise MisalignedFetch(pc)
                if steps >= limit:
                    raise StepLimit("step limit %d reached at pc=0x%08x" % (limit, pc))
                steps += 1
                # fetch: 2 bytes, then 2 more for a 32-bit encoding
                r = self._last
                if r is None or not (r[0] <= pc and pc + 2 <= r[1]):
                    r = self._region(pc, 2, "fetch")
                o = pc - r[0]
                mem = r[2]
                enc = mem[o] | mem[o + 1] << 8
                if enc & 3 == 3:
                    if pc + 4 <= r[1]:
                        enc |= mem[o + 2] << 16 | mem[o + 3] << 24
                    else:
                        enc |= int.from_bytes(self.read(pc + 2, 2), "little") << 16
                d = dcache.get(enc)
                if d is None:
                    dd = decode(enc)
                    if dd is None or (dd[5] == 2 and not rvc):
                        raise IllegalInstruction(pc, enc)
                    d = (_OPNUM[dd[0]], dd[1], dd[2], dd[3], dd[4], dd[5])
                    dcache[enc] = d
                    executed.add((enc, dd[5]))
                op, rd, rs1, rs2, imm, ln = d
                npc = (pc + ln) & M32
                if op == ADDI:
                    v = (regs[rs1] + imm) & M32
                elif op == ADD:
                    v = (regs[rs1] + regs[rs2]) & M32
                elif op == LW or op == LB or op == LBU or op == LH or op == LHU:
                    addr = (regs[rs1] + imm) & M32
                    n = 4 if op == LW else 1 if op == LB or op == LBU else 2
                    if addr & (n - 1):
                        self._misaligned(addr, n, pc)
                    r = self._last
                    if not (r[0] <= addr and addr + n <= r[1]):
                        r = self._region(addr, n, "load")
                    o = addr - r[0]
                    v = int.from_bytes(r[2][o : o + n], "little")
                    if op == LB:
                        v = (v - 0x100 if v & 0x80 else v) & M32
                    elif op == LH:
                        v = (v - 0x10000 if v & 0x8000 else v) & M32
                elif op == SW or op == SB or op == SH:
                    addr = (regs[rs1] + imm) & M32
                    n = 4 if op == SW else 1 if op == SB else 2
                    if addr & (n - 1):
                        self._misaligned(addr, n, pc)
                    r = self._last
                    if not (r[0] <= addr and addr + n <= r[1]):
                        r = self._region(addr, n, "store")
                    o = addr - r[0]
                    r[2][o : o + n] = (regs[rs2] & ((1 << (8 * n)) - 1)).to_bytes(n, "little")
                    pc = npc
                    continue
                elif op == BEQ or op == BNE or op == BLT or op == BGE or op == BLTU or op == BGEU:
                    a, b = regs[rs1], regs[rs2]
                    if op == BEQ:
                        t = a == b
                    elif op == BNE:
                        t = a != b
                    elif op == BLTU:
                        t = a < b
                    elif op == BGEU:
                        t = a >= b
                    else:
                        a = a - 0x100000000 if a & 0x80000000 else a
                        b = b - 0x100000000 if b & 0x80000000 else b
                        t = a < b if op == BLT else a >= b
                    if t:
                        npc = (pc + imm) & M32
                        if not rvc and npc & 3:
                            raise MisalignedFetch(npc)
                    pc = npc
                    continue
                elif op == JAL:
                    v = npc
                    npc = (pc + imm) & M32
                    if not rvc and npc & 3:
                        raise MisalignedFetch(npc)
                elif op == JALR:
                    v = npc
                    npc = (regs[rs1] + imm) & M32 & ~1
                    if not rvc and npc & 3:
                        raise MisalignedFetch(npc)
                elif op == LUI:
                    v = imm
                elif op == AUIPC:
                    v = (pc + imm) & M32
                elif op == SUB:
                    v = (regs[rs1] - regs[rs2]) & M32
                elif op == SLLI:
                    v = (regs[rs1] << imm) & M32
                elif op == SRLI:
                    v = regs[rs1] >> imm
                elif op == SRAI:
                    a = regs[rs1]
                    v = ((a - 0x100000000 if a & 0x80000000 else a) >> imm) & M32
                elif op == ANDI:
                    v = regs[rs1] & (imm & M32)
                elif op == ORI:
                    v = regs[rs1] | (imm & M32)
                elif op == XORI:
                    v = regs[rs1] ^ (imm & M32)
                elif op == SLTI:
                    a = regs[rs1]
                    v = 1 if (a - 0x100000000 if a & 0x80000000 else a) < imm else 0
                elif op == SLTIU:
                    v = 1 if regs[rs1] < (imm & M32) else 0
                elif op == AND:
                    v = regs[rs1] & regs[rs2]
                elif op == OR:
                    v = regs[rs1] | regs[rs2]
                elif op == XOR:
                    v = regs[rs1] ^ regs[rs2]
                elif op == SLL:
                    v = (regs[rs1] << (regs[rs2] & 31)) & M32
                elif op == SRL:
                    v = regs[rs1] >> (regs[rs2] & 31)
                elif op == SRA:
                    a = regs[rs1]
                    v = ((a - 0x100000000 if a & 0x80000000 else a) >> (regs[rs2] & 31)) & M32
                elif op == SLT:
                    v = 1 if _s32(regs[rs1]) < _s32(regs[rs2]) else 0
                elif op == SLTU:
                    v = 1 if regs[rs1] < regs[rs2] else 0
                elif op == MUL:
                    v = (regs[rs1] * regs[rs2]) & M32
                elif op == MULH:
                    v = ((_s32(regs[rs1]) * _s32(regs[rs2])) >> 32) & M32
                elif op == MULHSU:
                    v = ((_s32(regs[rs1]) * regs[rs2]) >> 32) & M32
                elif op == MULHU:
                    v = (regs[rs1] * regs[rs2]) >> 32
                elif op == DIV:
                    a, b = _s32(regs[rs1]), _s32(regs[rs2])
                    if b == 0:
                        v = M32
                    elif a == -0x80000000 and b == -1:
                        v = 0x80000000
                    else:
                        q = abs(a) // abs(b)
                        v = (-q if (a < 0) != (b < 0) else q) & M32
                elif op == DIVU:
                    v = M32 if regs[rs2] == 0 else regs[rs1] // regs[rs2]
                elif op == REM:
                    a, b = _s32(regs[rs1]), _s32(regs[rs2])
                    if b == 0:
                        v = a & M32
                    elif a == -0x80000000 and b == -1:
                        v = 0
                    else:
                        q = abs(a) % abs(b)
                        v = (-q if a < 0 else q) & M32
                elif op == REMU:
                    v = regs[rs1] if regs[rs2] == 0 else regs[rs1] % regs[rs2]
                elif op == FENCE:
                    pc = npc
                    continue
                elif op == ECALL or op == EBREAK:
                    raise Trap(pc, "ecall" if op == ECALL else "ebreak")
                else:
                    raise IllegalInstruction(pc, enc)
                if rd:
                    regs[rd] = v
                pc = npc
        finally:
            self.pc = pc
            self.steps += steps
        return regs[10]

    def _misaligned(self, addr, n, pc):
        self.misaligned += 1
        if self.strict_align:
            raise MemoryFault(addr, n, "misaligned access (pc=0x%08x)" % pc)


# ---------------------------------------------------------------------------
# (a) decode validation against llvm-mc


def llvm_mc():
    return shutil.which("llvm-mc-14") or shutil.which("llvm-mc")


_LLVM_ARGS = ["--disassemble", "--show-encoding", "-triple=riscv32", "-mattr=+m,+c", "-M", "no-aliases", "-M", "numeric"]
_llvm_cache = {}


def llvm_disasm(encodings):
    """encodings: iterable of (enc, length), length 4 iff the low two bits are 11.
    Returns {(enc, length): text | None (invalid)}; cached per encoding.

    llvm-mc treats its input as one byte stream and consumes it in units of 4 bytes (low bits 11) or 2 bytes, valid or
    not, so the stream is tiled exactly by the inputs: one per line; `warning: invalid instruction encoding` names
    the line of every undecodable unit, the remaining lines pair up with the output lines in order."""
    exe = llvm_mc()
    if exe is None:
        return None
    encodings = list(dict.fromkeys(encodings))
    todo = [e for e in encodings if e not in _llvm_cache]
    for i in range(0, len(todo), 20000):
        chunk = todo[i : i + 20000]
        src = []
        for enc, ln in chunk:
            if (ln == 4) != (enc & 3 == 3):
                raise ValueError("length %d does not fit encoding 0x%x" % (ln, enc))
            b = (enc & ((1 << (8 * ln)) - 1)).to_bytes(ln, "little")
            src.append(" ".join("0x%02x" % x for x in b))
        p = subprocess.run([exe] + _LLVM_ARGS, input=("\n".join(src) + "\n").encode(), capture_output=True, timeout=900)
        invalid = set()
        for m in re.finditer(r"<stdin>:(\d+):\d+: warning: invalid instruction encoding", p.stderr.decode("latin-1")):
            invalid.add(int(m.group(1)) - 1)
        outs = []
        for line in p.stdout.decode("latin-1").splitlines():
            if "encoding: [" in line:
                outs.append(" ".join(line.split("# encoding: [")[0].split()))
        if p.returncode != 0 or len(outs) + len(invalid) != len(chunk):
            raise RuntimeError("llvm-mc output cannot be re-associated (%d outputs + %d invalid != %d inputs)" % (len(outs), len(invalid), len(chunk)))
        k = 0
        for j, key in enumerate(chunk):
            if j in invalid:
                _llvm_cache[key] = None
            else:
                _llvm_cache[key] = outs[k]
                k += 1
    return {e: _llvm_cache[e] for e in encodings}


def validate_decode(encodings):
    """Compare disasm() with llvm-mc for (enc, length) pairs.  Returns (n_compared, n_unmodelled, mismatches)."""
    encodings = list(dict.fromkeys(encodings))
    ref = llvm_disasm(encodings)
    if ref is None:
        return 0, 0, ["llvm-mc not available"]
    bad = []
    n = unmodelled = 0
    for enc, ln in encodings:
        d = decode(enc)
        mine = None if d is None or d[5] != ln else d[6]
        theirs = ref[(enc, ln)]
        if d is not None and d[6] is None:
            unmodelled += 1  # executes (hint / reserved fence field / CSR) but its rendering is not modelled
            continue
        n += 1
        if mine != theirs:
            bad.append("encoding 0x%0*x: rv32.py %r, llvm-mc %r" % (2 * ln, enc & ((1 << (8 * ln)) - 1), mine, theirs))
    return n, unmodelled, bad


def is_rv32_reserved(enc, ln):
    """Encodings the manual reserves for RV32 (or defines as illegal) that llvm-mc-14 still prints:
    shifts with shamt[5] = 1 (RV64 forms), c.lui with a zero immediate, the all-zero c.unimp."""
    if ln == 2:
        h = enc & 0xFFFF
        q, f3, b12 = h & 3, h >> 13, (h >> 12) & 1
        if h == 0:
            return "defined illegal instruction (llvm: c.unimp)"
        if q == 2 and f3 == 0 and b12:
            return "c.slli shamt[5]=1"
        if q == 1 and f3 == 4 and b12 and (h >> 10) & 3 in (0, 1):
            return "c.srli/c.srai shamt[5]=1"
        if q == 1 and f3 == 3 and (h >> 7) & 31 != 2 and b12 == 0 and (h >> 2) & 31 == 0:
            return "c.lui nzimm=0"
        return None
    w = enc & M32
    if w & 0x7F == 0x13 and (w >> 12) & 7 in (1, 5) and (w >> 25) & 1 and (w >> 26) in (0, 0x10):
        return "shift-immediate shamt[5]=1"
    return None


def validate_decode_strict(encodings):
    """validate_decode, with the RV32-reserved encodings that llvm-mc prints leniently set aside.
    Returns dict(compared, unmodelled, reserved_lenient, mismatches)."""
    n, unmodelled, bad = validate_decode(encodings)
    if bad == ["llvm-mc not available"]:
        return {"compared": 0, "unmodelled": 0, "reserved_lenient": 0, "mismatches": bad}
    real, lenient = [], 0
    for msg in bad:
        m = re.match(r"encoding 0x([0-9a-f]+): rv32.py None,", msg)
        if m and is_rv32_reserved(int(m.group(1), 16), len(m.group(1)) // 2):
            lenient += 1
        else:
            real.append(msg)
    return {"compared": n - lenient, "unmodelled": unmodelled, "reserved_lenient": lenient, "mismatches": real}


# ---------------------------------------------------------------------------
# a tiny static linker for clang's relocatable RISC-V ELF (the image has no RISC-V linker)

R_32, R_BRANCH, R_JAL, R_CALL, R_CALL_PLT = 1, 16, 17, 18, 19
R_PCREL_HI20, R_PCREL_LO12_I, R_PCREL_LO12_S, R_HI20, R_LO12_I, R_LO12_S = 23, 24, 25, 26, 27, 28
R_RVC_BRANCH, R_RVC_JUMP = 44, 45
SHF_WRITE, SHF_ALLOC = 1, 2


class LinkError(Exception):
    pass


def _set_bits(word, fields):
    for lo, width, val in fields:
        mask = ((1 << width) - 1) << lo
        word = (word & ~mask) | ((val << lo) & mask)
    return word


def link_elf(data, base=0x10000):
    """Lay out the SHF_ALLOC sections of one relocatable ELF from `base` and resolve its relocations.
    Returns (image bytes, {symbol: address}, base)."""
    from . import elfref

    elf = elfref.parse_elf(data)
    if elf["machine"] != 243 or elf["class"] != 32:
        raise LinkError("not an ELF32 RISC-V file")
    addr = base
    place = {}
    for i, s in enumerate(elf["sections"]):
        if s["flags"] & SHF_ALLOC and s["type"] in (elfref.SHT_PROGBITS, elfref.SHT_NOBITS):
            al = max(1, s["addralign"])
            addr = (addr + al - 1) // al * al
            place[i] = addr
            addr += s["size"]
    image = bytearray(addr - base)
    for i, a in place.items():
        s = elf["sections"][i]
        if s["type"] == elfref.SHT_PROGBITS:
            image[a - base : a - base + s["size"]] = s["data"]
    symaddr = []
    symbols = {}
    for y in elf["symbols"]:
        if y["shndx"] in place:
            v = place[y["shndx"]] + y["value"]
        elif y["shndx"] == elfref.SHN_ABS:
            v = y["value"]
        else:
            v = None
        symaddr.append(v)
        if v is not None and y["name"]:
            symbols[y["name"]] = v
    hi_at = {}  # address of an auipc -> the value its PCREL_HI20 refers to
    relocs = [r for r in elf["relocations"] if r["section_index"] in place]
    for r in relocs:
        if r["type"] == R_PCREL_HI20:
            hi_at[place[r["section_index"]] + r["offset"]] = symaddr[r["sym"]] + r["addend"]
    for r in relocs:
        P = place[r["section_index"]] + r["offset"]
        o = P - base
        S = symaddr[r["sym"]]
        if S is None:
            raise LinkError("undefined symbol %r" % elf["symbols"][r["sym"]]["name"])
        V = S + r["addend"]
        t = r["type"]
        w = int.from_bytes(image[o : o + 4], "little")
        h = w & 0xFFFF
        if t == R_32:
            image[o : o + 4] = (V & M32).to_bytes(4, "little")
        elif t in (R_HI20, R_PCREL_HI20):
            x = V if t == R_HI20 else V - P
            image[o : o + 4] = _set_bits(w, [(12, 20, (x + 0x800) >> 12)]).to_bytes(4, "little")
        elif t in (R_LO12_I, R_LO12_S, R_PCREL_LO12_I, R_PCREL_LO12_S):
            x = V if t in (R_LO12_I, R_LO12_S) else hi_at[V] - V  # pcrel_lo: the symbol is the auipc's label
            lo = x - (((x + 0x800) >> 12) << 12)
            if t in (R_LO12_I, R_PCREL_LO12_I):
                w = _set_bits(w, [(20, 12, lo)])
            else:
                w = _set_bits(w, [(25, 7, lo >> 5), (7, 5, lo)])
            image[o : o + 4] = w.to_bytes(4, "little")
        elif t in (R_CALL, R_CALL_PLT):
            x = V - P
            w2 = int.from_bytes(image[o + 4 : o + 8], "little")
            image[o : o + 4] = _set_bits(w, [(12, 20, (x + 0x800) >> 12)]).to_bytes(4, "little")
            image[o + 4 : o + 8] = _set_bits(w2, [(20, 12, x)]).to_bytes(4, "little")
        elif t == R_BRANCH:
            x = V - P
            w = _set_bits(w, [(31, 1, x >> 12), (7, 1, x >> 11), (25, 6, x >> 5), (8, 4, x >> 1)])
            image[o : o + 4] = w.to_bytes(4, "little")
        elif t == R_JAL:
            x = V - P
            w = _set_bits(w, [(31, 1, x >> 20), (12, 8, x >> 12), (20, 1, x >> 11), (21, 10, x >> 1)])
            image[o : o + 4] = w.to_bytes(4, "little")
        elif t == R_RVC_BRANCH:
            x = V - P
            h = _set_bits(h, [(12, 1, x >> 8), (10, 2, x >> 3), (5, 2, x >> 6), (3, 2, x >> 1), (2, 1, x >> 5)])
            image[o : o + 2] = h.to_bytes(2, "little")
        elif t == R_RVC_JUMP:
            x = V - P
            h = _set_bits(h, [(12, 1, x >> 11), (11, 1, x >> 4), (9, 2, x >> 8), (8, 1, x >> 10), (7, 1, x >> 6), (6, 1, x >> 7), (3, 3, x >> 1), (2, 1, x >> 5)])
            image[o : o + 2] = h.to_bytes(2, "little")
        else:
            raise LinkError("relocation type %d not handled" % t)
    return bytes(image), symbols, base


# ---------------------------------------------------------------------------
# (b) semantic validation: clang-compiled C on the emulator vs the same C compiled natively with gcc


def _prng(seed):
    i = 0
    while True:
        h = hashlib.blake2b(("%s/%d" % (seed, i)).encode(), digest_size=32).digest()
        i += 1
        for k in range(0, 32, 4):
            yield int.from_bytes(h[k : k + 4], "little")


CORPUS_FIXED = r"""
typedef unsigned char u8; typedef signed char s8; typedef unsigned short u16; typedef short s16;
typedef unsigned int u32; typedef int s32; typedef unsigned long long u64; typedef long long s64;
#define NI __attribute__((noinline))
void *memcpy(void *d, const void *s, __SIZE_TYPE__ n) { u8 *p = d; const u8 *q = s; while (n--) *p++ = *q++; return d; }
void *memset(void *d, int c, __SIZE_TYPE__ n) { u8 *p = d; while (n--) *p++ = (u8)c; return d; }
static u32 tab[8] = {3, 1, 4, 1, 5, 9, 2, 6};
u32 gcounter = 7;
s16 gshorts[4] = {-1, 2, -300, 400};
NI u32 k_gcd(u32 a, u32 b, u32 c, u32 d) { a |= 1; b |= 1; while (b) { u32 t = a % b; a = b; b = t; } return a + c - d; }
NI u32 k_fib(u32 n) { return n < 2 ? n : k_fib(n - 1) + k_fib(n - 2); }
u32 k_fibw(u32 a, u32 b, u32 c, u32 d) { return k_fib(a % 15) + k_fib(b % 11) * c - d; }
u32 k_pop(u32 a, u32 b, u32 c, u32 d) { u32 n = 0; for (u32 x = a ^ b; x; x &= x - 1) n++; return n * 17 + (c > d) + ((s32)c > (s32)d) * 2; }
u32 k_switch(u32 a, u32 b, u32 c, u32 d) {
  switch (a % 9) { case 0: return b + c; case 1: return b - c; case 2: return b * c; case 3: return c ? b / c : 5;
    case 4: return c ? b % c : 6; case 5: return b << (c & 31); case 6: return b >> (c & 31); case 7: return (u32)((s32)b >> (c & 31)); }
  return d;
}
u32 k_sdiv(u32 a, u32 b, u32 c, u32 d) {
  s32 x = (s32)a, y = (s32)b; if (y == 0 || (x == (-2147483647 - 1) && y == -1)) return c ^ d;
  return (u32)(x / y) * 3 + (u32)(x % y) + (c < d) + ((s32)c < (s32)d) * 2 + (c <= 7) * 4 + ((s32)d < -5) * 8;
}
u32 k_tab(u32 a, u32 b, u32 c, u32 d) { gcounter += a; tab[b & 7] ^= c; u32 r = tab[a & 7] + tab[(a >> 3) & 7] * gcounter + (u32)gshorts[d & 3]; gshorts[c & 3] = (s16)d; return r; }
static u32 op_add(u32 a, u32 b) { return a + b; } static u32 op_sub(u32 a, u32 b) { return a - b; }
static u32 op_mul(u32 a, u32 b) { return a * b; } static u32 op_xor(u32 a, u32 b) { return a ^ (b << 1); }
static u32 (*const ops[4])(u32, u32) = {op_add, op_sub, op_mul, op_xor};
u32 k_fptr(u32 a, u32 b, u32 c, u32 d) { return ops[a & 3](b, c) + ops[(a >> 2) & 3](c, d); }
u32 k_sort(u32 a, u32 b, u32 c, u32 d) {
  u32 v[6] = {a, b, c, d, a ^ d, b + c};
  for (int i = 1; i < 6; i++) { u32 x = v[i]; int j = i; while (j > 0 && v[j - 1] > x) { v[j] = v[j - 1]; j--; } v[j] = x; }
  return v[0] + 3 * v[1] + 5 * v[2] + 7 * v[3] + 11 * v[4] + 13 * v[5];
}
u32 k_mulh(u32 a, u32 b, u32 c, u32 d) {
  u64 uu = (u64)a * b; s64 ss = (s64)(s32)a * (s32)b; s64 su = (s64)(s32)c * (s64)(u64)d;
  return (u32)(uu >> 32) ^ (u32)((u64)ss >> 32) ^ (u32)((u64)su >> 32) ^ (u32)uu;
}
u32 k_narrow(u32 a, u32 b, u32 c, u32 d) { s8 x = (s8)a; u8 y = (u8)b; s16 z = (s16)c; u16 w = (u16)d; return (u32)(x * y) + (u32)(z * w) + (u32)(x < z) + (y < w) * 2; }
struct P { u8 t; u32 v; s16 h; u8 arr[5]; };
static NI u32 use_p(struct P *p) { return p->t + p->v * 3 + (u32)p->h + p->arr[p->t % 5]; }
u32 k_struct(u32 a, u32 b, u32 c, u32 d) { struct P p; p.t = (u8)a; p.v = b; p.h = (s16)c; for (int i = 0; i < 5; i++) p.arr[i] = (u8)(d >> (i * 5)); struct P q = p; q.v ^= 1; return use_p(&p) ^ use_p(&q); }
u64 q_arith(u64 a, u64 b) { return (a + b) ^ (a - b) ^ (a * b) ^ (a << (b & 63)) ^ (a >> (b & 63)) ^ (u64)((s64)a >> (a & 63)); }
u64 q_cmp(u64 a, u64 b) { return (a < b) + 2 * ((s64)a < (s64)b) + 4 * (a == b) + ((a > b ? a : b) << 3); }
u64 q_mix(u32 a, u64 b, u32 c, u64 d, u32 e, u64 f) { return a + b * 3 + c * 5u + d * 7 + e * 11u + f * 13; }
u32 t_many(u32 a, u32 b, u32 c, u32 d, u32 e, u32 f, u32 g, u32 h, u32 i, u32 j) { return a + 2 * b + 3 * c + 4 * d + 5 * e + 6 * f + 7 * g + 8 * h + 9 * i + 10 * j; }
u64 t_many64(u32 a, u32 b, u32 c, u32 d, u32 e, u32 f, u32 g, u32 h, u32 i, u64 j, u32 k) { return a + b + c + d + e + f + g + h + i * 3 + j * 5 + k * 7; }
u32 b_bytes(u8 *buf, u32 n, u32 x) { u32 s = 0; for (u32 i = 0; i < n; i++) { s = s * 31 + buf[i]; buf[i] = (u8)(buf[i] + x + i); } return s; }
u32 b_halves(u8 *buf, u32 n, u32 x) { s16 *p = (s16 *)buf; u16 *q = (u16 *)buf; u32 s = 0; for (u32 i = 0; i < n / 2; i++) { s += (u32)p[i] * 3 + q[i]; p[i] = (s16)(p[i] ^ x); } return s; }
u32 b_words(u8 *buf, u32 n, u32 x) { u32 *p = (u32 *)buf; s8 *q = (s8 *)buf; u32 s = 0; for (u32 i = 0; i < n / 4; i++) { s ^= p[i] + (u32)q[i]; p[i] = p[i] * x + i; } return s; }
u32 b_copy(u8 *buf, u32 n, u32 x) { u8 tmp[24]; memset(tmp, (int)x, sizeof tmp); memcpy(tmp + 3, buf + (x & 7), n % 17); memcpy(buf + 32, tmp, 24); return tmp[5] + tmp[20]; }
u32 b_crc(u8 *buf, u32 n, u32 x) { u32 c = ~x; for (u32 i = 0; i < n; i++) { c ^= buf[i]; for (int k = 0; k < 8; k++) c = (c >> 1) ^ (0xEDB88320u & (0u - (c & 1))); } return ~c; }
"""

_FIXED_FUNCS = {
    "u4": ["k_gcd", "k_fibw", "k_pop", "k_switch", "k_sdiv", "k_tab", "k_fptr", "k_sort", "k_mulh", "k_narrow", "k_struct"],
    "q2": ["q_arith", "q_cmp"],
    "mix": ["q_mix"],
    "u10": ["t_many"],
    "m64": ["t_many64"],
    "buf": ["b_bytes", "b_halves", "b_words", "b_copy", "b_crc"],
}
_EDGE32 = [0, 1, 2, 0xFFFFFFFF, 0x80000000, 0x7FFFFFFF, 0xFFFFFFFE, 31, 32, 0x8000, 0xFFFF, 0x10000, 0x7F, 0x80, 0xFF, 0x100]


def _gen_expr(g, depth, signed_vars=("sa", "sb", "sc", "sd"), uvars=("a", "b", "c", "d")):
    """A UB-free C expression of type u32 over a..d (u32) and sa..sd (their s32 views)."""
    r = next(g)
    if depth == 0 or r % 7 == 0:
        k = next(g) % 10
        if k < 5:
            return uvars[next(g) % 4]
        if k < 7:
            return "(u32)%s" % signed_vars[next(g) % 4]
        v = _EDGE32[next(g) % len(_EDGE32)] if next(g) % 2 else next(g)
        return "%du" % v
    x = _gen_expr(g, depth - 1)
    y = _gen_expr(g, depth - 1)
    k = next(g) % 22
    if k < 3:
        return "(%s %s %s)" % (x, "+-*"[k], y)
    if k < 6:
        return "(%s %s %s)" % (x, "&|^"[k - 3], y)
    if k == 6:
        return "(%s << (%s & 31))" % (x, y)
    if k == 7:
        return "(%s >> (%s & 31))" % (x, y)
    if k == 8:
        return "(u32)((s32)%s >> (%s & 31))" % (x, y)
    if k == 9:
        return "(%s / (%s | 1u))" % (x, y)
    if k == 10:
        return "(%s %% (%s | 1u))" % (x, y)
    if k == 11:
        return "(u32)((s32)%s / ((s32)(%s & 0x7fffffffu) | 1))" % (x, y)  # divisor > 0: no overflow, no zero
    if k == 12:
        return "(u32)((s32)%s %% ((s32)(%s & 0x7fffffffu) | 1))" % (x, y)
    if k == 13:
        return "(u32)(%s %s %s)" % (x, ["<", "<=", "==", "!=", ">", ">="][next(g) % 6], y)
    if k == 14:
        return "(u32)((s32)%s %s (s32)%s)" % (x, ["<", "<=", ">", ">="][next(g) % 4], y)
    if k == 15:
        return "(%s ? %s : %s)" % (_gen_expr(g, depth - 1), x, y)
    if k == 16:
        return "(u32)(%s)%s" % (["s8", "u8", "s16", "u16"][next(g) % 4], x)
    if k == 17:
        return "(u32)(((u64)%s * %s) >> 32)" % (x, y)
    if k == 18:
        return "(u32)((u64)((s64)(s32)%s * (s32)%s) >> 32)" % (x, y)
    if k == 19:
        return "(~%s)" % x
    if k == 20:
        return "(0u - %s)" % x
    return "(%s + %du)" % (x, next(g) % 4096 if next(g) % 2 else (next(g) | 0xFFFFF000))


def corpus_source(n_generated, seed="rv32-corpus"):
    g = _prng(seed)
    src = [CORPUS_FIXED]
    names = []
    for i in range(n_generated):
        body = []
        nst = 1 + next(g) % 3
        for k in range(nst):
            body.append("  u32 t%d = %s;" % (k, _gen_expr(g, 3)))
            body.append("  %s ^= t%d; s%s = (s32)%s;" % ("abcd"[k], k, "abcd"[k], "abcd"[k]))
        loop = ""
        if next(g) % 3 == 0:
            loop = "  for (u32 i = 0; i < (d & 7); i++) { a = a * 33 + (b >> (i & 31)); sa = (s32)a; }\n"
        src.append(
            "u32 g_%d(u32 a, u32 b, u32 c, u32 d) {\n  s32 sa = (s32)a, sb = (s32)b, sc = (s32)c, sd = (s32)d;\n%s\n%s  return %s;\n}\n"
            % (i, "\n".join(body), loop, _gen_expr(g, 3))
        )
        names.append("g_%d" % i)
    return "\n".join(src), names


def _vectors(kind, n, g):
    def u32():
        return _EDGE32[next(g) % len(_EDGE32)] if next(g) % 3 == 0 else next(g)

    def u64():
        k = next(g) % 4
        if k == 0:
            return u32()
        if k == 1:
            return u32() << 32
        return u32() << 32 | u32()

    res = []
    for _ in range(n):
        if kind == "u4":
            res.append([u32() for _ in range(4)])
        elif kind == "q2":
            res.append([u64(), u64()])
        elif kind == "mix":
            res.append([u32(), u64(), u32(), u64(), u32(), u64()])
        elif kind == "u10":
            res.append([u32() for _ in range(10)])
        elif kind == "m64":
            res.append([u32() for _ in range(9)] + [u64(), u32()])
        else:
            res.append([next(g) % 65, u32(), next(g)])  # n, x, buffer seed
    return res


_KIND_SIG = {
    "u4": (["u32"] * 4, "u32"),
    "q2": (["u64"] * 2, "u64"),
    "mix": (["u32", "u64", "u32", "u64", "u32", "u64"], "u64"),
    "u10": (["u32"] * 10, "u32"),
    "m64": (["u32"] * 9 + ["u64", "u32"], "u64"),
}


def _buf_init(seed):
    return bytes((seed * 2654435761 + i * 40503 + (i * i) * 7) >> 7 & 0xFF for i in range(64))


def _native_driver(calls):
    """calls: list of (kind, fname, args).  C main printing one line per call."""
    out = ["#include <stdio.h>", "static u8 buf[64] __attribute__((aligned(8)));", "int main(void) {"]
    for kind, fname, args in calls:
        if kind == "buf":
            n, x, seed = args
            init = ",".join(str(b) for b in _buf_init(seed))
            out.append("  { static const u8 init[64] = {%s}; memcpy(buf, init, 64); u32 r = %s(buf, %du, %du);" % (init, fname, n, x))
            out.append('    printf("%08x ", r); for (int i = 0; i < 64; i++) printf("%02x", buf[i]); printf("\\n"); }')
        else:
            types, rt = _KIND_SIG[kind]
            al = ", ".join(("%du" % a) if t == "u32" else ("%dull" % a) for t, a in zip(types, args))
            if rt == "u32":
                out.append('  printf("%%08x\\n", %s(%s));' % (fname, al))
            else:
                out.append('  printf("%%016llx\\n", (unsigned long long)%s(%s));' % (fname, al))
    out.append("  return 0;\n}")
    return "\n".join(out)


ASM_VECTORS = r"""
# each function returns a value defined by the ISA manual (expected values in _ASM_EXPECT)
    .globl v_div0, v_divu0, v_rem0, v_remu0, v_divov, v_remov, v_x0, v_jalr_bit0, v_misal, v_signext, v_sltiu, v_auipc, v_cjal, v_shamt
v_div0:   li a1, 0
          div a0, a0, a1
          ret
v_divu0:  li a1, 0
          divu a0, a0, a1
          ret
v_rem0:   li a1, 0
          rem a0, a0, a1
          ret
v_remu0:  li a1, 0
          remu a0, a0, a1
          ret
v_divov:  lui a0, 0x80000
          li a1, -1
          div a0, a0, a1
          ret
v_remov:  lui a0, 0x80000
          li a1, -1
          rem a0, a0, a1
          ret
v_x0:     addi x0, a0, 5
          add a0, x0, x0
          lw x0, 0(sp)
          addi a0, x0, 9
          ret
v_jalr_bit0:
          la a1, 1f
          addi a1, a1, 1
          jalr x0, 0(a1)
          li a0, 1
          ret
1:        li a0, 2
          ret
v_misal:  addi sp, sp, -16
          li a1, 0x11223344
          li a2, 0x55667788
          sw a1, 0(sp)
          sw a2, 4(sp)
          lw a0, 1(sp)
          sh a0, 7(sp)
          lhu a1, 7(sp)
          add a0, a0, a1
          addi sp, sp, 16
          ret
v_signext: addi sp, sp, -16
          li a1, 0x8081f0ff
          sw a1, 0(sp)
          lb a0, 0(sp)
          lbu a1, 1(sp)
          lh a2, 2(sp)
          lhu a3, 2(sp)
          add a0, a0, a1
          add a0, a0, a2
          add a0, a0, a3
          addi sp, sp, 16
          ret
v_sltiu:  sltiu a1, a0, -1
          slti a2, a0, -1
          slli a2, a2, 1
          or a0, a1, a2
          ret
v_auipc:  auipc a0, 0xfffff
1:        auipc a1, 0
          sub a0, a1, a0
          ret
v_cjal:   mv a2, ra
          .option push
          .option rvc
          c.jal 2f
          .option pop
          mv ra, a2
          ret
2:        addi a0, ra, 0
          la a1, v_cjal
          sub a0, a0, a1
          ret
    .globl v_br, v_div, v_divu, v_rem, v_remu, v_mulh, v_mulhu, v_mulhsu
.macro BR op, bit
          \op a2, a1, 1f
          j 2f
1:        ori a0, a0, \bit
2:
.endm
v_br:     mv a2, a0
          li a0, 0
          BR beq, 1
          BR bne, 2
          BR blt, 4
          BR bge, 8
          BR bltu, 16
          BR bgeu, 32
          slt a3, a2, a1
          slli a3, a3, 6
          or a0, a0, a3
          sltu a3, a2, a1
          slli a3, a3, 7
          or a0, a0, a3
          ret
v_div:    div a0, a0, a1
          ret
v_divu:   divu a0, a0, a1
          ret
v_rem:    rem a0, a0, a1
          ret
v_remu:   remu a0, a0, a1
          ret
v_mulh:   mulh a0, a0, a1
          ret
v_mulhu:  mulhu a0, a0, a1
          ret
v_mulhsu: mulhsu a0, a0, a1
          ret
v_shamt:  li a1, 0x80000001
          li a2, 33
          sll a3, a1, a2
          srl a4, a1, a2
          sra a5, a1, a2
          add a0, a3, a4
          add a0, a0, a5
          ret
"""
# (function, a0 argument, expected a0) per the ISA manual: M-extension division semantics (table 7.1), x0 hard-wired,
# JALR clears bit 0, loads sign/zero extend, SLTIU compares with the sign-extended immediate as unsigned,
# AUIPC adds imm << 12 to its own pc, c.jal links pc+2 into x1 (the preceding `mv` assembles to the 2-byte c.mv, so
# the link value is v_cjal+4), register shifts use the low 5 bits.
_ASM_EXPECT = [
    ("v_div0", 1234, 0xFFFFFFFF), ("v_div0", 0x80000000, 0xFFFFFFFF), ("v_divu0", 77, 0xFFFFFFFF),
    ("v_rem0", 0xFFFFFF85, 0xFFFFFF85), ("v_remu0", 0x80000005, 0x80000005),
    ("v_divov", 0, 0x80000000), ("v_remov", 0, 0), ("v_x0", 55, 9), ("v_jalr_bit0", 0, 2),
    ("v_misal", 0, (0x88112233 + 0x2233) & M32), ("v_signext", 0, (0xFFFFFFFF + 0xF0 + 0xFFFF8081 + 0x8081) & M32),
    ("v_sltiu", 5, 1), ("v_sltiu", 0xFFFFFFFF, 0), ("v_sltiu", 0xFFFFFFF0, 3), ("v_auipc", 0, 0x1004),
    ("v_cjal", 0, 4), ("v_shamt", 0, (2 + 0x40000000 + 0xC0000000) & M32),
    # bit 0 beq, 1 bne, 2 blt, 3 bge, 4 bltu, 5 bgeu, 6 slt, 7 sltu of (a0, a1)
    ("v_br", (5, 5), 0x29), ("v_br", (0, 0), 0x29), ("v_br", (0xFFFFFFFF, 1), 0x66), ("v_br", (1, 0xFFFFFFFF), 0x9A),
    ("v_br", (0x80000000, 0x7FFFFFFF), 0x66), ("v_br", (0x7FFFFFFF, 0x80000000), 0x9A), ("v_br", (3, 4), 0xD6),
    # division rounds towards zero, the remainder has the sign of the dividend
    ("v_div", (7, 0xFFFFFFFE), 0xFFFFFFFD), ("v_rem", (7, 0xFFFFFFFE), 1), ("v_div", (0xFFFFFFF9, 2), 0xFFFFFFFD),
    ("v_rem", (0xFFFFFFF9, 2), 0xFFFFFFFF), ("v_div", (0xFFFFFFF9, 0xFFFFFFFE), 3), ("v_rem", (0xFFFFFFF9, 0xFFFFFFFE), 0xFFFFFFFF),
    ("v_divu", (0xFFFFFFF9, 2), 0x7FFFFFFC), ("v_remu", (0xFFFFFFF9, 2), 1),
    ("v_mulh", (0xFFFFFFFF, 0xFFFFFFFF), 0), ("v_mulhu", (0xFFFFFFFF, 0xFFFFFFFF), 0xFFFFFFFE),
    ("v_mulhsu", (0xFFFFFFFF, 0xFFFFFFFF), 0xFFFFFFFF), ("v_mulhsu", (1, 0xFFFFFFFF), 0), ("v_mulhsu", (0x7FFFFFFF, 0xFFFFFFFF), 0x7FFFFFFE),
    ("v_mulh", (0x80000000, 0x80000000), 0x40000000), ("v_mulh", (0x80000000, 2), 0xFFFFFFFF),
]  # fmt: skip


def _run(cmd, **kw):
    p = subprocess.run(cmd, capture_output=True, **kw)
    if p.returncode != 0:
        raise RuntimeError("%s failed: %s" % (" ".join(cmd[:3]), p.stderr.decode("latin-1")[:800]))
    return p


CLANG_FLAGS = ["--target=riscv32", "-march=rv32imc", "-mabi=ilp32", "-mno-relax", "-ffreestanding", "-fno-builtin", "-c"]


def _emu_call(image, symbols, base, kind, fname, args):
    m = Machine(rvc=True, step_limit=3_000_000)
    m.map(base, len(image) + 16, image, name="image")
    m.map_stack()
    if kind == "buf":
        n, x, seed = args
        baddr = 0x800000
        m.map(baddr, 64, _buf_init(seed), name="buf")
        r = m.call(symbols[fname], [baddr, n, x])
        return "%08x %s" % (r, m.read(baddr, 64).hex()), m
    types, rt = _KIND_SIG[kind]
    m.call(symbols[fname], [a if t == "u32" else ("i64", a) for t, a in zip(types, args)])
    return ("%08x" % m.regs[10]) if rt == "u32" else ("%016x" % m.ret64()), m


def validate_semantics(n_generated=24, n_vectors=6, opt_levels=("-O1",), tmpdir=None, seed="rv32-corpus"):
    """Returns dict(calls, functions, instructions, problems, executed) - problems is a list of strings."""
    own = tmpdir is None
    tmpdir = tmpdir or tempfile.mkdtemp(prefix="vf-rv32-")
    res = {"calls": 0, "functions": 0, "instructions": 0, "problems": [], "executed": set(), "misaligned": 0}
    try:
        src, gnames = corpus_source(n_generated, seed)
        g = _prng(seed + "/vec")
        calls = []
        for kind, names in list(_FIXED_FUNCS.items()) + [("u4", gnames)]:
            for fname in names:
                for args in _vectors(kind, n_vectors, g):
                    calls.append((kind, fname, args))
        res["functions"] = sum(len(v) for v in _FIXED_FUNCS.values()) + len(gnames)
        cpath = os.path.join(tmpdir, "corpus.c")
        with open(cpath, "w") as f:
            f.write(src)
        dpath = os.path.join(tmpdir, "driver.c")
        with open(dpath, "w") as f:
            f.write(src + "\n" + _native_driver(calls))
        exe = os.path.join(tmpdir, "driver")
        # the native run is re-done per call list because k_tab mutates globals: order matters, and the emulator
        # side keeps one image per call - so globals are reset natively too: one process per function is too slow,
        # instead the functions touching globals get their state re-initialised by running each call in a fork.
        _run(["gcc", "-O1", "-fno-builtin", "-fno-strict-aliasing", "-w", "-o", exe, dpath])
        native = _run([exe]).stdout.decode().split("\n")
        # assembler vectors
        apath = os.path.join(tmpdir, "vec.s")
        with open(apath, "w") as f:
            f.write(ASM_VECTORS)
        aobj = os.path.join(tmpdir, "vec.o")
        _run([llvm_mc(), "-triple=riscv32", "-mattr=+m,+c", "-filetype=obj", "-o", aobj, apath])
        image, symbols, base = link_elf(open(aobj, "rb").read())
        for fname, a0, expect in _ASM_EXPECT:
            m = Machine()
            m.map(base, len(image) + 16, image)
            try:
                got = m.call(symbols[fname], list(a0) if isinstance(a0, tuple) else [a0])
            except EmuError as e:
                res["problems"].append("asm vector %s(%r): %s" % (fname, a0, e))
                continue
            res["executed"] |= m.executed
            res["calls"] += 1
            if got != expect:
                res["problems"].append("asm vector %s(%r) = %#x, the ISA manual says %#x" % (fname, a0, got, expect))
        for opt in opt_levels:
            obj = os.path.join(tmpdir, "corpus%s.o" % opt)
            _run(["clang"] + CLANG_FLAGS + [opt, "-fno-strict-aliasing", "-w", "-o", obj, cpath])
            image, symbols, base = link_elf(open(obj, "rb").read())
            # k_tab mutates globals; natively all calls share one process, so emulate them in one machine
            # in the same order: keep the data image across calls.
            m_shared = None
            for (kind, fname, args), want in zip(calls, native):
                if fname == "k_tab":
                    if m_shared is None:
                        m_shared = Machine(rvc=True, step_limit=3_000_000)
                        m_shared.map(base, len(image) + 16, image, name="image")
                        m_shared.map_stack()
                    m_shared.call(symbols[fname], args)
                    got, m = "%08x" % m_shared.regs[10], m_shared
                else:
                    try:
                        got, m = _emu_call(image, symbols, base, kind, fname, args)
                    except EmuError as e:
                        res["problems"].append("%s %s%r: %s" % (opt, fname, args, e))
                        continue
                res["calls"] += 1
                res["instructions"] += m.steps if m is not m_shared else 0
                res["executed"] |= m.executed
                res["misaligned"] += m.misaligned
                if got != want:
                    res["problems"].append("%s %s%r: emulator %s, native gcc %s" % (opt, fname, args, got[:40], want[:40]))
    finally:
        if own:
            shutil.rmtree(tmpdir, ignore_errors=True)
    return res


def _sample32(n, seed="rv32-dec"):
    g = _prng(seed)
    majors = [0x37, 0x17, 0x6F, 0x67, 0x63, 0x03, 0x23, 0x13, 0x33, 0x0F, 0x73]
    out = []
    for i in range(n):
        w = next(g)
        if i % 4:
            opc = majors[next(g) % len(majors)]
            w = (w & ~0x7F) | opc
            if opc == 0x33 and next(g) % 4:
                w = (w & 0x01FFFFFF) | [0, 0x20, 1][next(g) % 3] << 25
            if opc == 0x13 and next(g) % 2:
                w = (w & 0x01FFFFFF) | [0, 0x20][next(g) % 2] << 25
        if w & 3 == 3:
            out.append((w, 4))
    return out


_SELFCHECK_MEMO = {}


def selfcheck(level="quick", tmpdir=None, use_cache=True):
    """Self-validation independent of ppci.  level 'quick': fixed corpus + 24 generated functions at -O1, decode of
    every executed encoding; the result is cached in /verif/.build keyed by this file's hash (cached quick subset).
    level 'thorough': 120 generated functions at -O0/-O1/-O2/-Os, every 16-bit encoding and 150 000 sampled 32-bit
    encodings compared with llvm-mc.  Returns a json-able dict with 'ok' and 'problems'."""
    import json

    if level in _SELFCHECK_MEMO:
        return _SELFCHECK_MEMO[level]
    here = os.path.dirname(os.path.abspath(__file__))
    key = hashlib.blake2b(open(os.path.abspath(__file__), "rb").read() + open(os.path.join(here, "elfref.py"), "rb").read(), digest_size=8).hexdigest()
    cdir = os.path.join(os.path.dirname(here), ".build")
    cpath = os.path.join(cdir, "rv32-selfcheck-%s-%s.json" % (level, key))
    if use_cache and level == "quick" and os.path.exists(cpath):
        try:
            with open(cpath) as f:
                r = json.load(f)
            r["cached"] = True
            _SELFCHECK_MEMO[level] = r
            return r
        except ValueError:
            pass
    for tool in ("clang", "gcc"):
        if not shutil.which(tool):
            return {"ok": False, "problems": ["%s not found" % tool]}
    if not llvm_mc():
        return {"ok": False, "problems": ["llvm-mc not found"]}
    if level == "quick":
        sem = validate_semantics(24, 5, ("-O1",), tmpdir)
        encs = set(sem["executed"])
    else:
        sem = validate_semantics(120, 10, ("-O0", "-O1", "-O2", "-Os"), tmpdir)
        encs = set(sem["executed"]) | {(h, 2) for h in range(65536) if h & 3 != 3} | set(_sample32(150000))
    dec = validate_decode_strict(sorted(encs))
    r = {
        "level": level,
        "ok": not sem["problems"] and not dec["mismatches"],
        "problems": (sem["problems"] + dec["mismatches"])[:20],
        "semantic_calls": sem["calls"],
        "semantic_functions": sem["functions"],
        "emulated_instructions": sem["instructions"],
        "distinct_encodings_executed": len(sem["executed"]),
        "misaligned_accesses": sem["misaligned"],
        "decode_compared": dec["compared"],
        "decode_unmodelled": dec["unmodelled"],
        "decode_reserved_lenient_in_llvm": dec["reserved_lenient"],
        "cached": False,
    }
    if level == "quick" and r["ok"]:
        try:
            os.makedirs(cdir, exist_ok=True)
            tmp = cpath + ".%d.tmp" % os.getpid()
            with open(tmp, "w") as f:
                json.dump(r, f)
            os.replace(tmp, cpath)
        except OSError:
            pass
    _SELFCHECK_MEMO[level] = r
    return r


if __name__ == "__main__":
    import json
    import sys

    print(json.dumps(selfcheck(sys.argv[1] if len(sys.argv) > 1 else "quick", use_cache=False), indent=1))
