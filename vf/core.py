"""Common runner for the property checks (DESIGN.md section 2).

A property module (vf/props/cNN.py) provides

    PID, RULE, ASSUMPTIONS, TRUSTED      metadata (strings / lists)
    run(ctx)                             the search; records into ctx.stats, reports
                                         failures through ctx.fail(case, msg)
    replay(case) -> None | str           re-evaluate ONE json case without Hypothesis;
                                         returns a failure message or None; may raise Discard
    classify(case, msg) -> None | id     attribute a failure to an open known finding
                                         (narrow signature), optional

Exit codes: 0 held (maybe KNOWN-FINDING lines), 1 VIOLATION, 2 harness error.
"""

import collections
import hashlib
import json
import multiprocessing
import os
import shutil
import sys
import tempfile
import time
import traceback

VERIF = os.path.dirname(os.path.dirname(os.path.abspath(__file__)))
REPO = os.environ.get("VERIF_REPO", "/repo")
NWORKERS = int(os.environ.get("VERIF_WORKERS", "16"))


class Discard(Exception):
    """The case is outside the property's domain (counted, never a failure)."""

    def __init__(self, reason="discard"):
        super().__init__(reason)
        self.reason = reason


class HarnessError(Exception):
    pass


def jhash(obj):
    """Stable 64-bit hash of a json-able object."""
    s = json.dumps(obj, sort_keys=True, default=repr).encode()
    return int.from_bytes(hashlib.blake2b(s, digest_size=8).digest(), "big")


def subseed(*parts):
    s = "/".join(str(p) for p in parts).encode()
    return int.from_bytes(hashlib.blake2b(s, digest_size=4).digest(), "big")


class Stats:
    """Mergeable counters describing what a run explored."""

    MAX_SAMPLES = 6
    MAX_KEYS = 2_000_000

    def __init__(self):
        self.evaluations = 0
        self.nontrivial_keys = set()
        self.nontrivial_counted = 0  # distinct by construction (enumerations)
        self.samples = []
        self.hist = collections.Counter()
        self.discarded = collections.Counter()
        self.excluded = collections.Counter()
        self.known = collections.Counter()
        self.notes = []
        self.unreproduced = 0
        self.budget_skipped = 0

    # -- recording ---------------------------------------------------------
    def case(self, key=None, nontrivial=False, sample=None, classes=()):
        """Record one evaluated case.  key: any json-able identity of the case."""
        self.evaluations += 1
        if nontrivial:
            if key is None:
                self.nontrivial_counted += 1
            elif len(self.nontrivial_keys) < self.MAX_KEYS:
                self.nontrivial_keys.add(key if isinstance(key, int) else jhash(key))
            if sample is not None and len(self.samples) < self.MAX_SAMPLES:
                self.samples.append(sample)
        for c in classes:
            self.hist[c] += 1

    def bulk(self, evaluations, nontrivial_distinct, classes=None):
        """Record an enumerated batch whose cases are distinct by construction."""
        self.evaluations += evaluations
        self.nontrivial_counted += nontrivial_distinct
        if classes:
            self.hist.update(classes)

    def sample(self, s):
        if len(self.samples) < self.MAX_SAMPLES:
            self.samples.append(s)

    def discard(self, reason):
        self.discarded[reason] += 1

    def merge(self, other):
        self.evaluations += other.evaluations
        self.nontrivial_keys |= other.nontrivial_keys
        self.nontrivial_counted += other.nontrivial_counted
        for s in other.samples:
            if len(self.samples) < self.MAX_SAMPLES:
                self.samples.append(s)
        self.hist.update(other.hist)
        self.discarded.update(other.discarded)
        self.excluded.update(other.excluded)
        self.known.update(other.known)
        self.notes.extend(other.notes)
        self.unreproduced += other.unreproduced
        self.budget_skipped += other.budget_skipped

    @property
    def distinct_nontrivial(self):
        return len(self.nontrivial_keys) + self.nontrivial_counted


class Ctx:
    def __init__(self, mod, tier, seed):
        self.mod = mod
        self.pid = mod.PID
        self.tier = tier
        self.seed = seed
        self.quick = tier == "quick"
        self.stats = Stats()
        self.failures = []  # (case, msg)
        self.exhaustive = False
        self.extra = {}
        self.t0 = time.time()
        self.tmp = None

    def fail(self, case, msg):
        self.failures.append((case, msg))

    def scale(self, quick, thorough):
        return quick if self.quick else thorough

    def tmpdir(self):
        if self.tmp is None:
            self.tmp = tempfile.mkdtemp(prefix="vf-%s-" % self.pid)
        return self.tmp

    def pmap(self, fn, args, workers=None):
        """Run fn(arg) -> (Stats, failures) over args in a process pool; merge."""
        workers = workers or NWORKERS
        args = list(args)
        if not args:
            return
        if workers <= 1 or len(args) == 1:
            results = [_guard(fn, a) for a in args]
        else:
            _preload()
            mpctx = multiprocessing.get_context("fork")
            with mpctx.Pool(min(workers, len(args))) as pool:
                results = pool.starmap(_guard, [(fn, a) for a in args], chunksize=1)
        for res in results:
            if res[0] == "error":
                raise HarnessError(res[1])
            st, fails = res[1]
            self.stats.merge(st)
            self.failures.extend(fails)


_PRELOADED = False


def _preload():
    """Warm up Hypothesis in the parent and freeze the heap: a forked worker otherwise runs Hypothesis' first
    gc.collect() over the whole preloaded heap and copies it (seconds of user+system time per worker)."""
    global _PRELOADED
    if _PRELOADED:
        return
    _PRELOADED = True
    try:
        import gc

        from hypothesis import strategies as st

        hyp_search(st.integers(0, 3), lambda c: None, 3, 0, Stats(), shrink=False)
        gc.collect()
        gc.freeze()
    except Exception:
        pass


def _guard(fn, a):
    try:
        return ("ok", fn(a))
    except Exception:
        return ("error", traceback.format_exc())


# ---------------------------------------------------------------------------
# Hypothesis driver


class _PropFailure(Exception):
    pass


class _StopShrink(KeyboardInterrupt):
    """Raised inside a Hypothesis test once the shrink budget is spent (hyp_search)."""


def hyp_search(
    strategy,
    prop,
    n,
    seed,
    stats,
    classify=None,
    shrink=True,
    budget_s=None,
    max_failures=1,
    shrink_budget_s=None,
    skip_first=0,
):
    """Drive prop(case) over `strategy`.

    prop(case) returns None (held), or a failure message; raises Discard for
    cases outside the domain.  Failures that classify() attributes to an open
    known finding are counted and do not stop the search.  Returns a list of
    (case, msg) with the shrunk counterexample (at most one per call).

    skip_first: number of leading generated examples that are not evaluated.  Hypothesis starts every run with the
    minimal example of the strategy (the empty program); a check that can afford two cases per worker would spend half
    of them on it.
    """
    import hypothesis
    from hypothesis import HealthCheck, Phase, given, settings

    t_end = None if budget_s is None else time.time() + budget_s
    if shrink_budget_s is None:
        shrink_budget_s = float(os.environ.get("VERIF_SHRINK_S", "60"))
    last = {}
    seen = [0]
    phases = [Phase.explicit, Phase.generate]
    if shrink:
        phases.append(Phase.shrink)

    @hypothesis.seed(seed)
    @settings(
        max_examples=n + skip_first,
        database=None,
        deadline=None,
        derandomize=False,
        report_multiple_bugs=False,
        suppress_health_check=list(HealthCheck),
        phases=phases,
        print_blob=False,
    )
    @given(strategy)
    def test(case):
        if "case" not in last and seen[0] < skip_first:
            seen[0] += 1
            return
        if t_end is not None and time.time() > t_end and "case" not in last:
            stats.budget_skipped += 1
            return
        if "case" in last and time.time() > last["t"] + shrink_budget_s:
            # shrink budget used up: leave Hypothesis at once (its engine lets a KeyboardInterrupt through untouched);
            # the best example so far is in `last`.  Merely answering 'passes' to every further candidate kept the
            # shrinker busy generating candidates for minutes on large cases.
            raise _StopShrink()
        try:
            msg = prop(case)
        except Discard as d:
            stats.discard(d.reason)
            return
        if msg is None:
            return
        if classify is not None:
            kid = classify(case, msg)
            if kid and kid in open_finding_ids(kid.split("-")[0]):
                stats.known[kid] += 1
                return
        last["case"] = case
        last["msg"] = msg
        last.setdefault("t", time.time())
        raise _PropFailure(msg)

    try:
        test()
    except (_PropFailure, _StopShrink):
        pass
    except BaseException as e:  # hypothesis-internal (Flaky, Unsatisfiable, ...)
        if "case" not in last:
            name = type(e).__name__
            if name in ("Unsatisfiable",):
                stats.notes.append("hypothesis: %s" % name)
                return []
            if name in ("Flaky", "FlakyFailure", "FlakyReplay"):
                stats.notes.append("hypothesis: flaky (%s)" % str(e)[:200])
                return []
            raise
    if "case" in last:
        return [(last["case"], last["msg"])]
    return []


# ---------------------------------------------------------------------------
# Known findings


def load_findings(pid):
    path = os.path.join(VERIF, "known_findings.json")
    if not os.path.exists(path):
        return []
    with open(path) as f:
        data = json.load(f)
    return [e for e in data.get("findings", []) if e.get("property") == pid]


_OPEN_CACHE = {}


def open_finding_ids(pid):
    if pid not in _OPEN_CACHE:
        _OPEN_CACHE[pid] = {e["id"] for e in load_findings(pid) if e.get("status") == "open"}
    return _OPEN_CACHE[pid]


# ---------------------------------------------------------------------------
# Running one property


def _safe_replay(mod, case):
    """Returns ('ok', None|msg) | ('discard', reason) | ('error', tb)."""
    try:
        return ("ok", mod.replay(case))
    except Discard as d:
        return ("discard", d.reason)
    except Exception:
        return ("error", traceback.format_exc())


def _confirm(mod, case):
    """Re-run one case in a fresh forked child (no Hypothesis)."""
    mpctx = multiprocessing.get_context("fork")
    with mpctx.Pool(1) as pool:
        return pool.apply(_confirm_worker, (mod.__name__, case))


def _confirm_worker(modname, case):
    import importlib

    return _safe_replay(importlib.import_module(modname), case)


def write_violation(pid, case, msg):
    d = os.path.join(os.environ.get("VERIF_VIOLATIONS_DIR") or os.path.join(VERIF, "violations"), pid)
    os.makedirs(d, exist_ok=True)
    path = os.path.join(d, "v-%016x.json" % jhash(case))
    with open(path, "w") as f:
        json.dump({"property": pid, "case": case, "message": msg}, f, indent=1, default=repr)
    return path


def load_case(path):
    with open(path) as f:
        data = json.load(f)
    if isinstance(data, dict) and "case" in data:
        return data["case"]
    return data


def run_property(mod, tier, seed):
    pid = mod.PID
    ctx = Ctx(mod, tier, seed)
    classify = getattr(mod, "classify", None)
    findings = load_findings(pid)
    open_ids = {e["id"] for e in findings if e.get("status") == "open"}
    violations = []  # (path, msg)
    known_lines = []
    try:
        # 1. open findings: replay the witness
        for e in findings:
            if e.get("status") != "open":
                continue
            kind, val = _safe_replay(mod, e["witness"])
            if kind == "error":
                raise HarnessError("witness of %s: %s" % (e["id"], val))
            if kind == "ok" and val is not None:
                kid = classify(e["witness"], val) if classify else None
                if kid == e["id"]:
                    known_lines.append("KNOWN-FINDING: property=%s %s: %s" % (pid, e["id"], e["what"]))
                    ctx.stats.known[e["id"]] += 1
                else:
                    # fails, but differently from what was recorded
                    ctx.fail(e["witness"], val)
            else:
                ctx.stats.notes.append("finding %s no longer reproduces (stale entry)" % e["id"])
        # 2. regression corpus
        rdir = os.path.join(VERIF, "replays", pid)
        nrep = 0
        if os.path.isdir(rdir):
            for name in sorted(os.listdir(rdir)):
                if not name.endswith(".json"):
                    continue
                case = load_case(os.path.join(rdir, name))
                kind, val = _safe_replay(mod, case)
                nrep += 1
                if kind == "error":
                    raise HarnessError("replay %s: %s" % (name, val))
                if kind == "ok" and val is not None:
                    ctx.fail(case, val)
        ctx.extra["regression_replays"] = nrep
        # 3. the search
        mod.run(ctx)
        # 4. triage failures
        seen = set()
        for case, msg in ctx.failures:
            if len(violations) >= 5:
                ctx.stats.notes.append("further failures not triaged (5 violations already reported)")
                break
            h = jhash(case)
            if h in seen:
                continue
            seen.add(h)
            kid = classify(case, msg) if classify else None
            if kid and kid in open_ids:
                ctx.stats.known[kid] += 1
                continue
            kind, val = _confirm(mod, case)
            if kind == "ok" and val is not None:
                kid = classify(case, val) if classify else None
                if kid and kid in open_ids:
                    ctx.stats.known[kid] += 1
                    continue
                violations.append((write_violation(pid, case, val), val))
            else:
                ctx.stats.unreproduced += 1
                ctx.stats.notes.append("unreproduced failure (%s): %s" % (kind, str(msg)[:200]))
        status = 1 if violations else 0
    except HarnessError as e:
        print("HARNESS-ERROR property=%s\n%s" % (pid, e))
        status = 2
    except Exception:
        print("HARNESS-ERROR property=%s\n%s" % (pid, traceback.format_exc()))
        status = 2
    finally:
        if ctx.tmp:
            shutil.rmtree(ctx.tmp, ignore_errors=True)
    for line in known_lines:
        print(line)
    for path, msg in violations:
        print("VIOLATION property=%s replay=%s" % (pid, path))
        print("  " + str(msg).replace("\n", "\n  ")[:2000])
    if status != 2:
        write_evidence(ctx, len(violations))
        st = ctx.stats
        print(
            "%s %s seed=%d: evaluations=%d distinct_nontrivial=%d discarded=%d known=%s violations=%d wall=%.1fs"
            % (
                pid,
                tier,
                seed,
                st.evaluations,
                st.distinct_nontrivial,
                sum(st.discarded.values()),
                dict(st.known),
                len(violations),
                time.time() - ctx.t0,
            )
        )
    return status


def write_evidence(ctx, nviol):
    mod = ctx.mod
    st = ctx.stats
    cov = {
        "evaluations": st.evaluations,
        "distinct_nontrivial": st.distinct_nontrivial,
        "rule": mod.RULE,
        "samples": st.samples,
        "exhaustive": bool(ctx.exhaustive),
        "class_histogram": dict(sorted(st.hist.items(), key=lambda kv: str(kv[0]))),
        "discarded": dict(st.discarded),
        "excluded_known": dict(st.excluded),
        "known_findings_observed": dict(st.known),
        "unreproduced_failures": st.unreproduced,
        "budget_skipped": st.budget_skipped,
        "notes": st.notes[:50],
        "trusted_base": list(getattr(mod, "TRUSTED", [])),
    }
    ev = st.evaluations + sum(st.discarded.values())
    if ev and sum(st.discarded.values()) > 0.5 * ev:
        cov["vacuity_warning"] = "more than half of the generated cases were discarded"
    cov.update(ctx.extra)
    doc = {
        "property_id": ctx.pid,
        "tier": ctx.tier,
        "seed": ctx.seed,
        "level": "exploration",
        "coverage": cov,
        "assumptions": list(getattr(mod, "ASSUMPTIONS", [])),
        "wall_s": round(time.time() - ctx.t0, 2),
        "violations": nviol,
    }
    d = os.environ.get("VERIF_EVIDENCE_DIR") or os.path.join(VERIF, "evidence")
    os.makedirs(d, exist_ok=True)
    tmp = os.path.join(d, ".%s.json.tmp" % ctx.pid)
    with open(tmp, "w") as f:
        json.dump(doc, f, indent=1, default=repr)
    os.replace(tmp, os.path.join(d, "%s.json" % ctx.pid))


def run_replay(mod, path):
    case = load_case(path)
    kind, val = _safe_replay(mod, case)
    if kind == "error":
        print("HARNESS-ERROR property=%s\n%s" % (mod.PID, val))
        return 2
    if kind == "discard":
        print("%s replay: case discarded (%s)" % (mod.PID, val))
        return 0
    if val is None:
        print("%s replay: property holds on %s" % (mod.PID, path))
        return 0
    classify = getattr(mod, "classify", None)
    kid = classify(case, val) if classify else None
    if kid and kid in open_finding_ids(mod.PID):
        print("KNOWN-FINDING: property=%s %s" % (mod.PID, kid))
        print("  " + str(val)[:2000])
        return 0
    print("VIOLATION property=%s replay=%s" % (mod.PID, path))
    print("  " + str(val).replace("\n", "\n  ")[:2000])
    return 1


def main(argv):
    import importlib
    import logging

    logging.disable(logging.WARNING)
    if len(argv) < 2:
        print("usage: check CNN quick|thorough | check CNN --replay FILE")
        return 2
    pid = argv[0].upper()
    sys.path.insert(0, VERIF)
    if REPO != "/repo":
        sys.path.insert(0, REPO)
    try:
        mod = importlib.import_module("vf.props.%s" % pid.lower())
    except Exception:
        print("HARNESS-ERROR property=%s\n%s" % (pid, traceback.format_exc()))
        return 2
    if argv[1] == "--replay":
        return run_replay(mod, argv[2])
    tier = argv[1]
    if tier not in ("quick", "thorough"):
        print("unknown tier", tier)
        return 2
    seed = int(os.environ.get("VERIF_SEED", "1") or "1")
    return run_property(mod, tier, seed)
