"""Generator of defined-behaviour C translation units (DESIGN.md 3.3), x86-64 LP64 model.

program = {"src": text of the unit under test (compiled by gcc AND by ppci),
           "funcs": [{"name", "params": [ctype names], "ret": ctype name}],
           "observers": [names of 'long rd_k(void)' functions reading globals],
           "features": [strings]}
Undefined behaviour is avoided by construction where a trap would kill the gcc process (division,
array bounds, pointers, uninitialised reads, unsequenced side effects) and filtered by UBSan for
the rest (signed overflow, shifts, float->int range).
"""

from hypothesis import strategies as st

# name, size, signed
CTYPES = {
    "char": (1, True),
    "signed char": (1, True),
    "unsigned char": (1, False),
    "short": (2, True),
    "unsigned short": (2, False),
    "int": (4, True),
    "unsigned int": (4, False),
    "long": (8, True),
    "unsigned long": (8, False),
    "long long": (8, True),
    "unsigned long long": (8, False),
}
INT_NAMES = list(CTYPES)
RANK = {"char": 1, "signed char": 1, "unsigned char": 1, "short": 2, "unsigned short": 2, "int": 3, "unsigned int": 3,
        "long": 4, "unsigned long": 4, "long long": 5, "unsigned long long": 5}
FLOATS = ["float", "double"]


def is_float(t):
    return t in FLOATS


def promote(t):
    if is_float(t):
        return t
    return "int" if RANK[t] < 3 else t


def arith(t1, t2):
    """usual arithmetic conversions"""
    if "double" in (t1, t2):
        return "double"
    if "float" in (t1, t2):
        return "float"
    a, b = promote(t1), promote(t2)
    if a == b:
        return a
    sa, sb = CTYPES[a][1], CTYPES[b][1]
    if sa == sb:
        return a if RANK[a] >= RANK[b] else b
    u, s = (a, b) if not sa else (b, a)
    if RANK[u] >= RANK[s]:
        return u
    if CTYPES[s][0] > CTYPES[u][0]:
        return s
    return "unsigned " + s


def bits(t):
    return CTYPES[t][0] * 8


def trange(t):
    b = bits(t)
    return (-(1 << (b - 1)), (1 << (b - 1)) - 1) if CTYPES[t][1] else (0, (1 << b) - 1)


def literal(value, t):
    """C literal of (promoted) type t with that value."""
    if is_float(t):
        s = repr(float(value))
        if "e" not in s and "." not in s and "inf" not in s:
            s += ".0"
        return "((float)%s)" % s if t == "float" else s
    suffix = {"int": "", "unsigned int": "U", "long": "L", "unsigned long": "UL", "long long": "LL", "unsigned long long": "ULL"}[promote(t)]
    if value < 0:
        lo, _ = trange(promote(t))
        if value == lo:
            return "(-%d%s - 1)" % (-(value + 1), suffix)
        return "(-%d%s)" % (-value, suffix)
    return "%d%s" % (value, suffix)


class Options:
    def __init__(self, floats=True, structs=True, pointers=True, switch=True, calls=True, tail_padding=False, sizeof_struct=False,
                 max_funcs=4, max_stmts=8, max_depth=3, goto=False, compound=True, narrow_unary=True, excluded=None,
                 effects=0, many_params=0, bare_literals=0):
        self.__dict__.update(locals())
        del self.__dict__["self"]
        self.excluded = excluded or {}


STRUCTS_OK = [
    ("S0", [("long", "d"), ("int", "b"), ("short", "c"), ("char", "a"), ("unsigned char", "e")]),
    ("S1", [("int", "x"), ("int", "y")]),
    ("S2", [("char", "a"), ("char", "b")]),
]
STRUCTS_PAD = [
    ("S3", [("char", "a"), ("int", "b"), ("short", "c")]),
    ("S4", [("long", "d"), ("char", "a")]),
]


class _Gen:
    def __init__(self, draw, opt):
        self.draw = draw
        self.opt = opt
        self.features = set()
        self.counter = 0
        self.globals = []  # (name, ctype) scalars
        self.arrays = []  # (name, elem ctype, n)
        self.structs = []  # (type name, fields)
        self.struct_vars = []  # (name, struct type)
        self.funcs = []
        self.lines = []

    # -- draws ---------------------------------------------------------------
    def pick(self, seq):
        return seq[self.draw(st.integers(0, len(seq) - 1))]

    def chance(self, pct):
        return self.draw(st.integers(0, 99)) < pct

    def fresh(self, p):
        self.counter += 1
        return "%s%d" % (p, self.counter)

    def int_value(self, t):
        lo, hi = trange(t)
        special = [0, 1, 2, 3, 7, 8, 10, 100, 127, 128, 255, 256, 1000, 32767, 65535, hi, hi - 1, lo, lo + 1, -1, -2, -7, -128]
        special = [v for v in special if lo <= v <= hi]
        k = self.draw(st.integers(0, 9))
        if k < 5:
            return self.pick(special)
        if k < 8:
            return self.draw(st.integers(max(lo, -50), min(hi, 50)))
        return self.draw(st.integers(lo, hi))

    def some_type(self, floats=None):
        floats = self.opt.floats if floats is None else floats
        if floats and self.chance(12):
            return self.pick(FLOATS)
        return self.pick(INT_NAMES)

    # -- expressions -----------------------------------------------------------
    # unsuffixed literals whose TYPE follows from their value (C99 6.4.4.1, LP64): decimal -> int, long; hex -> int, unsigned,
    # long, unsigned long
    BARE_LITERALS = [
        ("2147483647", "int"), ("2147483648", "long"), ("2147483649", "long"), ("4294967295", "long"), ("4294967296", "long"),
        ("9223372036854775807", "long"), ("32768", "int"), ("65536", "int"),
        ("0x7fffffff", "int"), ("0x80000000", "unsigned int"), ("0xffffffff", "unsigned int"), ("0x100000000", "long"),
        ("0x7fffffffffffffff", "long"), ("0x8000000000000000", "unsigned long"), ("0xffffffffffffffff", "unsigned long"),
        ("0xffff", "int"), ("0x8000", "int"), ("017777777777", "int"), ("020000000000", "unsigned int"),
    ]

    def lit(self, t=None):
        if t is None and self.opt.bare_literals and self.chance(self.opt.bare_literals):
            self.features.add("bare_boundary_literal")
            return self.pick(self.BARE_LITERALS)
        t = t or self.some_type()
        if is_float(t):
            v = self.pick([0.0, 1.0, -1.0, 0.5, 2.0, 3.25, -7.5, 100.0, 1e3, 0.1]) if self.chance(70) else float(self.draw(st.integers(-1000, 1000))) / 4
            return literal(v, t), t
        pt = promote(t) if self.chance(70) else self.pick([x for x in INT_NAMES if RANK[x] >= 3])
        v = self.int_value(t if self.chance(60) else pt)
        lo, hi = trange(pt)
        v = max(lo, min(hi, v))
        if 0 <= v < 128 and self.chance(5) and chr(v).isalnum():
            return "'%s'" % chr(v), "int"
        if v >= 0 and self.chance(10):
            return "0x%X%s" % (v, literal(0, pt)[1:]), pt
        return literal(v, pt), pt

    def lvalues(self, scope):
        """list of (text, ctype) assignable scalar lvalues"""
        res = [(n, t) for n, t in scope["locals"] if n not in scope["loopvars"]]
        res += list(self.globals)
        for n, et, cnt in self.arrays:
            res.append(("%s[%d]" % (n, self.draw(st.integers(0, cnt - 1))), et))
        for n, stn in self.struct_vars:
            fields = dict(self.structs)[stn]
            ft, fn = self.pick(fields)
            res.append(("%s.%s" % (n, fn), ft))
        for n, t, target in scope["pointers"]:
            res.append(("(*%s)" % n, t))
        for n, stn in scope["sptrs"]:
            fields = dict(self.structs)[stn]
            ft, fn = self.pick(fields)
            res.append(("%s->%s" % (n, fn), ft))
        return res

    def rvalue_leaf(self, scope):
        r = self.draw(st.integers(0, 99))
        if r < 25:
            return self.lit()
        cands = [(n, t) for n, t in scope["locals"]] + [(n, t) for n, t in scope["params"]]
        if r < 70 and cands:
            return self.pick(cands)
        lv = self.lvalues(scope)
        if lv:
            self.features.add("memory_operand")
            return self.pick(lv)
        return self.lit()

    def expr(self, scope, depth):
        """returns (text, ctype). Side-effect free."""
        if depth <= 0 or self.chance(25):
            return self.rvalue_leaf(scope)
        r = self.draw(st.integers(0, 99))
        if r < 40:  # arithmetic / bitwise binary
            a, ta = self.expr(scope, depth - 1)
            b, tb = self.expr(scope, depth - 1)
            ty = arith(ta, tb)
            if is_float(ty):
                op = self.pick(["+", "-", "*", "/"])
                if op == "/":
                    b, tb = self.lit("double")[0], "double"
                    if b in ("0.0", "-0.0"):
                        b = "2.0"
                    ty = arith(ta, tb)
                self.features.add("float_arith")
                return "(%s %s %s)" % (a, op, b), ty
            op = self.pick(["+", "-", "*", "&", "|", "^", "+", "-"])
            if CTYPES[ty][1]:
                self.features.add("signed_arith")
            if CTYPES[promote(ta)][1] != CTYPES[promote(tb)][1]:
                self.features.add("mixed_sign")
            return "(%s %s %s)" % (a, op, b), ty
        if r < 50:  # division / remainder with a divisor that is never 0 and never -1
            a, ta = self.expr(scope, depth - 1)
            if is_float(ta):
                a, ta = self.rvalue_leaf(scope)
                if is_float(ta):
                    a, ta = self.lit("int")
            op = self.pick(["/", "%"])
            if self.chance(60):
                dt = self.pick(INT_NAMES)
                lo, hi = trange(promote(dt))
                dv = self.pick([v for v in [1, 2, 3, 5, 7, 10, 16, 100, 255, hi, -2, -3, -7, -10, lo] if lo <= v <= hi and v not in (0, -1)])
                b, tb = literal(dv, promote(dt)), promote(dt)
            else:
                e, te = self.expr(scope, depth - 1)
                if is_float(te):
                    e, te = self.lit("int")
                b, tb = "((%s & 0xff) + 1)" % e, arith(te, "int")
            ty = arith(ta, tb)
            self.features.add("division")
            if CTYPES[ty][1]:
                self.features.add("signed_division")
            return "(%s %s %s)" % (a, op, b), ty
        if r < 60:  # shifts
            a, ta = self.expr(scope, depth - 1)
            if is_float(ta):
                a, ta = self.lit("int")
            pt = promote(ta)
            c, tc = self.expr(scope, depth - 1)
            if is_float(tc):
                c, tc = self.lit("int")
            mask = bits(pt) - 1
            cnt = "(%s & %d)" % (c, mask) if self.chance(60) else str(self.draw(st.integers(0, mask)))
            self.features.add("shift")
            if self.chance(50):
                if CTYPES[pt][1]:
                    self.features.add("signed_right_shift")
                return "(%s >> %s)" % (a, cnt), pt
            if CTYPES[pt][1]:
                upt = "unsigned " + pt if pt != "int" else "unsigned int"
                return "((%s)%s << %s)" % (upt, a, cnt), upt
            return "(%s << %s)" % (a, cnt), pt
        if r < 70:  # comparison
            a, ta = self.expr(scope, depth - 1)
            b, tb = self.expr(scope, depth - 1)
            op = self.pick(["==", "!=", "<", ">", "<=", ">="])
            if not is_float(ta) and not is_float(tb) and CTYPES[promote(ta)][1] != CTYPES[promote(tb)][1]:
                self.features.add("mixed_sign_compare")
            self.features.add("comparison")
            return "(%s %s %s)" % (a, op, b), "int"
        if r < 76:  # logical
            a, _ = self.expr(scope, depth - 1)
            b, _ = self.expr(scope, depth - 1)
            self.features.add("short_circuit")
            return "(%s %s %s)" % (a, self.pick(["&&", "||"]), b), "int"
        if r < 82:  # conditional
            c, _ = self.expr(scope, depth - 1)
            a, ta = self.expr(scope, depth - 1)
            b, tb = self.expr(scope, depth - 1)
            self.features.add("conditional")
            return "(%s ? %s : %s)" % (c, a, b), arith(ta, tb)
        if r < 90:  # unary
            a, ta = self.expr(scope, depth - 1)
            if is_float(ta):
                op = self.pick(["-", "!", "+"])
                return "(%s%s)" % (op, a), ("int" if op == "!" else ta)
            op = self.pick(["-", "~", "!", "+"])
            if RANK[ta] < 3 and op in "-~":
                if not self.opt.narrow_unary:
                    self.opt.excluded["narrow_unary"] = self.opt.excluded.get("narrow_unary", 0) + 1
                    return a, ta
                self.features.add("narrow_unary")
            if op == "!":
                return "(!%s)" % a, "int"
            return "(%s%s)" % (op, a), promote(ta)
        # cast
        a, ta = self.expr(scope, depth - 1)
        t = self.some_type()
        if is_float(ta) and not is_float(t):
            self.features.add("float_to_int")
            return "((%s)(long)%s)" % (t, a), t
        elif is_float(t):
            self.features.add("int_to_float")
        elif RANK[t] < RANK.get(ta, 9):
            self.features.add("narrowing_cast")
        return "((%s)%s)" % (t, a), t

    def conv(self, e, te, target):
        """expression text usable where a value of type `target` is needed: float -> integer goes through
        long (range checked by UBSan), because float -> narrow integer out of range is undefined and unreported"""
        if is_float(te) and not is_float(target):
            return "(long)(%s)" % e
        return e

    # -- statements --------------------------------------------------------------
    def new_scope(self, params):
        return {"params": params, "locals": [], "loopvars": set(), "pointers": [], "sptrs": [], "depth": 0, "in_loop": False, "in_switch": False}

    def stmt_assign(self, scope, ind, out):
        lv = self.lvalues(scope)
        if not lv:
            return
        l, lt = self.pick(lv)
        e, te = self.expr(scope, self.opt.max_depth)
        r = self.draw(st.integers(0, 99))
        if r < 60 or not self.opt.compound or is_float(lt):
            out.append("%s%s = %s;" % (ind, l, self.conv(e, te, lt)))
            if not is_float(lt) and not is_float(te) and RANK[lt] < RANK[promote(te)]:
                self.features.add("narrowing_assign")
            return
        if r < 75:
            op = self.pick(["+=", "-=", "*=", "&=", "|=", "^="])
            if is_float(te):
                e = self.lit("int")[0]
            self.features.add("compound_assign")
            out.append("%s%s %s %s;" % (ind, l, op, e))
        elif r < 85:
            op = self.pick(["/=", "%="])
            if is_float(te):
                e = self.lit("int")[0]
            self.features.add("compound_assign")
            self.features.add("division")
            out.append("%s%s %s ((%s & 0x3f) + 1);" % (ind, l, op, e))
        elif r < 92:
            op = self.pick(["<<=", ">>="])
            k = self.draw(st.integers(0, bits(promote(lt)) - 1 if op == ">>=" else 7))
            if op == "<<=" and CTYPES[lt][1]:
                out.append("%s%s = (%s)((unsigned long long)%s << %d);" % (ind, l, lt, l, k))
            else:
                self.features.add("compound_assign")
                out.append("%s%s %s %d;" % (ind, l, op, k))
        else:
            self.features.add("incdec")
            out.append("%s%s%s;" % (ind, l, self.pick(["++", "--"])) if self.chance(50) else "%s%s%s;" % (ind, self.pick(["++", "--"]), l))

    def stmt_effect(self, scope, ind, out):
        """Statements whose expressions HAVE side effects, each defined by a sequence point or by touching distinct objects:
        a compound assignment / ++ whose lvalue designator increments a counter or calls ext() (the designator must be
        evaluated exactly once), short-circuit and conditional operators guarding ext() calls, the comma operator, assignment
        and ++/-- used as values.  The counter is folded into an lvalue afterwards so that a second evaluation shows."""
        lvs = [(l, t) for l, t in self.lvalues(scope) if not is_float(t)]
        if not lvs:
            return
        sink, sinkt = self.pick(lvs)
        k = self.fresh("k")
        e, te = self.expr(scope, 2)
        if is_float(te):
            e, te = self.lit("int")
        c, tc = self.expr(scope, 2)
        tag = self.draw(st.integers(10, 19))
        r = self.draw(st.integers(0, 12))
        if r == 12:
            return self.stmt_u64_to_float(scope, ind, out, sink, sinkt, e, te)
        self.features.add("side_effect_expr")
        cop = self.pick(["+=", "-=", "*=", "&=", "|=", "^=", "+=", "-="])
        ii = ind + "  "
        body = []
        if r <= 3 and self.arrays:
            n, et, cnt = self.pick(self.arrays)
            start = self.draw(st.integers(0, max(cnt - 2, 0)))
            body.append("int %s = %d;" % (k, start))
            if r == 0:
                body.append("%s[(unsigned)(%s++) %% %du] %s %s;" % (n, k, cnt, cop, e))
                self.features.add("effect_in_compound_lvalue")
            elif r == 1:
                body.append("%s[(unsigned)ext(%d, %s) %% %du] %s %s;" % (n, tag, k, cnt, cop, e))
                self.features.add("effect_in_compound_lvalue")
            elif r == 2:
                q = self.fresh("q")
                body.append("%s *%s = &%s[%s];" % (et, q, n, k))
                body.append("*%s++ %s %s;" % (q, cop, e))
                body.append("%s = (int)(%s - %s);" % (k, q, n))
                self.features.add("effect_in_compound_lvalue")
            else:
                body.append("%s[(unsigned)(%s%s) %% %du]%s;" % (n, self.pick(["++", "--"]), k, cnt, self.pick(["++", "--"])))
                self.features.add("effect_in_incdec_lvalue")
            body.append("%s = %s;" % (sink, k))
        elif r <= 5:
            body.append("int %s = %s;" % (k, self.lit("int")[0] if self.chance(50) else "1"))
            op = self.pick(["&&", "||"])
            if r == 4:
                body.append("%s = (%s %s ext(%d, %s));" % (sink, c, op, tag, k))
            else:
                body.append("if (%s %s (%s = (int)ext(%d, %s)) > 0) { %s = %s; }" % (c, op, k, tag, k, sink, self.conv(e, te, sinkt)))
                body.append("%s = %s;" % (sink, k) if self.chance(50) else "ext(%d, %s);" % (tag + 1, k))
            self.features.add("short_circuit_effect")
        elif r == 6:
            body.append("int %s = 2;" % k)
            body.append("%s = (%s ? ext(%d, %s) : ext(%d, %s++));" % (sink, c, tag, e if not is_float(te) else "1", tag + 1, k))
            body.append("ext(%d, %s);" % (tag + 2, k))
            self.features.add("conditional_effect")
        elif r == 7:
            body.append("int %s = %s;" % (k, self.lit("int")[0]))
            body.append("%s = (%s++, ext(%d, %s), %s);" % (sink, k, tag, k, self.conv(e, te, sinkt)))
            self.features.add("comma")
        elif r <= 9:
            # both designators without indirection: different text then means different objects
            plain = [(l, t) for l, t in lvs if "*" not in l and "->" not in l]
            if "*" in sink or "->" in sink or not plain:
                return
            lv2, t2 = self.pick(plain)
            if lv2 == sink:
                body.append("int %s = 0;" % k)
                body.append("%s = (%s = %s) + 1;" % (sink, k, e))
            else:
                body.append("%s = (%s %s %s) + 1;" % (sink, lv2, self.pick(["=", "+=", "-=", "^="]), e))
            self.features.add("assignment_value")
        else:
            body.append("int %s = %s;" % (k, self.lit("int")[0] if self.chance(50) else "3"))
            body.append("%s = (%s%s) %s %s;" % (sink, k, self.pick(["++", "--"]), self.pick(["^", "&", "|"]), e) if self.chance(50)
                        else "%s = (%s%s) %s %s;" % (sink, self.pick(["++", "--"]), k, self.pick(["^", "&", "|"]), e))
            body.append("ext(%d, %s);" % (tag, k))
            self.features.add("incdec_value")
        out.append("%s{" % ind)
        out.extend(ii + b for b in body)
        out.append("%s}" % ind)

    def stmt_u64_to_float(self, scope, ind, out, sink, sinkt, e, te):
        """A 64-bit unsigned value (often >= 2**63) is converted to double / float AND used again as an integer afterwards."""
        if not self.opt.floats:
            return
        u, d = self.fresh("u"), self.fresh("d")
        big = self.pick(["0x8000000000000000UL", "0xFFFFFFFFFFFFF800UL", "0x8000000000000400UL", "0xC000000000000000UL", "0x7FFFFFFFFFFFFFFFUL", "1UL"])
        ft = self.pick(["double", "double", "float"])
        self.features.add("u64_to_float_reuse")
        out.append("%s{" % ind)
        out.append("%s  unsigned long %s = (unsigned long)(%s) %s %s;" % (ind, u, e, self.pick(["|", "^", "+"]), big))
        out.append("%s  %s %s = (%s)%s;" % (ind, ft, d, ft, u))
        out.append("%s  %s = (long)(%s / 4398046511104.0) ^ (long)(%s >> %d);" % (ind, sink, d, u, self.draw(st.integers(0, 63))))
        out.append("%s}" % ind)

    def stmt_decl(self, scope, ind, out):
        t = self.some_type()
        n = self.fresh("v")
        e, te = self.expr(scope, self.opt.max_depth)
        out.append("%s%s %s = %s;" % (ind, t, n, self.conv(e, te, t)))
        scope["locals"].append((n, t))

    def block(self, scope, ind, out, nmax):
        saved = (list(scope["locals"]), list(scope["pointers"]), list(scope["sptrs"]))
        n = self.draw(st.integers(1, nmax))
        for _ in range(n):
            self.stmt(scope, ind, out)
        scope["locals"], scope["pointers"], scope["sptrs"] = saved

    def stmt(self, scope, ind, out):
        r = self.draw(st.integers(0, 105))
        deep = scope["depth"] >= 3
        if r >= 100:
            return self.stmt_loop_carry(scope, ind, out)
        if self.opt.effects and not deep and self.chance(self.opt.effects):
            return self.stmt_effect(scope, ind, out)
        if r < 18:
            return self.stmt_decl(scope, ind, out)
        if r < 52 or deep:
            return self.stmt_assign(scope, ind, out)
        scope["depth"] += 1
        try:
            if r < 64:
                c, _ = self.expr(scope, self.opt.max_depth)
                out.append("%sif (%s) {" % (ind, c))
                self.block(scope, ind + "  ", out, 3)
                if self.chance(50):
                    out.append("%s} else {" % ind)
                    self.block(scope, ind + "  ", out, 3)
                out.append("%s}" % ind)
                self.features.add("if")
            elif r < 74:
                i = self.fresh("i")
                k = self.draw(st.integers(0, 5))
                out.append("%sfor (int %s = 0; %s < %d; %s++) {" % (ind, i, i, k, i))
                scope["locals"].append((i, "int"))
                scope["loopvars"].add(i)
                old = scope["in_loop"]
                scope["in_loop"] = True
                self.block(scope, ind + "  ", out, 3)
                self.maybe_break(scope, ind + "  ", out)
                scope["in_loop"] = old
                scope["locals"] = [(n, t) for n, t in scope["locals"] if n != i]
                out.append("%s}" % ind)
                self.features.add("for")
            elif r < 80:
                i = self.fresh("w")
                k = self.draw(st.integers(0, 4))
                out.append("%sint %s = %d;" % (ind, i, k))
                scope["loopvars"].add(i)
                kind = self.chance(60)
                out.append("%swhile (%s > 0) {" % (ind, i) if kind else "%sdo {" % ind)
                out.append("%s  %s--;" % (ind, i))
                old = scope["in_loop"]
                scope["in_loop"] = True
                scope["locals"].append((i, "int"))
                self.block(scope, ind + "  ", out, 3)
                self.maybe_break(scope, ind + "  ", out)
                scope["in_loop"] = old
                out.append("%s}" % ind if kind else "%s} while (%s > 0);" % (ind, i))
                self.features.add("while" if kind else "do_while")
            elif r < 88 and self.opt.switch:
                e, te = self.expr(scope, self.opt.max_depth)
                if is_float(te):
                    e = self.lit("int")[0]
                out.append("%sswitch ((int)(%s) & 7) {" % (ind, e))
                labels = sorted(set(self.draw(st.lists(st.integers(0, 7), min_size=1, max_size=4))))
                old = scope["in_switch"]
                for lab in labels:
                    out.append("%s  case %d: {" % (ind, lab))
                    self.block(scope, ind + "    ", out, 2)
                    out.append("%s  }" % ind)
                    if self.chance(75):
                        out.append("%s    break;" % ind)
                    else:
                        self.features.add("fallthrough")
                if self.chance(60):
                    out.append("%s  default: {" % ind)
                    self.block(scope, ind + "    ", out, 2)
                    out.append("%s  }" % ind)
                    out.append("%s    break;" % ind)
                scope["in_switch"] = old
                out.append("%s}" % ind)
                self.features.add("switch")
            elif r < 96 and self.opt.calls:
                self.stmt_call(scope, ind, out)
            elif self.opt.pointers:
                self.stmt_pointer(scope, ind, out)
            else:
                self.stmt_assign(scope, ind, out)
        finally:
            scope["depth"] -= 1

    def stmt_loop_carry(self, scope, ind, out):
        """prev = cur inside a bounded loop, both read after the loop (the 'lost copy' shape of SSA destruction)"""
        t = self.pick(["int", "unsigned int", "long", "unsigned char", "short"])
        prev, cur, w = self.fresh("v"), self.fresh("v"), self.fresh("w")
        k = self.draw(st.integers(1, 4))
        out.append("%s%s %s = %s;" % (ind, t, prev, literal(self.draw(st.integers(0, 9)), promote(t))))
        out.append("%s%s %s = %s;" % (ind, t, cur, literal(self.draw(st.integers(0, 9)), promote(t))))
        out.append("%sint %s = %d;" % (ind, w, k))
        kind = self.draw(st.integers(0, 2))
        step = self.pick(["%s = (%s)(%s + %d);" % (cur, t, cur, self.draw(st.integers(1, 5))), "%s = (%s)(%s * 3 + 1);" % (cur, t, cur), "%s++;" % cur])
        body = ["%s  %s = %s;" % (ind, prev, cur), "%s  %s" % (ind, step), "%s  %s--;" % (ind, w)]
        if kind == 0:
            out.append("%sdo {" % ind)
            out.extend(body)
            out.append("%s} while (%s > 0);" % (ind, w))
        elif kind == 1:
            out.append("%swhile (%s > 0) {" % (ind, w))
            out.extend(body)
            out.append("%s}" % ind)
        else:
            out.append("%sfor (; %s > 0; ) {" % (ind, w))
            out.extend(body)
            out.append("%s}" % ind)
        if self.chance(50):
            out.append("%sif (%s > 1) { %s--; }" % (ind, prev, prev))
        scope["locals"].append((prev, t))
        scope["locals"].append((cur, t))
        scope["loopvars"].add(w)
        lv = [(l, lt) for l, lt in self.lvalues(scope) if not is_float(lt) and l not in (prev, cur)]
        if lv:
            l, lt = self.pick(lv)
            out.append("%s%s = %s * 10 + %s;" % (ind, l, prev, cur))
        self.features.add("loop_carried_value_used_after_loop")

    def maybe_break(self, scope, ind, out):
        if self.chance(30):
            c, _ = self.expr(scope, 2)
            out.append("%sif (%s) %s;" % (ind, c, self.pick(["break", "continue"])))
            self.features.add("break_continue")

    def stmt_call(self, scope, ind, out):
        lv = [(l, t) for l, t in self.lvalues(scope) if not is_float(t)]
        targets = list(self.funcs) + [None]
        f = self.pick(targets)
        if f is None:
            e, te = self.expr(scope, 2)
            if is_float(te):
                e = self.lit("int")[0]
            tag = self.draw(st.integers(0, 9))
            call = "ext(%d, (long)(%s))" % (tag, e)
            self.features.add("ext_call")
        else:
            args = []
            for pt in f["params"]:
                if pt == "int*":
                    n, et, cnt = self.pick([a for a in self.arrays if a[1] == "int"])
                    args.append(n)
                else:
                    e, te = self.expr(scope, 2)
                    e = self.conv(e, te, pt)
                    args.append("(%s)(%s)" % (pt, e) if self.chance(30) else e)
            call = "%s(%s)" % (f["name"], ", ".join(args))
            self.features.add("call")
            if f["ret"] == "void":
                out.append("%s%s;" % (ind, call))
                return
        if lv and self.chance(80):
            l, lt = self.pick(lv)
            if f is not None and is_float(f["ret"]):
                call = "(long)" + call
            out.append("%s%s = %s;" % (ind, l, call))
        else:
            out.append("%s%s;" % (ind, call))

    def stmt_pointer(self, scope, ind, out):
        r = self.draw(st.integers(0, 2))
        if r == 0 and self.struct_vars and self.opt.structs:
            n, stn = self.pick(self.struct_vars)
            p = self.fresh("sp")
            out.append("%sstruct %s *%s = &%s;" % (ind, stn, p, n))
            scope["sptrs"].append((p, stn))
            self.features.add("struct_pointer")
        elif r == 1 and self.arrays:
            n, et, cnt = self.pick(self.arrays)
            p = self.fresh("p")
            k = self.draw(st.integers(0, cnt - 1))
            if self.chance(50):
                out.append("%s%s *%s = &%s[%d];" % (ind, et, p, n, k))
            else:
                j = self.draw(st.integers(0, cnt - 1))
                out.append("%s%s *%s = %s + %d;" % (ind, et, p, n, j))
                if j != k:
                    out.append("%s%s = %s %s %d;" % (ind, p, p, "+" if k > j else "-", abs(k - j)))
                self.features.add("pointer_arith")
            scope["pointers"].append((p, et, n))
            self.features.add("pointer")
        else:
            cands = [(n, t) for n, t in scope["locals"] if n not in scope["loopvars"]] + list(self.globals)
            if not cands:
                return
            n, t = self.pick(cands)
            p = self.fresh("p")
            out.append("%s%s *%s = &%s;" % (ind, t, p, n))
            scope["pointers"].append((p, t, n))
            self.features.add("pointer")

    # -- the unit ----------------------------------------------------------------
    def generate(self):
        opt = self.opt
        L = self.lines
        L.append("extern int ext(int tag, long v);")
        if opt.structs:
            menu = list(STRUCTS_OK) + (STRUCTS_PAD if opt.tail_padding else [])
            if not opt.tail_padding:
                opt.excluded["tail_padding"] = opt.excluded.get("tail_padding", 0) + 1
            for stn, fields in menu:
                if self.chance(45):
                    self.structs.append((stn, fields))
                    L.append("struct %s { %s };" % (stn, " ".join("%s %s;" % f for f in fields)))
        for _ in range(self.draw(st.integers(1, 4))):
            t = self.some_type()
            n = self.fresh("g")
            if self.chance(75):
                if is_float(t) or self.chance(15):
                    v = self.lit(t)[0]
                    self.features.add("converted_initializer")
                else:
                    v = literal(self.int_value(t), promote(t))
                L.append("%s %s = %s;" % (t, n, v))
            else:
                L.append("%s %s;" % (t, n))
            self.globals.append((n, t))
        for _ in range(self.draw(st.integers(1, 3))):
            t = "int" if not self.arrays else self.pick(["short", "unsigned short", "long", "char", "unsigned char", "long long", "short"] if self.chance(70) else INT_NAMES)
            n = self.fresh("ga")
            cnt = self.pick([2, 3, 4, 8])
            if self.chance(70):
                init = ", ".join(literal(self.int_value(t), promote(t)) for _ in range(self.draw(st.integers(1, cnt))))
                L.append("%s %s[%d] = {%s};" % (t, n, cnt, init))
            else:
                L.append("%s %s[%d];" % (t, n, cnt))
            self.arrays.append((n, t, cnt))
        for stn, fields in self.structs:
            n = self.fresh("gs")
            if self.chance(50):
                init = ", ".join(literal(self.int_value(ft), promote(ft)) for ft, fn in fields)
                L.append("struct %s %s = {%s};" % (stn, n, init))
            else:
                L.append("struct %s %s;" % (stn, n))
            self.struct_vars.append((n, stn))
            if self.chance(30):
                n2 = self.fresh("gs")
                L.append("struct %s %s;" % (stn, n2))
                self.struct_vars.append((n2, stn))
        nf = self.draw(st.integers(1, opt.max_funcs))
        for i in range(nf):
            self.gen_function(i)
        observers = self.gen_observers()
        names = [n for n, _ in self.globals] + [n for n, _, _ in self.arrays] + [n for n, _ in self.struct_vars]
        return {"src": "\n".join(L) + "\n", "funcs": self.funcs, "observers": observers, "global_names": names, "features": sorted(self.features)}

    def gen_function(self, i):
        L = self.lines
        name = "f%d" % i
        nparams = self.draw(st.integers(0, 4))
        if self.opt.many_params and self.chance(self.opt.many_params):
            nparams = self.draw(st.integers(7, 11))  # beyond the six integer argument registers of the System V ABI
            self.features.add("stack_params")
        ptypes = []
        params = []
        for k in range(nparams):
            if self.opt.pointers and self.chance(12):
                ptypes.append("int*")
                params.append(("q%d" % k, "int*"))
            else:
                t = self.some_type()
                ptypes.append(t)
                params.append(("a%d" % k, t))
        ret = self.some_type() if self.chance(90) else "void"
        L.append("%s %s(%s) {" % (ret, name, ", ".join("%s %s" % (t.replace("*", " *"), n) for n, t in params) or "void"))
        scope = self.new_scope([(n, t) for n, t in params if t != "int*"])
        for n, t in params:
            if t == "int*":
                scope["pointers"].append((n, "int", None))
                if self.chance(50):
                    scope["pointers"].append(("(%s + 1)" % n, "int", None))
        out = []
        for _ in range(self.draw(st.integers(1, 2))):
            self.stmt_decl(scope, "  ", out)
        # struct copy
        if self.struct_vars and self.chance(25):
            same = {}
            for n, stn in self.struct_vars:
                same.setdefault(stn, []).append(n)
            pairs = [v for v in same.values() if len(v) >= 2]
            if pairs:
                a, b = self.pick(pairs)[:2]
                out.append("  %s = %s;" % (a, b))
                self.features.add("struct_copy")
            else:
                n, stn = self.pick(self.struct_vars)
                loc = self.fresh("ls")
                out.append("  struct %s %s = %s;" % (stn, loc, n))
                fields = dict(self.structs)[stn]
                ft, fn = self.pick(fields)
                fe, fte = self.expr(scope, 2)
                out.append("  %s.%s = %s;" % (loc, fn, self.conv(fe, fte, ft)))
                out.append("  %s = %s;" % (n, loc))
                self.features.add("struct_copy")
        for _ in range(self.draw(st.integers(1, self.opt.max_stmts))):
            self.stmt(scope, "  ", out)
        if ret != "void":
            e, te = self.expr(scope, self.opt.max_depth)
            out.append("  return %s;" % self.conv(e, te, ret))
        L.extend(out)
        L.append("}")
        self.funcs.append({"name": name, "params": ptypes, "ret": ret})

    def gen_observers(self):
        L = self.lines
        obs = []

        def add(expr, t):
            n = "rd_%d" % len(obs)
            if is_float(t):
                L.append("long %s(void) { double t = %s; long r; char *s = (char *)&t; char *d = (char *)&r; for (int i = 0; i < 8; i++) d[i] = s[i]; return r; }" % (n, expr))
            else:
                L.append("long %s(void) { return (long)%s; }" % (n, expr))
            obs.append(n)

        for n, t in self.globals:
            add(n, t)
        for n, et, cnt in self.arrays:
            for k in range(cnt):
                add("%s[%d]" % (n, k), et)
        for n, stn in self.struct_vars:
            for ft, fn in dict(self.structs)[stn]:
                add("%s.%s" % (n, fn), ft)
        return obs


def programs(opt=None):
    opt = opt or Options()

    @st.composite
    def _p(draw):
        return _Gen(draw, opt).generate()

    return _p()


def arg_vectors(draw, func, n):
    """n argument vectors for func: ints as python ints, floats as floats, int* as "buf"."""
    vecs = []
    for _ in range(n):
        v = []
        for pt in func["params"]:
            if pt == "int*":
                v.append("buf")
            elif is_float(pt):
                v.append(draw(st.sampled_from([0.0, 1.0, -1.0, 0.5, -2.5, 3.0, 100.0, 1e6, -7.25, 65536.0])))
            else:
                lo, hi = trange(pt)
                sp = [x for x in [0, 1, 2, -1, -2, 5, 7, 100, 127, 128, 255, 256, -128, -129, 32767, 65535, hi, lo, hi - 1, lo + 1] if lo <= x <= hi]
                v.append(draw(st.one_of(st.sampled_from(sp), st.integers(lo, hi), st.integers(max(lo, -20), min(hi, 20)))))
        vecs.append(v)
    return vecs
