"""Reference reading of relocated fields, written from the ISA manuals (C11).

For a relocation type of a target and the bytes found at the relocation site in
the linked output, `designated(target, rtype, data, P, ...)` returns the address
the field designates according to the *architecture's* definition of that
instruction/data format (not according to ppci):

  x86-64  (Intel SDM vol. 2): rel32 / rel8 displacements are relative to the end of
          the instruction; disp32/imm64 absolute fields are little-endian integers.
  RISC-V  (unprivileged spec 20191213, ch. 2.3/2.5/16): B, J, U, I, CJ, CB immediates.
  ARM     (ARM ARM DDI0406C A8.8.18 B, A8.8.64 LDR literal, A8.8.12 ADR, A5.2.4 modified immediates).
  Thumb   (A8.8.18 B T1-T4, A8.8.25 BL T1, A8.8.64 LDR literal T1, A8.8.12 ADR T1).

`expected(rtype, S, A)` is what the field must designate: S + A, except that for
x86-64 `rel32` the addend follows the ELF PC32 convention (field = S + A - P with P
the address of the field), so the branch target is S + A + 4.
"""

import re
import shutil
import subprocess

LLVM_MC = shutil.which("llvm-mc-14") or shutil.which("llvm-mc")


def _u(b):
    return int.from_bytes(b, "little")


def _sx(v, bits):
    v &= (1 << bits) - 1
    return v - (1 << bits) if v >> (bits - 1) else v


class Unverifiable(Exception):
    pass


# ---------------------------------------------------------------------------
# x86-64


def _x86_rel32(d, P, **kw):
    return P + 4 + _sx(_u(d[:4]), 32)


def _x86_rel8(d, P, **kw):
    return P + 1 + _sx(d[0], 8)


def _abs(n):
    def f(d, P, **kw):
        return _u(d[:n])

    return f


# ---------------------------------------------------------------------------
# RISC-V


def rv_b_imm(w):
    imm = ((w >> 31) & 1) << 12 | ((w >> 7) & 1) << 11 | ((w >> 25) & 0x3F) << 5 | ((w >> 8) & 0xF) << 1
    return _sx(imm, 13)


def rv_j_imm(w):
    imm = ((w >> 31) & 1) << 20 | ((w >> 12) & 0xFF) << 12 | ((w >> 20) & 1) << 11 | ((w >> 21) & 0x3FF) << 1
    return _sx(imm, 21)


def rv_u_imm(w):
    return _sx(w & 0xFFFFF000, 32)


def rv_i_imm(w):
    return _sx(w >> 20, 12)


def rv_s_imm(w):
    return _sx(((w >> 25) << 5) | ((w >> 7) & 0x1F), 12)


def rv_cj_imm(h):
    # CJ format, offset[11|4|9:8|10|6|7|3:1|5] in bits 12..2
    b = lambda i: (h >> i) & 1
    imm = b(12) << 11 | b(11) << 4 | b(10) << 9 | b(9) << 8 | b(8) << 10 | b(7) << 6 | b(6) << 7 | b(5) << 3 | b(4) << 2 | b(3) << 1 | b(2) << 5
    return _sx(imm, 12)


def rv_cb_imm(h):
    # CB format, offset[8|4:3] in bits 12..10, offset[7:6|2:1|5] in bits 6..2
    b = lambda i: (h >> i) & 1
    imm = b(12) << 8 | b(11) << 4 | b(10) << 3 | b(6) << 7 | b(5) << 6 | b(4) << 2 | b(3) << 1 | b(2) << 5
    return _sx(imm, 9)


def _rv_b(d, P, **kw):
    w = _u(d[:4])
    if w & 0x7F != 0x63:
        raise Unverifiable("not a B-type opcode")
    return P + rv_b_imm(w)


def _rv_j(d, P, **kw):
    w = _u(d[:4])
    if w & 0x7F != 0x6F:
        raise Unverifiable("not a J-type opcode")
    return P + rv_j_imm(w)


def _rv_pcrel_hi(d, P, pair=None, **kw):
    """auipc at P paired with the I/S-type instruction that carries the low part."""
    w = _u(d[:4])
    if w & 0x7F != 0x17:
        raise Unverifiable("rel_imm20 site is not auipc")
    if pair is None:
        raise Unverifiable("rel_imm20 without its rel_imm12 partner")
    w2 = _u(pair[:4])
    op = w2 & 0x7F
    if op in (0x13, 0x03, 0x67, 0x07):
        lo = rv_i_imm(w2)
    elif op in (0x23, 0x27):
        lo = rv_s_imm(w2)
    else:
        raise Unverifiable("rel_imm12 site is neither I- nor S-type")
    return (P + rv_u_imm(w) + lo) & 0xFFFFFFFF


def _rv_abs_hi(d, P, **kw):
    w = _u(d[:4])
    if w & 0x7F != 0x37:
        raise Unverifiable("abs32_imm20 site is not lui")
    return rv_u_imm(w) & 0xFFFFFFFF


def _rv_cj(d, P, **kw):
    h = _u(d[:2])
    if h & 3 != 1 or (h >> 13) not in (1, 5):
        raise Unverifiable("not c.j / c.jal")
    return P + rv_cj_imm(h)


def _rv_cb(d, P, **kw):
    h = _u(d[:2])
    if h & 3 != 1 or (h >> 13) not in (6, 7):
        raise Unverifiable("not c.beqz / c.bnez")
    return P + rv_cb_imm(h)


# ---------------------------------------------------------------------------
# ARM (A32)


def arm_expand_imm(imm12):
    rot = (imm12 >> 8) & 0xF
    v = imm12 & 0xFF
    r = 2 * rot
    return ((v >> r) | (v << (32 - r))) & 0xFFFFFFFF if r else v


def _arm_b(d, P, **kw):
    w = _u(d[:4])
    if (w >> 25) & 7 != 5:
        raise Unverifiable("not B/BL")
    return P + 8 + (_sx(w & 0xFFFFFF, 24) << 2)


def _arm_ldr_lit(d, P, **kw):
    w = _u(d[:4])
    if (w >> 26) & 3 != 1 or (w >> 16) & 0xF != 15 or (w >> 25) & 1:
        raise Unverifiable("not LDR (literal)")
    imm = w & 0xFFF
    base = (P + 8) & ~3
    return base + imm if (w >> 23) & 1 else base - imm


def _arm_adr(d, P, **kw):
    w = _u(d[:4])
    if (w >> 16) & 0xF != 15 or (w >> 25) & 7 != 1:
        raise Unverifiable("not ADD/SUB rd, pc, #imm")
    imm = arm_expand_imm(w & 0xFFF)
    opc = (w >> 21) & 0xF
    base = (P + 8) & ~3
    if opc == 4:
        return base + imm
    if opc == 2:
        return base - imm
    raise Unverifiable("ADR with opcode %d" % opc)


# ---------------------------------------------------------------------------
# Thumb


def _t_b_t2(d, P, **kw):
    h = _u(d[:2])
    if h >> 11 != 0b11100:
        raise Unverifiable("not B (T2)")
    return P + 4 + (_sx(h & 0x7FF, 11) << 1)


def _t_b_t1(d, P, **kw):
    h = _u(d[:2])
    if h >> 12 != 0b1101 or (h >> 8) & 0xF >= 14:
        raise Unverifiable("not B<c> (T1)")
    return P + 4 + (_sx(h & 0xFF, 8) << 1)


def _t_bl(d, P, **kw):
    """BL (T1) and B.W (T4): imm32 = SignExtend(S:I1:I2:imm10:imm11:'0'), I = NOT(J EOR S)."""
    h1, h2 = _u(d[:2]), _u(d[2:4])
    if h1 >> 11 != 0b11110 or (h2 >> 14) != 0b11 and (h2 >> 14) != 0b10 or not (h2 >> 12) & 1:
        raise Unverifiable("not BL / B.W (T4)")
    s = (h1 >> 10) & 1
    j1, j2 = (h2 >> 13) & 1, (h2 >> 11) & 1
    i1, i2 = 1 - (j1 ^ s), 1 - (j2 ^ s)
    imm = s << 24 | i1 << 23 | i2 << 22 | (h1 & 0x3FF) << 12 | (h2 & 0x7FF) << 1
    return P + 4 + _sx(imm, 25)


def _t_bcc_w(d, P, **kw):
    """B<c>.W (T3): imm32 = SignExtend(S:J2:J1:imm6:imm11:'0')."""
    h1, h2 = _u(d[:2]), _u(d[2:4])
    if h1 >> 11 != 0b11110 or (h2 >> 14) != 0b10 or (h2 >> 12) & 1:
        raise Unverifiable("not B<c>.W (T3)")
    s = (h1 >> 10) & 1
    j1, j2 = (h2 >> 13) & 1, (h2 >> 11) & 1
    imm = s << 20 | j2 << 19 | j1 << 18 | (h1 & 0x3F) << 12 | (h2 & 0x7FF) << 1
    return P + 4 + _sx(imm, 21)


def _t_lit8(d, P, **kw):
    h = _u(d[:2])
    if h >> 11 not in (0b01001, 0b10100):
        raise Unverifiable("not LDR (literal) T1 / ADR T1")
    return ((P + 4) & ~3) + ((h & 0xFF) << 2)


# ---------------------------------------------------------------------------

# (target family, relocation name) -> (reader, size, is control transfer)
TABLE = {
    ("x86_64", "rel32"): (_x86_rel32, 4, True),
    ("x86_64", "jmp8"): (_x86_rel8, 1, True),
    ("x86_64", "abs32"): (_abs(4), 4, False),
    ("x86_64", "abs64"): (_abs(8), 8, False),
    ("riscv", "b_imm12"): (_rv_b, 4, True),
    ("riscv", "b_imm20"): (_rv_j, 4, True),
    ("riscv", "rel_imm20"): (_rv_pcrel_hi, 4, False),
    ("riscv", "abs32_imm20"): (_rv_abs_hi, 4, False),
    ("riscv", "bc_imm11"): (_rv_cj, 2, True),
    ("riscv", "bc_imm8"): (_rv_cb, 2, True),
    ("arm", "imm24"): (_arm_b, 4, True),
    ("arm", "ldr_imm12"): (_arm_ldr_lit, 4, False),
    ("arm", "adr_imm12"): (_arm_adr, 4, False),
    ("thumb", "wrap_new11"): (_t_b_t2, 2, True),
    ("thumb", "rel8"): (_t_b_t1, 2, True),
    ("thumb", "bl_imm11"): (_t_bl, 4, True),
    ("thumb", "b_imm11_imm6"): (_t_bcc_w, 4, True),
    ("thumb", "lit8"): (_t_lit8, 2, False),
}
for _fam in ("x86_64", "riscv", "arm", "thumb"):
    TABLE[(_fam, "absaddr16")] = (_abs(2), 2, False)
    TABLE[(_fam, "absaddr32")] = (_abs(4), 4, False)
    TABLE[(_fam, "absaddr64")] = (_abs(8), 8, False)

FAMILY = {"x86_64": "x86_64", "riscv": "riscv", "riscv:rvc": "riscv", "arm": "arm", "arm:thumb": "thumb"}
WORD_BITS = {"x86_64": 64, "riscv": 32, "arm": 32, "thumb": 32}


def lookup(target, rtype):
    return TABLE.get((FAMILY[target], rtype))


def expected(target, rtype, S, A):
    fam = FAMILY[target]
    if fam == "riscv" and rtype == "abs32_imm20":
        # lui: the upper 20 bits that, with a sign-extended 12-bit low part, give S (psABI %hi)
        return (S + A + 0x800) & 0xFFFFF000
    if fam == "x86_64" and rtype == "rel32":
        return S + A + 4
    if rtype in ("absaddr16", "absaddr32", "absaddr64", "abs32", "abs64"):
        return S + A
    v = S + A
    return v & 0xFFFFFFFF if fam == "riscv" and rtype == "rel_imm20" else v


def representable(target, rtype, S, A, P):
    """Can the architecture's field hold the value at all?  (ISA ranges.)  None = no opinion."""
    fam = FAMILY[target]
    v = S + A
    if rtype == "absaddr16":
        return 0 <= v < 1 << 16
    if rtype in ("absaddr32", "abs32"):
        return 0 <= v < 1 << 32
    if rtype in ("absaddr64", "abs64"):
        return 0 <= v < 1 << 64
    d = None
    if fam == "x86_64" and rtype == "rel32":
        return -(1 << 31) <= v - P < 1 << 31
    if fam == "x86_64" and rtype == "jmp8":
        return -128 <= v - (P + 1) < 128
    if fam == "riscv":
        d = v - P
        rng = {"b_imm12": 1 << 12, "b_imm20": 1 << 20, "bc_imm11": 1 << 11, "bc_imm8": 1 << 8}.get(rtype)
        if rng:
            return d % 2 == 0 and -rng <= d < rng
        return None
    if fam == "arm":
        if rtype == "imm24":
            d = v - (P + 8)
            return d % 4 == 0 and -(1 << 25) <= d < 1 << 25
        if rtype == "ldr_imm12":
            return abs(v - ((P + 8) & ~3)) < 4096
        return None
    if fam == "thumb":
        d = v - (P + 4)
        rng = {"wrap_new11": 1 << 11, "rel8": 1 << 8, "bl_imm11": 1 << 24, "b_imm11_imm6": 1 << 20}.get(rtype)
        if rng:
            return d % 2 == 0 and -rng <= d < rng
        if rtype == "lit8":
            d = v - ((P + 4) & ~3)
            return d % 4 == 0 and 0 <= d < 1024
    return None


# ---------------------------------------------------------------------------
# llvm-mc decoding of control transfers

TRIPLES = {
    "x86_64": ["-triple=x86_64"],
    "riscv": ["-triple=riscv32", "-mattr=+m,+c", "-M", "no-aliases"],
    "riscv:rvc": ["-triple=riscv32", "-mattr=+m,+c", "-M", "no-aliases"],
    "arm": ["-triple=armv7"],
    "arm:thumb": ["-triple=thumbv7"],
}

_OPERAND = re.compile(r"#?(-?(?:0x[0-9a-fA-F]+|\d+))\s*$")


def x86_instruction_span(data, off, rtype):
    """Start and length of the x86 branch whose displacement field is at data[off]."""
    if rtype == "rel32":
        if off >= 1 and data[off - 1] in (0xE8, 0xE9):
            return off - 1, 5
        if off >= 2 and data[off - 2] == 0x0F and 0x80 <= data[off - 1] <= 0x8F:
            return off - 2, 6
    if rtype == "jmp8" and off >= 1 and (data[off - 1] == 0xEB or 0x70 <= data[off - 1] <= 0x7F):
        return off - 1, 2
    return None


def llvm_decode(target, items):
    """items: list of (bytes of one instruction, address of its first byte).
    Returns a list of decoded branch targets (None where llvm-mc gives no target)."""
    if not LLVM_MC or not items:
        return [None] * len(items)
    text = "".join(" ".join("0x%02x" % b for b in ins) + "\n" for ins, _ in items)
    p = subprocess.run([LLVM_MC, "--disassemble", "--show-encoding"] + TRIPLES[target], input=text.encode(), capture_output=True, timeout=300)
    lines = []
    for ln in p.stdout.decode("latin-1").splitlines():
        st = ln.strip()
        if not st or st.startswith((".", "#", "@")):
            continue
        lines.append(st)
    if len(lines) != len(items) or p.returncode != 0:
        if len(items) == 1:
            return [None]
        return [llvm_decode(target, [it])[0] for it in items]
    fam = FAMILY[target]
    res = []
    for st, (ins, addr) in zip(lines, items):
        code = re.split(r"\s+[#@] encoding:", st)[0].strip()
        m = _OPERAND.search(code)
        if not m:
            res.append(None)
            continue
        off = int(m.group(1), 0)
        if fam == "x86_64":
            res.append(addr + len(ins) + off)
        elif fam == "riscv":
            res.append(addr + off)
        elif fam == "arm":
            res.append(addr + 8 + off)
        else:
            res.append(addr + 4 + off)
    return res
