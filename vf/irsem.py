"""Reference interpreter for ppci IR (DESIGN.md 3.1).

Independent of ppci's optimiser and back ends: it only reads the IR data
structure (blocks, instructions, operands, phi inputs).  Anything on which back
ends may legitimately differ raises `Undef` — callers discard such executions.

Address independence is decided by running the same call under three different
memory layouts (`layout=0/1/2`: other bases, other order, other low address
bits); whatever part of the observation differs between the two is address
dependent and is masked out by `observe_call`.
"""

import bisect
import math
import struct

MASK64 = (1 << 64) - 1


class Undef(Exception):
    """The execution touches something IR semantics leave undefined."""

    def __init__(self, reason):
        super().__init__(reason)
        self.reason = reason


class Unsupported(Exception):
    """Construct outside what the interpreter models."""

    def __init__(self, reason):
        super().__init__(reason)
        self.reason = reason


class _Poison:
    def __repr__(self):
        return "POISON"


POISON = _Poison()


# --------------------------------------------------------------------------
# scalar arithmetic (also used stand-alone by C38 and the self tests)


def norm_int(v, bits, signed):
    v &= (1 << bits) - 1
    if signed and v >> (bits - 1):
        v -= 1 << bits
    return v


def round_f32(x):
    if x != x or x in (math.inf, -math.inf):
        return x
    try:
        return struct.unpack("<f", struct.pack("<f", x))[0]
    except OverflowError:
        return math.copysign(math.inf, x)


def int_to_float(v, fbits):
    """Exact integer -> float conversion, round to nearest even."""
    if fbits == 64:
        return float(v)  # CPython rounds correctly (round-half-even)
    # f32: avoid double rounding through f64
    if v == 0:
        return 0.0
    sign = -1.0 if v < 0 else 1.0
    m = abs(v)
    nb = m.bit_length()
    if nb <= 24:
        return sign * float(m)
    shift = nb - 24
    q, r = m >> shift, m & ((1 << shift) - 1)
    half = 1 << (shift - 1)
    if r > half or (r == half and (q & 1)):
        q += 1
    return round_f32(sign * math.ldexp(float(q), shift))


def float_div(a, b):
    try:
        return a / b
    except ZeroDivisionError:
        if a != a or a == 0.0:
            return math.nan
        neg = (math.copysign(1.0, a) < 0) != (math.copysign(1.0, b) < 0)
        return -math.inf if neg else math.inf


def float_binop(op, a, b, bits):
    try:
        if op == "+":
            r = a + b
        elif op == "-":
            r = a - b
        elif op == "*":
            r = a * b
        elif op == "/":
            r = float_div(a, b)
        else:
            raise Undef("float operator %s" % op)
    except OverflowError:
        raise Undef("python float overflow error")
    return round_f32(r) if bits == 32 else r


def int_binop(op, a, b, bits, signed):
    """a, b normalised to (bits, signed).  Returns the normalised result or raises Undef."""
    if op == "+":
        r = a + b
    elif op == "-":
        r = a - b
    elif op == "*":
        r = a * b
    elif op in ("/", "%"):
        if b == 0:
            raise Undef("division by zero")
        if signed and a == -(1 << (bits - 1)) and b == -1:
            raise Undef("MIN / -1")
        q = abs(a) // abs(b)
        if (a < 0) != (b < 0):
            q = -q
        r = q if op == "/" else a - q * b
    elif op == "&":
        r = a & b
    elif op == "|":
        r = a | b
    elif op == "^":
        r = a ^ b
    elif op in ("<<", ">>"):
        if b < 0 or b >= bits:
            raise Undef("shift count out of range")
        r = (a << b) if op == "<<" else (a >> b)  # >> on a python int is arithmetic; a is normalised
    elif op in ("rol", "ror"):
        if b < 0 or b >= bits:
            raise Undef("rotate count out of range")
        u = a & ((1 << bits) - 1)
        if op == "ror":
            b = (bits - b) % bits
        r = ((u << b) | (u >> (bits - b))) if b else u
    else:
        raise Unsupported("binop %s" % op)
    return norm_int(r, bits, signed)


def float_to_int(x, bits, signed):
    if x != x or x in (math.inf, -math.inf):
        raise Undef("float->int of nan/inf")
    t = math.trunc(x)
    lo = -(1 << (bits - 1)) if signed else 0
    hi = (1 << (bits - 1)) - 1 if signed else (1 << bits) - 1
    if t < lo or t > hi:
        raise Undef("float->int out of range")
    return t


def compare(cond, a, b):
    if cond == "==":
        return a == b
    if cond == "!=":
        return a != b
    if cond == "<":
        return a < b
    if cond == ">":
        return a > b
    if cond == "<=":
        return a <= b
    if cond == ">=":
        return a >= b
    raise Unsupported("condition %s" % cond)


def ext_default(name, args, index, ret_kind):
    """Deterministic value returned by an external function (same formula in vf/ext.c)."""
    h = 0x9E3779B97F4A7C15
    for ch in name.encode():
        h = ((h ^ ch) * 0x100000001B3) & MASK64
    for a in args:
        if isinstance(a, float):
            a = struct.unpack("<Q", struct.pack("<d", a))[0]
        h = ((h ^ (a & MASK64)) * 0xFF51AFD7ED558CCD) & MASK64
        h ^= h >> 33
    h = ((h ^ index) * 0xC4CEB9FE1A85EC53) & MASK64
    h ^= h >> 29
    return h & 0x7F  # small non-negative: valid for every integer return type


# --------------------------------------------------------------------------


class Obj:
    __slots__ = ("base", "size", "data", "init", "live", "name", "kind", "ref", "pmask")

    def __init__(self, base, size, name, kind, ref=None):
        self.base = base
        self.size = size
        self.data = bytearray(size)
        self.init = bytearray(size)
        self.pmask = bytearray(size)  # 1 = byte written by a ptr-typed store (address dependent)
        self.live = True
        self.name = name
        self.kind = kind
        self.ref = ref


class Machine:
    """Executes functions of one ir.Module."""

    def __init__(self, module, ptr_bits=64, little=True, layout=0, fuel=20000, ext=None, max_depth=40):
        from ppci import ir

        self.ir = ir
        self.module = module
        self.ptr_bits = ptr_bits
        self.ptr_size = ptr_bits // 8
        self.little = little
        self.layout = layout
        self.fuel0 = fuel
        self.fuel = fuel
        self.ext = ext or ext_default
        self.max_depth = max_depth
        self.trace = []
        self.bases = []  # sorted object bases
        self.objs = []  # parallel to bases
        self.globals = {}  # name -> Obj
        self.funcs = {}  # address -> subroutine / external
        self.func_addr = {}  # name -> address
        self.buffers = []
        self.depth = 0
        self._kind_cache = {}
        if layout == 0:
            self.g_next, self.g_gap, self.g_skew = 0x0100_0000, 64, 0
            self.s_next, self.s_gap = 0x4000_0000, 32
            self.f_next, self.b_next, self.l_next = 0x0001_0000, 0x3000_0000, 0x2000_0000
        elif layout == 1:
            self.g_next, self.g_gap, self.g_skew = 0x0500_0000, 4096, 1
            self.s_next, self.s_gap = 0x6000_0000, 256
            self.f_next, self.b_next, self.l_next = 0x0009_0000, 0x3800_0000, 0x2800_0000
        else:
            # third layout: every byte of an address differs from layouts 0 and 1 with high probability
            self.g_next, self.g_gap, self.g_skew = 0x0A37_1500, 1000, 1
            self.s_next, self.s_gap = 0x5B12_3400, 96
            self.f_next, self.b_next, self.l_next = 0x0015_6700, 0x3C9A_4200, 0x2D4B_8100
        self.literals = {}
        self._layout_globals()

    # -- memory ------------------------------------------------------------
    def _place(self, kind, size, alignment, name, ref=None):
        alignment = max(1, alignment)
        if kind == "global":
            nxt, gap = self.g_next, self.g_gap
        elif kind == "alloca":
            nxt, gap = self.s_next, self.s_gap
        elif kind == "buffer":
            nxt, gap = self.b_next, self.g_gap
        else:
            nxt, gap = self.l_next, self.g_gap
        big = max(64, alignment)
        base = (nxt + big - 1) // big * big
        if self.g_skew:
            base += alignment  # only the declared alignment holds
        obj = Obj(base, size, name, kind, ref)
        end = base + max(size, 1) + gap
        if kind == "global":
            self.g_next = end
        elif kind == "alloca":
            self.s_next = end
        elif kind == "buffer":
            self.b_next = end
        else:
            self.l_next = end
        i = bisect.bisect_left(self.bases, base)
        self.bases.insert(i, base)
        self.objs.insert(i, obj)
        return obj

    def _unplace(self, obj):
        i = bisect.bisect_left(self.bases, obj.base)
        assert self.objs[i] is obj
        del self.bases[i]
        del self.objs[i]
        obj.live = False

    def _layout_globals(self):
        ir = self.ir
        variables = list(self.module.variables)
        if self.layout:
            variables = variables[::-1]
        for v in variables:
            obj = self._place("global", v.amount, v.alignment, v.name, v)
            self.globals[v.name] = obj
        subs = list(self.module.functions) + [e for e in self.module.externals if isinstance(e, ir.ExternalSubRoutine)]
        if self.layout:
            subs = subs[::-1]
        for f in subs:
            self.funcs[self.f_next] = f
            self.func_addr[f.name] = self.f_next
            self.f_next += 16 if not self.layout else 48
        for e in self.module.externals:
            if isinstance(e, ir.ExternalVariable):
                raise Unsupported("external variable")
        # initial contents
        for v in self.module.variables:
            obj = self.globals[v.name]
            for i in range(obj.size):
                obj.init[i] = 1
            if v.value:
                pos = 0
                for part in v.value:
                    if isinstance(part, bytes):
                        if pos + len(part) > obj.size:
                            raise Unsupported("initialiser larger than variable")
                        obj.data[pos : pos + len(part)] = part
                        pos += len(part)
                    elif isinstance(part, tuple) and part[0] is ir.ptr:
                        addr = self.address_of_name(part[1])
                        obj.data[pos : pos + self.ptr_size] = self._int_bytes(addr, self.ptr_size)
                        for i in range(pos, pos + self.ptr_size):
                            obj.pmask[i] = 1
                        pos += self.ptr_size
                    else:
                        raise Unsupported("initialiser part %r" % (part,))

    def address_of_name(self, name):
        if name in self.globals:
            return self.globals[name].base
        if name in self.func_addr:
            return self.func_addr[name]
        raise Unsupported("reference to unknown symbol %s" % name)

    def new_buffer(self, data, alignment=8, name="buf"):
        obj = self._place("buffer", len(data), alignment, name)
        obj.data[:] = data
        for i in range(obj.size):
            obj.init[i] = 1
        self.buffers.append(obj)
        return obj.base

    def _find(self, addr, size):
        i = bisect.bisect_right(self.bases, addr) - 1
        if i < 0:
            raise Undef("access outside any object")
        obj = self.objs[i]
        off = addr - obj.base
        if not obj.live or off < 0 or off + size > obj.size:
            raise Undef("access outside any object")
        return obj, off

    def _int_bytes(self, v, size):
        return (v & ((1 << (8 * size)) - 1)).to_bytes(size, "little" if self.little else "big")

    def load(self, addr, ty):
        ir = self.ir
        if ty is ir.ptr:
            size = self.ptr_size
        else:
            size = ty.size
        obj, off = self._find(addr, size)
        if obj.kind == "literal" and False:
            pass
        for i in range(off, off + size):
            if not obj.init[i]:
                raise Undef("load of uninitialised memory")
        raw = bytes(obj.data[off : off + size])
        if isinstance(ty, ir.FloatingPointTyp):
            fmt = ("<" if self.little else ">") + ("f" if size == 4 else "d")
            return struct.unpack(fmt, raw)[0]
        v = int.from_bytes(raw, "little" if self.little else "big")
        if ty is ir.ptr:
            return v
        return norm_int(v, ty.bits, ty.is_signed)

    def store(self, addr, ty, value):
        ir = self.ir
        if value is POISON:
            raise Undef("store of undefined value")
        if ty is ir.ptr:
            raw = self._int_bytes(value, self.ptr_size)
        elif isinstance(ty, ir.FloatingPointTyp):
            fmt = ("<" if self.little else ">") + ("f" if ty.size == 4 else "d")
            try:
                raw = struct.pack(fmt, value)
            except OverflowError:
                raw = struct.pack(fmt, math.copysign(math.inf, value))
        else:
            raw = self._int_bytes(value, ty.size)
        obj, off = self._find(addr, len(raw))
        if obj.kind == "literal":
            raise Undef("store into literal data")
        obj.data[off : off + len(raw)] = raw
        isptr = 1 if ty is ir.ptr else 0
        for i in range(off, off + len(raw)):
            obj.init[i] = 1
            obj.pmask[i] = isptr

    def copy(self, dst, src, n):
        if n == 0:
            return
        sobj, soff = self._find(src, n)
        dobj, doff = self._find(dst, n)
        if dobj.kind == "literal":
            raise Undef("store into literal data")
        if sobj is dobj and abs(soff - doff) < n and soff != doff:
            raise Undef("overlapping memcpy")
        data = bytes(sobj.data[soff : soff + n])
        init = bytes(sobj.init[soff : soff + n])
        dobj.data[doff : doff + n] = data
        dobj.init[doff : doff + n] = init
        dobj.pmask[doff : doff + n] = bytes(sobj.pmask[soff : soff + n])

    # -- values ------------------------------------------------------------
    def _literal_obj(self, ins):
        obj = self.literals.get(id(ins))
        if obj is None:
            obj = self._place("literal", len(ins.data), 1, ins.name, ins)
            obj.data[:] = ins.data
            for i in range(obj.size):
                obj.init[i] = 1
            self.literals[id(ins)] = obj
        return obj

    def _tick(self):
        self.fuel -= 1
        if self.fuel < 0:
            raise Undef("fuel")

    def call(self, fname, args):
        """Call a function of the module by name.  Returns the value (None for procedures)."""
        f = None
        for g in self.module.functions:
            if g.name == fname:
                f = g
        if f is None:
            raise Unsupported("no function %s" % fname)
        self.fuel = self.fuel0
        return self._invoke(f, list(args))

    def _invoke(self, f, args):
        ir = self.ir
        if isinstance(f, ir.ExternalSubRoutine):
            idx = len(self.trace)
            clean = []
            for a, ty in zip(args, f.argument_types):
                if isinstance(a, tuple):
                    raise Unsupported("blob argument to external")
                clean.append(a)
            if isinstance(f, ir.ExternalFunction):
                rty = f.return_ty
                r = self.ext(f.name, clean, idx, rty)
                if isinstance(rty, ir.FloatingPointTyp):
                    r = float(r)
                elif rty is not ir.ptr:
                    r = norm_int(r, rty.bits, rty.is_signed)
                self.trace.append((f.name, tuple(clean)))
                return r
            self.trace.append((f.name, tuple(clean)))
            return None
        if len(args) != len(f.arguments):
            raise Undef("call with wrong number of arguments")
        self.depth += 1
        if self.depth > self.max_depth:
            raise Undef("recursion depth")
        env = {}
        frame_objs = []
        saved_sp = self.s_next
        try:
            for p, a in zip(f.arguments, args):
                if p.ty.is_blob:
                    if not isinstance(a, tuple):
                        raise Undef("blob parameter given a scalar")
                    obj = self._place("alloca", p.ty.size, p.ty.alignment, p.name)
                    data, init = a
                    obj.data[:] = data[: obj.size].ljust(obj.size, b"\0")
                    obj.init[:] = init[: obj.size].ljust(obj.size, b"\0")
                    frame_objs.append(obj)
                    env[p] = obj
                else:
                    if isinstance(a, tuple):
                        raise Undef("scalar parameter given a blob")
                    env[p] = self._coerce_arg(a, p.ty)
            return self._run(f, env, frame_objs)
        finally:
            for obj in frame_objs:
                self._unplace(obj)
            self.s_next = saved_sp
            self.depth -= 1

    def _coerce_arg(self, a, ty):
        ir = self.ir
        if a is POISON:
            raise Undef("undefined value passed as argument")
        if ty is ir.ptr:
            return a & ((1 << self.ptr_bits) - 1)
        if isinstance(ty, ir.FloatingPointTyp):
            a = float(a)
            return round_f32(a) if ty.bits == 32 else a
        return norm_int(int(a), ty.bits, ty.is_signed)

    def _val(self, env, v):
        """Value of operand v as a scalar."""
        ir = self.ir
        if isinstance(v, ir.GlobalValue):
            if isinstance(v, ir.Variable):
                return self.globals[v.name].base
            if v.name in self.func_addr:
                return self.func_addr[v.name]
            raise Unsupported("global value %r" % v)
        try:
            x = env[v]
        except KeyError:
            raise Undef("use of a value that was never computed on this path")
        if x is POISON:
            raise Undef("use of undefined value")
        if isinstance(x, Obj):
            # a blob-typed value used where a scalar is needed: its address
            return x.base
        return x

    def _run(self, f, env, frame_objs):
        ir = self.ir
        ptr_mask = (1 << self.ptr_bits) - 1
        block = f.entry
        prev = None
        while True:
            instructions = block.instructions
            # phis in parallel
            n = 0
            newvals = []
            while n < len(instructions) and isinstance(instructions[n], ir.Phi):
                phi = instructions[n]
                if prev is None or prev not in phi.inputs:
                    raise Undef("phi without input for the incoming edge")
                src = phi.inputs[prev]
                if isinstance(src, ir.GlobalValue):
                    newvals.append((phi, self._val(env, src)))
                else:
                    if src not in env:
                        raise Undef("phi input never computed on this path")
                    newvals.append((phi, env[src]))
                n += 1
            for phi, val in newvals:
                env[phi] = val
                self._tick()
            for ins in instructions[n:]:
                self._tick()
                t = type(ins)
                if t is ir.Const:
                    ty = ins.ty
                    if ty is ir.ptr:
                        env[ins] = int(ins.value) & ptr_mask
                    elif isinstance(ty, ir.FloatingPointTyp):
                        x = float(ins.value)
                        env[ins] = round_f32(x) if ty.bits == 32 else x
                    else:
                        if not isinstance(ins.value, int):
                            raise Unsupported("non-integer constant of integer type")
                        lo = -(1 << (ty.bits - 1)) if ty.is_signed else 0
                        hi = (1 << ty.bits) - 1
                        if ins.value < lo or ins.value > hi:
                            raise Undef("constant outside any reading of its type")
                        env[ins] = norm_int(ins.value, ty.bits, ty.is_signed)
                elif t is ir.Binop:
                    a = self._val(env, ins.a)
                    b = self._val(env, ins.b)
                    ty = ins.ty
                    if ty is ir.ptr:
                        env[ins] = int_binop(ins.operation, a, b, self.ptr_bits, False)
                    elif isinstance(ty, ir.FloatingPointTyp):
                        env[ins] = float_binop(ins.operation, a, b, ty.bits)
                    else:
                        env[ins] = int_binop(ins.operation, a, b, ty.bits, ty.is_signed)
                elif t is ir.Unop:
                    a = self._val(env, ins.a)
                    ty = ins.ty
                    if isinstance(ty, ir.FloatingPointTyp):
                        if ins.operation != "-":
                            raise Undef("float ~")
                        env[ins] = -a
                    else:
                        bits = self.ptr_bits if ty is ir.ptr else ty.bits
                        signed = False if ty is ir.ptr else ty.is_signed
                        r = -a if ins.operation == "-" else ~a
                        env[ins] = norm_int(r, bits, signed)
                elif t is ir.Cast:
                    env[ins] = self._cast(self._val(env, ins.src), ins.src.ty, ins.ty)
                elif t is ir.Load:
                    env[ins] = self.load(self._val(env, ins.address), ins.ty)
                elif t is ir.Store:
                    vty = ins.value.ty
                    addr = self._val(env, ins.address)
                    if vty.is_blob:
                        src = env.get(ins.value)
                        if not isinstance(src, Obj):
                            raise Unsupported("store of non-object blob")
                        self.copy(addr, src.base, vty.size)
                    else:
                        self.store(addr, vty, self._val(env, ins.value))
                elif t is ir.Alloc:
                    obj = self._place("alloca", ins.amount, ins.alignment, ins.name)
                    frame_objs.append(obj)
                    env[ins] = obj
                elif t is ir.AddressOf:
                    src = ins.src
                    if isinstance(src, ir.GlobalValue):
                        env[ins] = self._val(env, src)
                    else:
                        o = env.get(src)
                        if not isinstance(o, Obj):
                            raise Unsupported("address of non-object")
                        env[ins] = o.base
                elif t is ir.LiteralData:
                    env[ins] = self._literal_obj(ins)
                elif t is ir.CopyBlob:
                    self.copy(self._val(env, ins.dst), self._val(env, ins.src), ins.amount)
                elif t is ir.FunctionCall or t is ir.ProcedureCall:
                    callee = ins.callee
                    if isinstance(callee, (ir.SubRoutine, ir.ExternalSubRoutine)):
                        target = callee
                    else:
                        addr = self._val(env, callee)
                        target = self.funcs.get(addr)
                        if target is None:
                            raise Undef("call through a pointer that is not a function")
                    args = []
                    for a in ins.arguments:
                        if a.ty.is_blob:
                            o = env.get(a)
                            if not isinstance(o, Obj):
                                raise Unsupported("blob argument that is not an object")
                            args.append((bytes(o.data), bytes(o.init)))
                        else:
                            args.append(self._val(env, a))
                    self._check_signature(target, ins, t is ir.FunctionCall)
                    r = self._invoke(target, args)
                    if t is ir.FunctionCall:
                        if r is None:
                            raise Undef("function call to a procedure")
                        env[ins] = r
                elif t is ir.Undefined:
                    env[ins] = POISON
                elif t is ir.Jump:
                    prev, block = block, ins.target
                    break
                elif t is ir.CJump:
                    a = self._val(env, ins.a)
                    b = self._val(env, ins.b)
                    prev, block = block, (ins.lab_yes if compare(ins.cond, a, b) else ins.lab_no)
                    break
                elif t is ir.Return:
                    r = self._val(env, ins.result)
                    return r
                elif t is ir.Exit:
                    return None
                elif t is ir.Phi:
                    raise Undef("phi after a non-phi instruction")
                elif t is ir.InlineAsm:
                    raise Unsupported("inline asm")
                else:
                    raise Unsupported("instruction %s" % t.__name__)
            else:
                raise Undef("block without terminator")

    def _check_signature(self, target, ins, want_result):
        ir = self.ir
        if isinstance(target, ir.SubRoutine):
            tys = [p.ty for p in target.arguments]
            rty = target.return_ty if isinstance(target, ir.Function) else None
        else:
            tys = list(target.argument_types)
            rty = target.return_ty if isinstance(target, ir.ExternalFunction) else None
        if len(tys) != len(ins.arguments) or any(a.ty is not b for a, b in zip(ins.arguments, tys)):
            raise Undef("call with mismatching signature")
        if want_result and rty is not ins.ty:
            raise Undef("call with mismatching return type")

    def _cast(self, v, sty, dty):
        ir = self.ir
        sf = isinstance(sty, ir.FloatingPointTyp)
        df = isinstance(dty, ir.FloatingPointTyp)
        if sty.is_blob or dty.is_blob:
            raise Unsupported("cast of blob")
        if sf and df:
            return round_f32(v) if dty.bits == 32 else v
        if sf:
            if dty is ir.ptr:
                raise Undef("float -> ptr")
            return float_to_int(v, dty.bits, dty.is_signed)
        if df:
            if sty is ir.ptr:
                raise Undef("ptr -> float")
            return int_to_float(v, dty.bits)
        # int/ptr -> int/ptr : v is already normalised by the source type
        if dty is ir.ptr:
            return v & ((1 << self.ptr_bits) - 1)
        return norm_int(v, dty.bits, dty.is_signed)

    # -- observation ---------------------------------------------------------
    def observe(self, ret):
        obs = {"ret": _obsval(ret)}
        g = {}
        for name, obj in self.globals.items():
            g[name] = _hex_masked(obj)
        obs["globals"] = g
        obs["buffers"] = [_hex_masked(o) for o in self.buffers]
        obs["trace"] = [[n, [_obsval(a) for a in args]] for n, args in self.trace]
        return obs


def _hex_masked(obj):
    h = bytes(obj.data).hex()
    if not any(obj.pmask) and all(obj.init):
        return h
    # pointer bytes are address dependent; bytes copied from never-initialised memory have no defined value
    return "".join("??" if (obj.pmask[i] or not obj.init[i]) else h[2 * i : 2 * i + 2] for i in range(obj.size))


def _obsval(v):
    if isinstance(v, float):
        if v != v:
            return "nan"
        return "f:" + struct.pack(">d", v).hex()
    return v


def observe_call(module, fname, args, ptr_bits=64, little=True, fuel=20000, buffers=(), ext=None, calls=None):
    """Run fname(args) under both layouts and return the layout-independent observation.

    args: list of scalars; an argument given as ("buf", index) is the address of
    buffers[index] (bytes).  `calls`: optional further [(fname, args)] executed
    afterwards in the same machine (results appended under 'more').
    Elements that differ between the two layouts are replaced by "ADDR".
    Raises Undef / Unsupported.
    """
    out = []
    for layout in (0, 1, 2):
        m = Machine(module, ptr_bits, little, layout, fuel, ext)
        addrs = [m.new_buffer(bytes(b)) for b in buffers]

        def conv(a):
            if isinstance(a, (tuple, list)) and len(a) == 2 and a[0] == "buf":
                return addrs[a[1]]
            return a

        rets = [m.call(fname, [conv(a) for a in args])]
        for fn2, args2 in calls or ():
            rets.append(m.call(fn2, [conv(a) for a in args2]))
        obs = m.observe(rets[0])
        if len(rets) > 1:
            obs["more"] = [_obsval(r) for r in rets[1:]]
        out.append(obs)
    a, b, c = out
    return merge_layouts(merge_layouts(a, b), c)


def merge_layouts(a, b):
    """Mask what differs between two layouts.  Raises Undef if the shape differs."""
    if len(a["trace"]) != len(b["trace"]) or [t[0] for t in a["trace"]] != [t[0] for t in b["trace"]]:
        raise Undef("address dependent control flow")
    res = {}
    res["ret"] = a["ret"] if a["ret"] == b["ret"] else "ADDR"
    res["globals"] = {}
    for name in a["globals"]:
        res["globals"][name] = _mask_hex(a["globals"][name], b["globals"][name])
    res["buffers"] = [_mask_hex(x, y) for x, y in zip(a["buffers"], b["buffers"])]
    tr = []
    for (n, xa), (_, xb) in zip(a["trace"], b["trace"]):
        tr.append([n, [p if p == q else "ADDR" for p, q in zip(xa, xb)]])
    res["trace"] = tr
    if "more" in a:
        res["more"] = [p if p == q else "ADDR" for p, q in zip(a["more"], b["more"])]
    return res


def _mask_hex(x, y, group=8):
    if x == y:
        return x
    n = len(x) // 2
    bad = [x[2 * i : 2 * i + 2] != y[2 * i : 2 * i + 2] for i in range(n)]
    out = []
    for i in range(n):
        g0 = i - i % group
        # a byte that differs between the layouts taints its whole aligned pointer-sized group
        if any(bad[g0 : g0 + group]):
            out.append("??")
        else:
            out.append(x[2 * i : 2 * i + 2])
    return "".join(out)


def obs_equal(ref, other):
    """Compare an observation with a reference observation, ignoring masked parts of the reference.

    Returns None if equal, else a short description of the first difference."""
    if ref["ret"] != "ADDR" and ref["ret"] != other["ret"]:
        return "return value: expected %r, got %r" % (ref["ret"], other["ret"])
    for name, hx in ref["globals"].items():
        o = other["globals"].get(name)
        if o is None:
            continue
        if not _hex_match(hx, o):
            return "global %s: expected %s, got %s" % (name, hx, o)
    for i, hx in enumerate(ref["buffers"]):
        if i < len(other["buffers"]) and not _hex_match(hx, other["buffers"][i]):
            return "buffer %d: expected %s, got %s" % (i, hx, other["buffers"][i])
    if len(ref["trace"]) != len(other["trace"]):
        return "external call trace: expected %r, got %r" % (ref["trace"], other["trace"])
    for (n, xa), (n2, xb) in zip(ref["trace"], other["trace"]):
        if n != n2 or len(xa) != len(xb) or any(p != "ADDR" and p != q for p, q in zip(xa, xb)):
            return "external call trace: expected %r, got %r" % (ref["trace"], other["trace"])
    if "more" in ref:
        for p, q in zip(ref["more"], other.get("more", [])):
            if p != "ADDR" and p != q:
                return "later call result: expected %r, got %r" % (p, q)
    return None


def _hex_match(ref, other):
    if ref == other:
        return True
    if len(ref) != len(other):
        return False
    for i in range(0, len(ref), 2):
        if ref[i : i + 2] != "??" and ref[i : i + 2] != other[i : i + 2]:
            return False
    return True
