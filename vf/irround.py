"""Shared machinery of the IR serialisation round-trip checks C15 (text) and C16 (JSON).

* `PROFILE`            genir profile with the full menu (undef, non-finite floats, permuted blocks)
* `case_strategy(ex)`  Hypothesis strategy of cases; `ex` = set of feature names to exclude by construction
      {"kind": "gen", "module": <genir description>, "calls": [[fname, args], ...]}
      {"kind": "c", "src": <C text>, "opt": "0" | "2", "calls": [[fname, args], ...]}
* `build_case(case)`   -> (ir.Module, ptr_bits, calls with buffers)
* `module_features(m)` -> set of feature names present in an ir.Module (the shapes the known findings need)
* `strip(desc, feature)` -> bool: remove one feature from a genir description in place
* `dump_module(m)` / `first_diff(a, b)`   structural comparison written for C16
* `describe_exception(e)`  "<Type>(<text>) in <innermost ppci file>:<function>"
"""

import io
import re
import struct
import traceback

from hypothesis import strategies as st

from . import genir
from .core import Discard, HarnessError

PROFILE = genir.Profile(name="roundtrip", undef=True, nonfinite=True, permute_blocks=True, split_init=35, dup_args_pct=60)
PROFILE_BIG = genir.Profile(name="roundtrip-big", undef=True, nonfinite=True, permute_blocks=True, max_blocks=12, max_ins=14, max_funcs=4, split_init=35, dup_args_pct=60)

FEATURES = ["init", "volatile", "inv", "rot", "copy", "undef", "fexp", "fwd", "uscore", "asm", "nameclash"]


# ---------------------------------------------------------------------------
# features of a genir description / of an ir.Module


def float_repr_is_plain(x):
    """True when repr(x) is digits '.' digits (no exponent, not inf/nan)."""
    return re.fullmatch(r"-?\d+\.\d+", repr(x)) is not None


def _layout_pos(fd):
    order = fd.get("layout") or list(range(len(fd["blocks"])))
    return {bi: pos for pos, bi in enumerate(order)}


def desc_has_forward_use(fd):
    """A non-phi instruction uses a value defined in a block that is emitted later."""
    pos = _layout_pos(fd)
    where = {}
    for bi, b in enumerate(fd["blocks"]):
        for ins in b["ins"]:
            if ins[0] in ("store", "copy", "jmp", "cjmp", "ret", "exit"):
                continue
            if ins[0] == "call" and ins[1] is None:
                continue
            where[ins[1]] = bi
    for bi, b in enumerate(fd["blocks"]):
        for ins in b["ins"]:
            if ins[0] == "phi":
                continue
            for n in _operand_names(ins):
                if n in where and pos[where[n]] > pos[bi]:
                    return True
    return False


def _operand_names(ins):
    k = ins[0]
    if k == "binop":
        return [ins[3], ins[5]]
    if k == "unop":
        return [ins[4]]
    if k in ("cast", "load"):
        return [ins[3]]
    if k == "addr":
        return [ins[2]]
    if k == "store":
        return [ins[1], ins[2]]
    if k == "copy":
        return [ins[1], ins[2]]
    if k == "call":
        return [ins[3]] + list(ins[4])
    if k == "cjmp":
        return [ins[1], ins[3]]
    if k == "ret":
        return [ins[1]]
    return []


def strip(desc, feature):
    """Remove `feature` from a genir description in place; returns True if something changed."""
    changed = False
    if feature == "init":
        for g in desc["globals"]:
            if g["init"] is not None:
                g["init"] = None
                changed = True
        return changed
    if feature in ("nameclash", "uscore", "asm"):
        return False  # not produced from descriptions / avoided inside shadow_rename
    if feature == "fwd":
        for fd in desc["functions"]:
            if desc_has_forward_use(fd):
                fd["layout"] = list(range(len(fd["blocks"])))
                changed = True
        return changed
    for fd in desc["functions"]:
        for b in fd["blocks"]:
            out = []
            for ins in b["ins"]:
                k = ins[0]
                if feature == "volatile" and k == "load" and ins[4]:
                    ins[4] = False
                    changed = True
                elif feature == "volatile" and k == "store" and ins[3]:
                    ins[3] = False
                    changed = True
                elif feature == "inv" and k == "unop" and ins[3] == "~":
                    ins[3] = "-"
                    changed = True
                elif feature == "rot" and k == "binop" and ins[4] in ("rol", "ror"):
                    ins[4] = "<<" if ins[4] == "rol" else ">>"
                    changed = True
                elif feature == "copy" and k == "copy":
                    changed = True
                    continue  # dropped
                elif feature == "undef" and k == "undef":
                    # a constant of the same name and type takes its place
                    ty = ins[2]
                    ins = ["const", ins[1], ty, genir.fhex(0.0) if genir.is_float(ty) else 0]
                    changed = True
                elif feature == "fexp" and k == "const" and isinstance(ins[3], str):
                    if not float_repr_is_plain(genir.unfhex(ins[3])):
                        ins[3] = genir.fhex(0.25)
                        changed = True
                out.append(ins)
            b["ins"] = out
    return changed


def module_features(m):
    """Feature names (see FEATURES) present in an ir.Module."""
    from ppci import ir

    fs = set()
    names = [m.name]
    for e in m.externals:
        names.append(e.name)
    for v in m.variables:
        names.append(v.name)
        if v.value is not None:
            fs.add("init")
    for f in m.functions:
        names.append(f.name)
        names.extend(p.name for p in f.arguments)
        pos = {b: i for i, b in enumerate(f.blocks)}
        for b in f.blocks:
            names.append(b.name)
            for ins in b:
                if isinstance(ins, ir.Value):
                    names.append(ins.name)
                if isinstance(ins, (ir.Load, ir.Store)) and ins.volatile:
                    fs.add("volatile")
                elif isinstance(ins, ir.Unop) and ins.operation == "~":
                    fs.add("inv")
                elif isinstance(ins, ir.Binop) and ins.operation in ("rol", "ror"):
                    fs.add("rot")
                elif isinstance(ins, ir.CopyBlob):
                    fs.add("copy")
                elif isinstance(ins, ir.Undefined):
                    fs.add("undef")
                elif isinstance(ins, ir.InlineAsm):
                    fs.add("asm")
                elif isinstance(ins, ir.Const) and isinstance(ins.value, float) and not float_repr_is_plain(ins.value):
                    fs.add("fexp")
                if not isinstance(ins, ir.Phi):
                    for u in ins.uses:
                        ub = getattr(u, "block", None)
                        if ub is not None and ub in pos and pos[ub] > pos[b]:
                            fs.add("fwd")
    if any(n.startswith("_") for n in names):
        fs.add("uscore")
    fs |= name_clash_features(m)
    return fs


def name_clash_features(m):
    """'shadow': a function-local value (parameter or instruction) has the name of a module-level value.
    'nameclash': such a name is ambiguous for a reader that resolves operands by name, innermost scope first,
    in reading order: the function also refers to the module-level value of that name, or the local value is
    used (by any instruction, phis included) before its definition in block/instruction order."""
    from ppci import ir

    fs = set()
    module_level = {}
    for x in list(m.externals) + list(m.variables) + list(m.functions):
        module_level[x.name] = x
    for f in m.functions:
        order = {}
        for bi, b in enumerate(f.blocks):
            for ii, ins in enumerate(b):
                order[id(ins)] = (bi, ii)
        used_globals = set()
        for b in f.blocks:
            for ins in b:
                for u in ins.uses:
                    if module_level.get(u.name) is u:
                        used_globals.add(u.name)
        locals_ = list(f.arguments) + [ins for b in f.blocks for ins in b if isinstance(ins, ir.Value)]
        for v in locals_:
            if v.name not in module_level:
                continue
            fs.add("shadow")
            if v.name in used_globals:
                fs.add("nameclash")
            if id(v) in order:
                for user in v.used_by:
                    if id(user) in order and order[id(user)] <= order[id(v)]:  # (<=: a phi that refers to itself is read before it is defined)
                        fs.add("nameclash")
    return fs


def uniquify_locals(m):
    """Give every function-local value that shares its name with a module-level value a fresh name (in place).
    Returns the number of renamed values."""
    from ppci import ir

    taken = {x.name for x in list(m.externals) + list(m.variables) + list(m.functions)}
    n = 0
    for f in m.functions:
        locals_ = list(f.arguments) + [ins for b in f.blocks for ins in b if isinstance(ins, ir.Value)]
        names = {v.name for v in locals_} | {b.name for b in f.blocks}
        for v in locals_:
            if v.name in taken:
                k = 0
                while "%s_u%d" % (v.name, k) in names or "%s_u%d" % (v.name, k) in taken:
                    k += 1
                v.name = "%s_u%d" % (v.name, k)
                names.add(v.name)
                n += 1
    return n


# ---------------------------------------------------------------------------
# C fragments (front-end produced modules)
#
# Each fragment is self-contained (own globals and functions, unique names); a translation unit is a
# subset of fragments.  {K0}/{K1} are replaced by drawn integer constants, {F0} by a drawn float literal.
# funcs: [(name, [argument types])] are the functions called under the reference interpreter.

C_FRAGMENTS = [
    {
        "id": "arith",
        "src": "int ar_add(int a, int b) { return a * {K0} + b - {K1}; }\n"
        "unsigned ar_mix(unsigned a, unsigned b) { return (a << 3) ^ (b >> 2) | (a & {K0}u) % (b | 1u); }\n",
        "funcs": [("ar_add", ["i32", "i32"]), ("ar_mix", ["u32", "u32"])],
    },
    {
        "id": "neg",
        "src": "long ng_f(long a, char c) { long m = -{K0}; return -a + m * c - 9223372036854775807L; }\n",
        "funcs": [("ng_f", ["i64", "i8"])],
    },
    {
        "id": "inv",
        "src": "int iv_f(int a) { return ~a ^ {K0}; }\n",
        "funcs": [("iv_f", ["i32"])],
    },
    {
        "id": "struct",
        "src": "struct st_S { int a; char b; double d; };\n"
        "struct st_S st_g = { {K0}, 2, {F0} };\n"
        "struct st_S st_mk(int a) { struct st_S s; s.a = a; s.b = {K1}; s.d = {F0}; return s; }\n"
        "int st_use(struct st_S s) { return s.a + s.b; }\n"
        "int st_run(int a) { struct st_S t = st_mk(a); struct st_S u; u = t; st_g = u; return st_use(u) + st_g.a; }\n",
        "funcs": [("st_run", ["i32"])],
    },
    {
        "id": "loop",
        "src": "int lp_sum(int n) { int s = 0; int i; for (i = 0; i < (n & 15); i++) { if (i == {K0}) continue; s += i * i; } "
        "while (n > 100) { n = n / 2; s++; } do { s--; } while (s > 1000); return s; }\n",
        "funcs": [("lp_sum", ["i32"])],
    },
    {
        "id": "switch",
        "src": "int sw_f(int x) { switch (x & 7) { case 0: return {K0}; case 1: x += 3; case 2: x *= 2; break; "
        "case 5: return -1; default: x = x ? {K1} : 4; } return x; }\n",
        "funcs": [("sw_f", ["i32"])],
    },
    {
        "id": "ternary",
        "src": "int tn_f(int a, int b) { int m = a > b ? a : b; return (a && b) ? m : (a || b) ? {K0} : !m; }\n",
        "funcs": [("tn_f", ["i32", "i32"])],
    },
    {
        "id": "fnptr",
        "src": "int fp_inc(int x) { return x + {K0}; }\nint fp_dbl(int x) { return x * 2; }\n"
        "int (*fp_tab[2])(int) = { fp_inc, fp_dbl };\nint (*fp_cur)(int) = fp_dbl;\n"
        "int fp_call(int i, int x) { int (*f)(int) = fp_tab[i & 1]; return f(x) + fp_cur(x); }\n",
        "funcs": [("fp_call", ["i32", "i32"])],
    },
    {
        "id": "float",
        "src": "double fl_f(double a, float b) { float c = b * {F0}; return a / 3.0 + c - 0.5; }\n"
        "int fl_cmp(double a, double b) { return a < b ? (int)(a + b) : (a == b); }\n",
        "funcs": [("fl_f", ["f64", "f32"]), ("fl_cmp", ["f64", "f64"])],
    },
    {
        "id": "bigfloat",
        "src": "double bf_f(double a) { return a * 100000000000000000000.0 + 0.0000001; }\n",
        "funcs": [("bf_f", ["f64"])],
    },
    {
        "id": "globals",
        "src": "int gl_counter = {K0};\nstatic short gl_tab[4] = { 1, -2, {K1}, 4 };\nint *gl_ptr = &gl_counter;\nchar gl_zero[5];\n"
        "int gl_bump(int d) { gl_counter += d; gl_tab[d & 3] += 1; return *gl_ptr + gl_tab[1] + gl_zero[2]; }\n",
        "funcs": [("gl_bump", ["i32"])],
    },
    {
        "id": "string",
        "src": 'const char *sg_msg = "hi {K0}";\nint sg_len(void) { int n = 0; const char *p = sg_msg; while (*p) { p++; n++; } return n; }\n',
        "funcs": [("sg_len", [])],
    },
    {
        "id": "volatile",
        "src": "volatile int vo_reg;\nint vo_f(int a) { vo_reg = a; vo_reg = a + {K0}; return vo_reg + vo_reg; }\n",
        "funcs": [("vo_f", ["i32"])],
    },
    {
        "id": "static",
        "src": "int sl_next(void) { static int calls = {K0}; calls++; return calls; }\n"
        "int sl_two(void) { return sl_next() + sl_next(); }\n",
        "funcs": [("sl_two", [])],
    },
    {
        "id": "underscore",
        "src": "static int _us_hidden(int _x) { return _x + {K0}; }\nint us_f(int a) { return _us_hidden(a); }\n",
        "funcs": [("us_f", ["i32"])],
    },
    {
        "id": "casts",
        "src": "unsigned char cs_f(int a, unsigned short b) { long w = a; signed char c = (signed char)b; "
        "unsigned long u = (unsigned long)w + c; return (unsigned char)(u >> 4) + (short)b; }\n",
        "funcs": [("cs_f", ["i32", "u16"])],
    },
    {
        "id": "array",
        "src": "int ay_f(int i) { int a[4] = { 1, {K0}, 3, {K1} }; int j; int s = 0; a[i & 3] = 9; "
        "for (j = 0; j < 4; j++) s = s * 3 + a[j]; return s; }\n",
        "funcs": [("ay_f", ["i32"])],
    },
    {
        "id": "extern",
        "src": "int ex_ext(int);\nvoid ex_note(int);\nint ex_f(int a) { ex_note(a); return ex_ext(a + {K0}) + 1; }\n",
        "funcs": [("ex_f", ["i32"])],
    },
    {
        "id": "union",
        "src": "union un_U { int i; unsigned char b[4]; };\nint un_f(int a) { union un_U u; u.i = a; u.b[1] = {K0} & 255; return u.i; }\n",
        "funcs": [("un_f", ["i32"])],
    },
    {
        "id": "goto",
        "src": "int gt_f(int n) { int s = 0; n &= 7; again: if (n <= 0) goto out; s += n; n--; goto again; out: return s + {K0}; }\n",
        "funcs": [("gt_f", ["i32"])],
    },
    {
        "id": "bitfield",
        "src": "struct bt_S { int a : 3; unsigned b : 5; int c; };\nstruct bt_S bt_g;\n"
        "int bt_f(int v) { bt_g.b = v; bt_g.a = {K1}; bt_g.c = {K0}; return bt_g.b + bt_g.a; }\n",
        "funcs": [("bt_f", ["i32"])],
    },
    {
        "id": "maybe_uninit",
        "src": "int mu_f(int a) { int x; int y = {K0}; if (a > 3) { x = a * 2; } else { y = 1; } if (a > 3) y += x; return y; }\n",
        "funcs": [("mu_f", ["i32"])],
    },
    {
        "id": "structparam",
        "src": "struct sp_S { int a; char b; };\nint sp_use(struct sp_S s) { return s.a + s.b; }\n"
        "int sp_run(int a) { struct sp_S t; t.a = a; t.b = {K1}; return sp_use(t) + {K0}; }\n",
        "funcs": [("sp_run", ["i32"])],
    },
    {
        "id": "staticproc",
        "src": "static int sv_acc;\nstatic void sv_note(int a) { sv_acc += a; }\nstatic int sv_get(void) { return sv_acc; }\n"
        "int sv_run(int a) { sv_note(a); sv_note({K0}); return sv_get(); }\n",
        "funcs": [("sv_run", ["i32"])],
    },
    {
        "id": "shadow_var",
        "src": "int sh_x;\nint sh_g(int a) { return a + sh_x; }\n"
        "int sh_f(int sh_x) { sh_x += {K1}; return sh_g(sh_x) + 1; }\nint sh_set(int v) { sh_x = v; return sh_f(v); }\n",
        "funcs": [("sh_f", ["i32"]), ("sh_set", ["i32"])],
    },
    {
        "id": "shadow_fn",
        "src": "int sf_g(int a) { return a * 3; }\nint sf_h(int sf_g) { int sf_k = sf_g * 2; return sf_k + {K0}; }\n"
        "int sf_k(int a, int sf_h) { return a - sf_h + sf_g(a); }\nint sf_ext(int);\nint sf_e(int sf_ext) { return sf_ext + 1; }\n"
        "int sf_call(int a) { return sf_ext(a) + sf_e(a); }\n",
        "funcs": [("sf_h", ["i32"]), ("sf_k", ["i32", "i32"]), ("sf_e", ["i32"]), ("sf_call", ["i32"])],
    },
    {
        "id": "tempname",
        "src": "int tmp;\nint num = {K0};\nint result;\nint tn2_f(int a) { tmp = a + 1; result = tmp * 2; return tmp + num + result; }\n",
        "funcs": [("tn2_f", ["i32"])],
    },
    {
        "id": "asm",
        "src": "int as_f(int a) { asm(\"nop\"); return a + {K0}; }\n",
        "funcs": [("as_f", ["i32"])],
    },
]

C_ARCH = "x86_64"
_frag_features = {}


def render_fragment(frag, k0, k1, f0):
    return frag["src"].replace("{K0}", str(k0)).replace("{K1}", str(k1)).replace("{F0}", f0)


def compile_c(src, opt):
    """c_to_ir (+ optimize).  Raises Discard if the front end / optimiser refuses (other properties' domain)."""
    import ppci.api

    try:
        m = ppci.api.c_to_ir(io.StringIO(src), C_ARCH)
        if opt != "0":
            ppci.api.optimize(m, level=opt)
    except Exception as e:
        raise Discard("front end raised %s" % type(e).__name__)
    return m


def fragment_features(frag):
    """Features a fragment's module shows at opt level 0 and 2 (measured once, with neutral constants)."""
    key = frag["id"]
    if key not in _frag_features:
        res = {}
        for opt in ("0", "2"):
            try:
                m = compile_c(render_fragment(frag, 3, 5, "1.5"), opt)
                res[opt] = module_features(m)
            except Discard:
                res[opt] = None
        _frag_features[key] = res
    return _frag_features[key]


def warm_fragments():
    """Measure every fragment's features once (call in the parent before forking workers)."""
    for frag in C_FRAGMENTS:
        fragment_features(frag)


# ---------------------------------------------------------------------------
# cases


# positions of value names per instruction kind: (definition index | None, operand indices, index of an operand list | None)
_NAME_SLOTS = {
    "const": (1, (), None),
    "binop": (1, (3, 5), None),
    "unop": (1, (4,), None),
    "cast": (1, (3,), None),
    "alloc": (1, (), None),
    "addr": (1, (2,), None),
    "literal": (1, (), None),
    "load": (1, (3,), None),
    "store": (None, (1, 2), None),
    "copy": (None, (1, 2), None),
    "call": (1, (3,), 4),
    "undef": (1, (), None),
    "phi": (1, (), None),
    "cjmp": (None, (1, 3), None),
    "ret": (None, (1,), None),
    "jmp": (None, (), None),
    "exit": (None, (), None),
}


def function_names(fd):
    """(names defined inside the function: parameters and values, names used as operands)"""
    defined = [p[0] for p in fd["params"]]
    used = set()
    for b in fd["blocks"]:
        for ins in b["ins"]:
            d, ops, lst = _NAME_SLOTS[ins[0]]
            if d is not None and ins[d] is not None:
                defined.append(ins[d])
            for i in ops:
                used.add(ins[i])
            if lst is not None:
                used.update(ins[lst])
            if ins[0] == "phi":
                used.update(ins[3].values())
    return defined, used


def rename_in_function(fd, old, new):
    """Rename the function-local value `old` (parameter or instruction result) to `new` everywhere in fd."""
    for p in fd["params"]:
        if p[0] == old:
            p[0] = new
    if old in fd.get("bufs", {}):
        fd["bufs"][new] = fd["bufs"].pop(old)
    for b in fd["blocks"]:
        for ins in b["ins"]:
            d, ops, lst = _NAME_SLOTS[ins[0]]
            for i in ((d,) if d is not None else ()) + tuple(ops):
                if ins[i] == old:
                    ins[i] = new
            if lst is not None:
                ins[lst] = [new if a == old else a for a in ins[lst]]
            if ins[0] == "phi":
                for k in ins[3]:
                    if ins[3][k] == old:
                        ins[3][k] = new


def desc_used_before_definition(fd, name):
    """Is the local value `name` used (phis included) before its definition in emission order?  Parameters: never."""
    pos = _layout_pos(fd)
    dpos = None
    uses = []
    for bi, b in enumerate(fd["blocks"]):
        for ii, ins in enumerate(b["ins"]):
            d, ops, lst = _NAME_SLOTS[ins[0]]
            here = (pos[bi], ii)
            if d is not None and ins[d] == name:
                dpos = here
            ns = [ins[i] for i in ops] + (list(ins[lst]) if lst is not None else []) + (list(ins[3].values()) if ins[0] == "phi" else [])
            if name in ns:
                uses.append(here)
    return dpos is not None and any(u < dpos for u in uses)


def shadow_rename(desc, draw, avoid_ambiguous=False, on_avoid=None):
    """With some probability give parameters / local values the name of a module-level value (global variable,
    function, external) that the function itself does not refer to -- the shape C produces for `int x; int f(int x)`.
    Names stay unique inside each function, and no name in a function denotes two different objects.
    Returns the number of renamings."""
    module_names = [g["name"] for g in desc["globals"]] + [e["name"] for e in desc["externals"]] + [f["name"] for f in desc["functions"]]
    n = 0
    for fd in desc["functions"]:
        if draw(st.integers(0, 99)) >= 40:
            continue
        defined, used = function_names(fd)
        local = set(defined)
        free = [m for m in module_names if m not in used and m not in local]
        # parameters first: they are what front ends shadow most, and they live in the function scope before any block
        cands = [p[0] for p in fd["params"]] + [d for d in defined if d not in {p[0] for p in fd["params"]}]
        for _ in range(draw(st.integers(1, 3))):
            if not free or not cands:
                break
            tgt = free.pop(draw(st.integers(0, len(free) - 1)))
            k = draw(st.integers(0, min(len(cands), 6) - 1)) if draw(st.integers(0, 99)) < 60 else draw(st.integers(0, len(cands) - 1))
            src = cands.pop(k)
            if avoid_ambiguous and desc_used_before_definition(fd, src):
                # a reader resolving names in reading order would take the module-level value (open finding)
                if on_avoid is not None:
                    on_avoid()
                continue
            rename_in_function(fd, src, tgt)
            n += 1
    return n


def desc_has_shadowing(desc):
    module_names = {g["name"] for g in desc["globals"]} | {e["name"] for e in desc["externals"]} | {f["name"] for f in desc["functions"]}
    return any(module_names & set(function_names(fd)[0]) for fd in desc["functions"])


def gen_case_strategy(exclude, excluded_counter=None, profile=PROFILE):
    @st.composite
    def _case(draw):
        desc = draw(genir.modules(profile))
        for feat in FEATURES:
            if feat in exclude and strip(desc, feat):
                if excluded_counter is not None:
                    excluded_counter[exclude[feat]] += 1

        def avoided():
            if excluded_counter is not None:
                excluded_counter[exclude["nameclash"]] += 1

        # after the strips: they may change the emission order
        shadow_rename(desc, draw, "nameclash" in exclude, avoided)
        calls = []
        for f in desc["functions"]:
            for _ in range(draw(st.integers(1, 2))):
                calls.append([f["name"], draw(genir.arg_strategy(f, profile))])
        return {"kind": "gen", "module": desc, "calls": calls}

    return _case()


def c_case_strategy(exclude, excluded_counter=None, profile=PROFILE):
    """exclude: {feature: finding id}."""

    @st.composite
    def _case(draw):
        opt = draw(st.sampled_from(["0", "0", "2"]))
        usable = []
        for frag in C_FRAGMENTS:
            fs = fragment_features(frag)[opt]
            if fs is None:
                continue
            hit = [f for f in FEATURES if f in fs and f in exclude]
            if hit:
                if excluded_counter is not None:
                    excluded_counter[exclude[hit[0]]] += 1
                continue
            usable.append(frag)
        if not usable:
            return draw(gen_case_strategy(exclude, excluded_counter, profile))
        idx = draw(st.lists(st.integers(0, len(usable) - 1), min_size=1, max_size=4, unique=True))
        frags = [usable[i] for i in sorted(idx)]
        parts = []
        calls = []
        for frag in frags:
            k0 = draw(st.sampled_from([0, 1, 2, 7, 100, 255, 4096, 65535, 2147483647]))
            k1 = draw(st.integers(0, 127))
            f0 = draw(st.sampled_from(["1.5", "0.1", "2.0", "1000000.0", "0.015625", "3.14159"]))
            parts.append(render_fragment(frag, k0, k1, f0))
            for fname, tys in frag["funcs"]:
                args = []
                for ty in tys:
                    if genir.is_float(ty):
                        args.append(draw(genir.float_consts(ty, False).map(genir.fhex)))
                    else:
                        args.append(draw(genir.int_consts(ty)))
                calls.append([fname, args])
        return {"kind": "c", "src": "".join(parts), "opt": opt, "calls": calls}

    return _case()


def case_strategy(exclude, excluded_counter=None, c_weight=1, gen_weight=5, big=False):
    profile = PROFILE_BIG if big else PROFILE
    gen = gen_case_strategy(exclude, excluded_counter, profile)
    c = c_case_strategy(exclude, excluded_counter, profile)
    return st.integers(0, c_weight + gen_weight - 1).flatmap(lambda k: c if k < c_weight else gen)


def build_case(case):
    """-> (module, ptr_bits, [(fname, args, buffers)])"""
    if case is None:
        raise Discard("no usable C fragment")
    kind = case["kind"]
    if kind == "gen":
        desc = case["module"]
        try:
            m = genir.build(desc)
        except Exception:
            raise HarnessError("generator produced an unbuildable module:\n" + traceback.format_exc())
        byname = {f["name"]: f for f in desc["functions"]}
        calls = []
        for fname, args in case["calls"]:
            bufs = [bytes(range(16, 32))] * genir.nbufs(byname[fname])
            calls.append((fname, genir.decode_args(args), bufs))
        return m, desc["ptr_bits"], calls
    if kind == "c":
        m = compile_c(case["src"], case.get("opt", "0"))
        have = {f.name for f in m.functions}
        calls = [(fname, genir.decode_args(args), []) for fname, args in case["calls"] if fname in have]
        return m, 64, calls
    raise HarnessError("unknown case kind %r" % (kind,))


def case_key(case):
    if case["kind"] == "gen":
        return ("gen", str(case["module"])[:4000])
    return ("c", case["opt"], case["src"])


# ---------------------------------------------------------------------------
# structural comparison


def _tyname(ty):
    return str(ty)


def _constval(v):
    if isinstance(v, bool):
        return ["bool", v]
    if isinstance(v, float):
        return ["float", struct.pack(">d", v).hex()]
    if isinstance(v, int):
        return ["int", str(v)]
    return ["other", repr(v)]


def dump_module(m):
    """Canonical JSON-able structure of an ir.Module (names, kinds, types, operands by name and origin)."""
    from ppci import ir

    module_level = {}
    for x in list(m.externals) + list(m.variables) + list(m.functions):
        module_level[id(x)] = x

    out = {"name": m.name, "externals": [], "variables": [], "functions": []}
    for e in m.externals:
        d = {"kind": type(e).__name__, "name": e.name, "ty": _tyname(e.ty)}
        if isinstance(e, ir.ExternalSubRoutine):
            d["args"] = [_tyname(t) for t in e.argument_types]
        if isinstance(e, ir.ExternalFunction):
            d["ret"] = _tyname(e.return_ty)
        out["externals"].append(d)
    for v in m.variables:
        val = None
        if v.value is not None:
            val = []
            for part in v.value:
                if isinstance(part, (bytes, bytearray)):
                    val.append(bytes(part).hex())
                elif isinstance(part, tuple) and len(part) == 2:
                    val.append(["ref", _tyname(part[0]), part[1]])
                else:
                    val.append(["other", repr(part)])
        out["variables"].append(
            {"kind": type(v).__name__, "name": v.name, "binding": str(v.binding), "amount": v.amount, "alignment": v.alignment, "value": val}
        )
    for f in m.functions:
        local = {}
        for p in f.arguments:
            local[id(p)] = p
        for b in f.blocks:
            for ins in b:
                local[id(ins)] = ins
        blocks_of_f = {id(b) for b in f.blocks}

        def ref(v):
            if id(v) in local:
                where = "local"
            elif id(v) in module_level:
                where = "module"
            else:
                where = "dangling " + type(v).__name__
            # the referent: name, owner (this function / the module / neither), kind of object, type
            return [v.name, where, type(v).__name__, _tyname(v.ty)]

        def bref(b):
            return [b.name, "ok" if id(b) in blocks_of_f else "dangling"]

        fd = {
            "kind": type(f).__name__,
            "name": f.name,
            "binding": str(f.binding),
            "ret": _tyname(f.return_ty) if isinstance(f, ir.Function) else None,
            "params": [[p.name, _tyname(p.ty)] for p in f.arguments],
            "entry": f.entry.name if f.entry is not None else None,
            "blocks": [],
        }
        for b in f.blocks:
            bd = {"name": b.name, "ins": []}
            for ins in b:
                d = {"kind": type(ins).__name__}
                if isinstance(ins, ir.Value):
                    d["name"] = ins.name
                    d["ty"] = _tyname(ins.ty)
                if isinstance(ins, ir.Const):
                    d["value"] = _constval(ins.value)
                elif isinstance(ins, ir.Binop):
                    d.update(a=ref(ins.a), operation=ins.operation, b=ref(ins.b))
                elif isinstance(ins, ir.Unop):
                    d.update(operation=ins.operation, a=ref(ins.a))
                elif isinstance(ins, ir.Cast):
                    d.update(src=ref(ins.src))
                elif isinstance(ins, ir.Load):
                    d.update(address=ref(ins.address), volatile=bool(ins.volatile))
                elif isinstance(ins, ir.Store):
                    d.update(value=ref(ins.value), address=ref(ins.address), volatile=bool(ins.volatile))
                elif isinstance(ins, ir.Alloc):
                    d.update(amount=ins.amount, alignment=ins.alignment)
                elif isinstance(ins, ir.AddressOf):
                    d.update(src=ref(ins.src))
                elif isinstance(ins, ir.LiteralData):
                    d.update(data=bytes(ins.data).hex())
                elif isinstance(ins, (ir.FunctionCall, ir.ProcedureCall)):
                    d.update(callee=ref(ins.callee), arguments=[ref(a) for a in ins.arguments])
                elif isinstance(ins, ir.Phi):
                    d.update(inputs=sorted([bref(pb), ref(pv)] for pb, pv in ins.inputs.items()))
                elif isinstance(ins, ir.CopyBlob):
                    d.update(dst=ref(ins.dst), src=ref(ins.src), amount=ins.amount)
                elif isinstance(ins, ir.InlineAsm):
                    d.update(
                        template=ins.template,
                        clobbers=repr(ins.clobbers),
                        inputs=[ref(v) for v in ins.input_values],
                        outputs=[ref(v) for v in ins.output_values],
                    )
                elif isinstance(ins, ir.Return):
                    d.update(result=ref(ins.result))
                elif isinstance(ins, ir.CJump):
                    d.update(a=ref(ins.a), cond=ins.cond, b=ref(ins.b), yes=bref(ins.lab_yes), no=bref(ins.lab_no))
                elif isinstance(ins, ir.Jump):
                    d.update(target=bref(ins.target))
                elif isinstance(ins, (ir.Exit, ir.Undefined)):
                    pass
                else:
                    d["unmodelled"] = str(ins)
                bd["ins"].append(d)
            fd["blocks"].append(bd)
        out["functions"].append(fd)
    return out


def first_diff(a, b, path=""):
    """None if equal, else (path, a-part, b-part) of the first difference (dicts by sorted key, lists by index)."""
    if type(a) is not type(b):
        return (path, a, b)
    if isinstance(a, dict):
        for k in sorted(set(a) | set(b)):
            if k not in a or k not in b:
                return ("%s.%s" % (path, k), a.get(k, "<absent>"), b.get(k, "<absent>"))
            d = first_diff(a[k], b[k], "%s.%s" % (path, k))
            if d:
                return d
        return None
    if isinstance(a, list):
        for i, (x, y) in enumerate(zip(a, b)):
            d = first_diff(x, y, "%s[%d]" % (path, i))
            if d:
                return d
        if len(a) != len(b):
            return ("%s.length" % path, len(a), len(b))
        return None
    if a != b:
        return (path, a, b)
    return None


# ---------------------------------------------------------------------------
# misc


class ShrinkCap:
    """Bounds the work Hypothesis spends on shrinking: after the first unattributed failure of a worker only
    `limit` further cases are evaluated; later candidates are reported as passing, which ends the shrink passes.
    (Count based, hence deterministic; the runner re-confirms whatever case is reported.)"""

    def __init__(self, limit):
        self.limit = limit
        self.left = None

    def exhausted(self):
        if self.left is None:
            return False
        self.left -= 1
        return self.left < 0

    def failure_seen(self):
        if self.left is None:
            self.left = self.limit


def describe_exception(e):
    """'<Type>(<text>) in <innermost ppci file>:<function>'"""
    tb = traceback.extract_tb(e.__traceback__)
    where = "?"
    for fr in tb:
        fn = fr.filename.replace("\\", "/")
        if "/ppci/" in fn:
            where = "%s:%s" % (fn.split("/ppci/")[-1], fr.name)
    return "%s(%s) in %s" % (type(e).__name__, str(e)[:200], where)


def instruction_classes(m):
    """Counter-like dict: instruction class name / operator -> count (for the class histogram)."""
    from ppci import ir

    res = {}
    for f in m.functions:
        for b in f.blocks:
            for ins in b:
                k = type(ins).__name__
                if isinstance(ins, (ir.Binop, ir.Unop)):
                    k += ":" + ins.operation
                elif isinstance(ins, ir.Const):
                    k += ":" + ins.ty.name
                res[k] = res.get(k, 0) + 1
    return res
