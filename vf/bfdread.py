"""GNU BFD as an independent reader of Intel HEX and S-record files.

`read_files(paths, fmt)` runs one `objdump -s -f -b <fmt>` over many files and
returns, per file, what BFD decoded: the bytes at their addresses (merged into
maximal contiguous regions) and the start address.
"""

import re
import subprocess

_FILE_RE = re.compile(r"^(.*):\s+file format (\S+)\s*$")
_START_RE = re.compile(r"^start address 0x([0-9a-fA-F]+)\s*$")
_DATA_RE = re.compile(r"^ ([0-9a-fA-F]+) (.{35})")


class BfdUnavailable(Exception):
    pass


def merge_regions(pieces):
    """[(address, bytes)] -> sorted maximal regions [(address, bytes)]; overlaps are kept apart
    (reported as separate regions, so a comparison with non-overlapping expectations fails)."""
    out = []
    for addr, data in sorted((a, bytes(d)) for a, d in pieces if len(d)):
        if out and out[-1][0] + len(out[-1][1]) == addr:
            out[-1] = (out[-1][0], out[-1][1] + data)
        else:
            out.append((addr, data))
    return out


def read_files(paths, fmt, mask=None):
    """Returns {path: {"regions": [(addr, bytes)], "sections": n, "start": int|None, "error": str|None}}.

    mask: AND-mask applied to addresses (objdump sign-extends 32-bit ihex addresses on some builds).
    """
    paths = list(paths)
    res = {p: {"regions": [], "pieces": [], "sections": 0, "start": None, "error": None} for p in paths}
    if not paths:
        return res
    try:
        pr = subprocess.run(
            ["objdump", "-s", "-f", "-b", fmt] + paths,
            capture_output=True,
            timeout=600,
        )
    except (OSError, subprocess.TimeoutExpired) as e:
        raise BfdUnavailable(str(e))
    out = pr.stdout.decode("latin-1")
    err = pr.stderr.decode("latin-1")
    cur = None
    for line in out.split("\n"):
        m = _DATA_RE.match(line)
        if m and cur is not None:
            addr = int(m.group(1), 16)
            if mask is not None:
                addr &= mask
            cur["pieces"].append((addr, bytes.fromhex(m.group(2).replace(" ", ""))))
            continue
        m = _FILE_RE.match(line)
        if m and m.group(1) in res:
            cur = res[m.group(1)]
            cur["seen"] = True
            continue
        m = _START_RE.match(line)
        if m and cur is not None:
            cur["start"] = int(m.group(1), 16)
            continue
        if line.startswith("Contents of section") and cur is not None:
            cur["sections"] += 1
    for line in err.split("\n"):
        line = line.strip()
        if not line:
            continue
        hit = False
        for p in paths:
            if p in line:
                res[p]["error"] = (res[p]["error"] or "") + line + "\n"
                hit = True
        if not hit and "objdump" in line and not any(r.get("seen") for r in res.values()):
            raise BfdUnavailable(line)
    for p in paths:
        r = res[p]
        if not r.get("seen") and r["error"] is None:
            r["error"] = "objdump printed nothing for this file"
        r["raw_pieces"] = r.pop("pieces")
        r["regions"] = merge_regions(r["raw_pieces"])
    return res
