"""RISC-V (RV32IM + C) single-instruction stepping for C07 on top of the emulator vf/rv32.py.

Same shape as vf/x86step.py: `run_batch([(code bytes, state, arena_seed)])` -> [Result] with
`status` (0 = executed, else the name of the emulator exception: untestable), `changed` (bit i:
x<i> differs from the input), `reg("g", i)`, `arena_hash`, `first`/`last` (changed arena bytes).
A state is {"g": [32 ints]}; x0 is forced to 0.  The instruction is placed at CODE_BASE and executed
with `Machine.run(pc, until=pc + length, step_limit=length / 2)` (one instruction, or the short
straight-line sequence a pseudo-instruction renders to): code that leaves the straight line (taken
branch, jump) is reported as status "control transfer".

The emulator is validated independently of ppci by rv32.selfcheck() (decode against llvm-mc,
semantics against clang-compiled code whose results are known from native execution); the check
that uses this module refuses to run the RISC-V part when that self-check does not pass.
"""

import hashlib

try:  # the emulator is another builder's module: this one must import even when that one does not
    from . import rv32

    _IMPORT_ERROR = None
except Exception as _e:  # pragma: no cover
    rv32 = None
    _IMPORT_ERROR = "%s: %s" % (type(_e).__name__, str(_e)[:200])

ARENA_BASE = 0x20000000
ARENA_SIZE = 4096
CODE_BASE = 0x30000000
M32 = 0xFFFFFFFF

GPR = tuple("x%d" % i for i in range(32))

# operations (rv32.decode()[0]) that access memory at rs1 + imm, and those that transfer control
MEM_OPS = frozenset(["lb", "lh", "lw", "lbu", "lhu", "sb", "sh", "sw"])
CONTROL_OPS = frozenset(["jal", "jalr", "beq", "bne", "blt", "bge", "bltu", "bgeu", "ecall", "ebreak"])


def locate(reg):
    """(file, index, offset, width) of a ppci RISC-V integer register object, else None."""
    if type(reg).__name__ != "RiscvRegister":
        return None
    n = reg.name
    if n.startswith("x") and n[1:].isdigit() and 0 <= int(n[1:]) < 32:
        return ("g", int(n[1:]), 0, 32)
    return None


def decode_code(code):
    """rv32.decode of the first instruction of `code` -> (op, rd, rs1, rs2, imm, length) or None."""
    if len(code) < 2:
        return None
    enc = int.from_bytes(code[:2], "little")
    if enc & 3 == 3:
        if len(code) < 4:
            return None
        enc = int.from_bytes(code[:4], "little")
    try:
        d = rv32.decode(enc)
    except Exception:
        return None
    if d is None:
        return None
    return d[:6]


class Result:
    __slots__ = ("status", "changed", "arena_hash", "nchanged", "first", "last", "regs")

    def __init__(self, status, changed, arena_hash, nchanged, first, last, regs):
        self.status = status
        self.changed = changed
        self.arena_hash = arena_hash
        self.nchanged = nchanged
        self.first = first
        self.last = last
        self.regs = regs

    def reg(self, f, i):
        return self.regs[i]


_M = []


def _machine():
    if not _M:
        m = rv32.Machine(rvc=True, step_limit=4)
        code = m.map(CODE_BASE, 64, name="code")
        arena = m.map(ARENA_BASE, ARENA_SIZE, name="arena")
        _M.append((m, code[2], arena[2]))
    return _M[0]


def arena_fill(seed):
    return hashlib.shake_128(b"C07-arena-%d" % (seed & 0xFFFFFFFFFFFFFFFF)).digest(ARENA_SIZE)


def run_batch(items):
    m, codebuf, arena = _machine()
    out = []
    for code, st, seed in items:
        n = len(code)
        codebuf[:] = bytes(64)
        codebuf[:n] = code
        fill = arena_fill(seed)
        arena[:] = fill
        regs = [v & M32 for v in st["g"]]
        regs[0] = 0
        m.regs[:] = regs
        status = 0
        try:
            # straight line: every instruction of the (short) sequence once, ends exactly behind it
            m.run(CODE_BASE, until=(CODE_BASE + n) & M32, step_limit=max(1, n // 2))
        except rv32.StepLimit:
            status = "control transfer"
        except rv32.EmuError as e:
            status = type(e).__name__
        except rv32.Unsupported:
            status = "Unsupported"
        after = bytes(arena)
        first = last = nch = 0
        if after != fill:
            diffs = [i for i in range(ARENA_SIZE) if after[i] != fill[i]]
            first, last, nch = diffs[0], diffs[-1], len(diffs)
        ah = int.from_bytes(hashlib.blake2b(after, digest_size=8).digest(), "little")
        outregs = list(m.regs)
        ch = 0
        for i in range(32):
            if outregs[i] != regs[i]:
                ch |= 1 << i
        out.append(Result(status, ch, ah, nch, first, last, outregs))
    return out


_SELF = []


def validated():
    """(ok, note): the emulator's own self-check (cached by rv32 in /verif/.build)."""
    if not _SELF and rv32 is None:
        _SELF.append((False, "vf/rv32.py cannot be imported (%s)" % _IMPORT_ERROR))
    if not _SELF:
        try:
            r = rv32.selfcheck("quick")
            ok = bool(r.get("ok"))
            note = "rv32.selfcheck(quick): ok=%s, %s semantic calls, %s encodings compared with llvm-mc%s" % (
                r.get("ok"),
                r.get("semantic_calls"),
                r.get("decode_compared"),
                "" if ok else ", problems: %s" % (r.get("problems") or [])[:3],
            )
        except Exception as e:  # the emulator is another builder's module: never fail because of it
            ok, note = False, "rv32.selfcheck raised %s: %s" % (type(e).__name__, str(e)[:200])
        _SELF.append((ok, note))
    return _SELF[0]
