"""Child process of vf/fuzz.py: one libFuzzer run (atheris) over one fuzz target.

    python -m vf.fuzz_child TARGET STATS.json ARTDIR WARMDIR CORPUSDIR -runs=N -seed=S ... (libFuzzer options)

atheris.Fuzz() never returns and atexit handlers do not run, so the statistics file is rewritten every 256
executions and whenever a failure is recorded.  A `fuzz.Failure` raised by the target does not stop libFuzzer:
the input is stored as ARTDIR/fail-<sha1> (+ .json with bucket and message), the smallest input per bucket is kept.
Any other exception escaping the target is a harness defect: it is written to the statistics file
("harness_error") and re-raised, which ends the run with a libFuzzer crash artifact.
"""

import hashlib
import importlib
import json
import logging
import os
import sys
import traceback


def main(argv):
    target, stats_path, artdir, warmdir = argv[1:5]
    lf_args = argv[5:]
    logging.disable(logging.CRITICAL)
    from vf import core, fuzz

    if core.REPO != "/repo" and core.REPO not in sys.path:
        sys.path.insert(0, core.REPO)
    import atheris

    modname, attr = fuzz.TARGETS[target]
    state = {"n": 0, "hist": {}, "failures": {}, "harness_error": None, "warm": 0}

    def flush():
        tmp = stats_path + ".tmp"
        with open(tmp, "w") as f:
            json.dump(state, f)
        os.replace(tmp, stats_path)

    # every ppci module the target touches must be imported under instrumentation: import the property module
    # (it may import ppci at module level) and run the target once on the warm-up inputs inside the block
    with atheris.instrument_imports(include=["ppci"]):
        import ppci  # noqa: F401

        mod = importlib.import_module(modname)
        fn = getattr(mod, attr)
        for name in sorted(os.listdir(warmdir)):
            with open(os.path.join(warmdir, name), "rb") as f:
                data = f.read()
            try:
                fn(data)
            except fuzz.Failure:
                pass
            except Exception:
                state["harness_error"] = "target raised on a seed:\n" + traceback.format_exc()
                flush()
                raise
            state["warm"] += 1
        # an empty and a garbage input reach the rejection paths (lazy imports of diagnostics machinery)
        for data in (b"", b"\x00\xff{(;"):
            try:
                fn(data)
            except fuzz.Failure:
                pass

    # corpus distillation (rounds after the first, see vf/fuzz.py): keep the units the target wants to go on from
    keep = getattr(mod, attr + "_keep", None)
    corpus_dir = next((a for a in lf_args if not a.startswith("-")), None)
    if os.environ.get("VERIF_FUZZ_DISTILL") == "1" and keep is not None and corpus_dir:
        kept = dropped = 0
        for name in sorted(os.listdir(corpus_dir)):
            path = os.path.join(corpus_dir, name)
            try:
                with open(path, "rb") as f:
                    data = f.read()
                label = fn(data)
            except fuzz.Failure:
                label = "FAILURE"
            except Exception:
                label = None
            if label is not None and (label == "FAILURE" or keep(str(label))):
                kept += 1
            else:
                os.remove(path)
                dropped += 1
        state["distilled"] = {"kept": kept, "dropped": dropped}

    hist = state["hist"]
    failures = state["failures"]
    last = 1 << 62  # libFuzzer stops after -runs=N executions: write the statistics on each of the last few
    for a in lf_args:
        if a.startswith("-runs="):
            last = int(a[6:]) - 12

    def test_one(data):
        state["n"] += 1
        try:
            label = fn(data)
        except fuzz.Failure as f:
            label = "FAILURE:" + f.bucket
            old = failures.get(f.bucket)
            if old is None or len(data) < old["len"]:
                if old is None and len(failures) >= 40:
                    label = "FAILURE(not stored):" + f.bucket
                else:
                    h = hashlib.sha1(data).hexdigest()
                    path = os.path.join(artdir, "fail-" + h)
                    with open(path, "wb") as out:
                        out.write(data)
                    with open(path + ".json", "w") as out:
                        json.dump({"bucket": f.bucket, "message": f.message[:4000]}, out)
                    if old is not None:
                        for p in (old["path"], old["path"] + ".json"):
                            try:
                                os.remove(p)
                            except OSError:
                                pass
                    failures[f.bucket] = {"len": len(data), "path": path}
                    hist[label] = hist.get(label, 0) + 1
                    flush()
                    return
        except Exception:
            state["harness_error"] = "target raised:\n" + traceback.format_exc()
            flush()
            raise
        label = str(label)
        hist[label] = hist.get(label, 0) + 1
        if state["n"] % 256 == 0 or state["n"] >= last:
            flush()

    flush()
    # optional structure-aware mutator of the target: <function>_mutator(data, max_size, seed, byte_mutate) -> bytes
    # (byte_mutate = libFuzzer's own mutation; the mutator decides how often to fall back to it)
    mut = getattr(mod, attr + "_mutator", None)
    if mut is None:
        atheris.Setup([sys.argv[0]] + lf_args, test_one)
    else:
        atheris.Setup([sys.argv[0]] + lf_args, test_one, custom_mutator=lambda data, max_size, seed: mut(data, max_size, seed, atheris.Mutate))
    atheris.Fuzz()


if __name__ == "__main__":
    main(sys.argv)
