"""Abstract programs over what C3 and C share, with two renderers and a direct evaluator (DESIGN.md 3.3, C37).

A program is plain JSON:

program = {
  "alias":   {"i32": "int" | "int32_t", "u8": "byte" | "uint8_t"},     spelling of the two aliased C3 types
  "structs": [{"name": "S0", "fields": [[fname, scalar type], ...]}],
  "consts":  [{"name": "K0", "ty": "i32" | "u8", "val": int}],
  "globals": [{"name": "g0", "ty": TYPE, "init": None | int | [leaf ints in layout order]}],
  "funcs":   [{"name": "f0", "ret": scalar type | "void", "params": [[name, TYPE], ...], "pure": bool, "body": [STMT...]}],
}
TYPE  = "i8" "u8" "i16" "u16" "i32" "u32" "i64" "u64" "bool" | ["arr", TYPE, n] | ["struct", name] | ["ptr", TYPE]
LVAL  = ["var", T, name] | ["idx", T, LVAL(array), EXPR(i32)] | ["fld", T, LVAL(struct), fname] | ["deref", T, EXPR(ptr)]
EXPR  = LVAL (load) | ["lit", T, v] (|v| < 2^31: an `int` literal, cast to T) | ["blit", "bool", 0|1] | ["const", T, name]
      | ["un", T, "-"|"+", e] | ["bin", T, op, a, b] (a, b of type T) | ["cast", T, e, implicit] | ["addr", ["ptr", T], LVAL]
      | ["cmp", "bool", op, a, b] | ["and", "bool", a, b] | ["or", "bool", a, b] | ["not", "bool", a] | ["call", T, fname, [args]]
STMT  = ["decl", name, TYPE, init]      init: EXPR | [EXPR...] (array, in order) | [EXPR...] (struct, field order)
      | ["assign", LVAL, "=" | "+=" | "-=" | "*=" | "|=" | "&=", EXPR]
      | ["if", cond, [STMT...], [STMT...]] | ["while", cond, [STMT...]] | ["for", STMT(assign), cond, STMT(assign), [STMT...]]
      | ["switch", EXPR(i32), [[int | const name | None (default), [STMT...]], ...]]
      | ["ret", EXPR | None] | ["callstmt", fname, [args]]

Meaning (the property's "fixed-width integer arithmetic of the declared types"): every operation on type T yields
its mathematical result reduced to T, except that the executions the C standard leaves undefined raise `UB`
(overflow of `+ - *`, unary `-` on int/int64_t, division by zero, MIN / -1, shift count outside [0, bits), `<<` on a
signed type, index out of range).  Operations on int8_t/int16_t wrap: the C rendering computes them in `int` and casts
back, which is defined.  `bool` holds 0/1 and is stored like `int`; conditions short-circuit; `switch` does not fall
through; C3 locals live in one function scope, the generator uses them only inside their C block scope.
"""

from hypothesis import strategies as st

INT_TYPES = ["i8", "u8", "i16", "u16", "i32", "u32", "i64", "u64"]
SCALARS = INT_TYPES + ["bool"]
BITS = {"i8": 8, "u8": 8, "i16": 16, "u16": 16, "i32": 32, "u32": 32, "i64": 64, "u64": 64, "bool": 32}
C3NAME = {"i8": "int8_t", "u8": "byte", "i16": "int16_t", "u16": "uint16_t", "i32": "int", "u32": "uint32_t",
          "i64": "int64_t", "u64": "uint64_t", "bool": "bool"}
CNAME = {"i8": "int8_t", "u8": "uint8_t", "i16": "int16_t", "u16": "uint16_t", "i32": "int32_t", "u32": "uint32_t",
         "i64": "int64_t", "u64": "uint64_t", "bool": "int32_t"}
ARITH = ["+", "-", "*", "/", "%", "&", "|", "^", "<<", ">>"]
CMPS = ["==", "!=", "<", ">", "<=", ">="]
LITMAX = 2**31 - 1
MOD = "m"


def is_scalar(t):
    return isinstance(t, str)


def is_signed(t):
    return t[0] == "i" or t == "bool"


def trange(t):
    b = BITS[t]
    if t == "bool":
        return 0, 1
    return (-(1 << (b - 1)), (1 << (b - 1)) - 1) if is_signed(t) else (0, (1 << b) - 1)


def norm(t, v):
    b = BITS[t]
    v &= (1 << b) - 1
    if is_signed(t) and v >> (b - 1):
        v -= 1 << b
    return v


def kind(t):
    return "scalar" if isinstance(t, str) else t[0]


def struct_of(prog, name):
    for s in prog["structs"]:
        if s["name"] == name:
            return s
    raise KeyError(name)


def leaves(prog, t, path=""):
    """(path, scalar type) of every scalar inside an object of type t, in C3 layout order."""
    k = kind(t)
    if k == "scalar":
        return [(path, t)]
    if k == "arr":
        out = []
        for i in range(t[2]):
            out += leaves(prog, t[1], "%s[%d]" % (path, i))
        return out
    if k == "struct":
        out = []
        for fn, ft in struct_of(prog, t[1])["fields"]:
            out += leaves(prog, ft, "%s.%s" % (path, fn))
        return out
    raise ValueError("no leaves in %r" % (t,))


def size_of(prog, t):
    """C3 object size: scalars by width (bool like int), arrays and structs packed (typechecker.check_type)."""
    return sum(BITS[lt] // 8 for _, lt in leaves(prog, t))


# ---------------------------------------------------------------------------
# C3 renderer


class C3Renderer:
    def __init__(self, prog):
        self.p = prog
        self.alias = prog.get("alias") or {}

    def ty(self, t):
        k = kind(t)
        if k == "scalar":
            return self.alias.get(t, C3NAME[t])
        if k == "ptr":
            return self.ty(t[1]) + "*"
        if k == "arr":
            return "%s[%d]" % (self.ty(t[1]), t[2])
        return t[1]

    def expr(self, e):
        k = e[0]
        if k == "lit":
            v = e[2]
            s = str(v) if v >= 0 else "(-%d)" % -v
            return s if e[1] == "i32" else "cast<%s>(%s)" % (self.ty(e[1]), s)
        if k == "blit":
            return "true" if e[2] else "false"
        if k in ("const", "var"):
            return e[2]
        if k == "idx":
            return "%s[%s]" % (self.expr(e[2]), self.expr(e[3]))
        if k == "fld":
            if e[2][0] == "deref":
                return "%s->%s" % (self.expr(e[2][2]), e[3])
            return "%s.%s" % (self.expr(e[2]), e[3])
        if k == "deref":
            return "(*%s)" % self.expr(e[2])
        if k == "addr":
            return "(&%s)" % self.expr(e[2])
        if k == "un":
            return "(%s%s)" % (e[2], self.expr(e[3]))
        if k == "bin":
            return "(%s %s %s)" % (self.expr(e[3]), e[2], self.expr(e[4]))
        if k == "cast":
            if len(e) > 3 and e[3]:
                return self.expr(e[2])
            return "cast<%s>(%s)" % (self.ty(e[1]), self.expr(e[2]))
        if k == "cmp":
            return "(%s %s %s)" % (self.expr(e[3]), e[2], self.expr(e[4]))
        if k in ("and", "or"):
            return "(%s %s %s)" % (self.expr(e[2]), k, self.expr(e[3]))
        if k == "not":
            return "(not %s)" % self.expr(e[2])
        if k == "call":
            return "%s(%s)" % (e[2], ", ".join(self.expr(a) for a in e[3]))
        raise ValueError(e)

    def simple(self, s):
        """assignment without the trailing ';' (for-loop header)"""
        assert s[0] == "assign"
        return "%s %s %s" % (self.expr(s[1]), s[2], self.expr(s[3]))

    def stmts(self, body, ind, out):
        pad = "  " * ind
        for s in body:
            k = s[0]
            if k == "decl":
                t = s[2]
                if kind(t) == "arr":
                    init = "{%s}" % ", ".join(self.expr(x) for x in s[3])
                elif kind(t) == "struct":
                    fields = struct_of(self.p, t[1])["fields"]
                    init = "{%s}" % ", ".join(".%s = %s" % (f[0], self.expr(x)) for f, x in zip(fields, s[3]))
                else:
                    init = self.expr(s[3])
                out.append("%svar %s %s = %s;" % (pad, self.ty(t), s[1], init))
            elif k == "assign":
                out.append("%s%s;" % (pad, self.simple(s)))
            elif k == "if":
                out.append("%sif (%s) {" % (pad, self.expr(s[1])))
                self.stmts(s[2], ind + 1, out)
                if s[3]:
                    out.append("%s} else {" % pad)
                    self.stmts(s[3], ind + 1, out)
                out.append("%s}" % pad)
            elif k == "while":
                out.append("%swhile (%s) {" % (pad, self.expr(s[1])))
                self.stmts(s[2], ind + 1, out)
                out.append("%s}" % pad)
            elif k == "for":
                out.append("%sfor (%s; %s; %s) {" % (pad, self.simple(s[1]), self.expr(s[2]), self.simple(s[3])))
                self.stmts(s[4], ind + 1, out)
                out.append("%s}" % pad)
            elif k == "switch":
                out.append("%sswitch (%s) {" % (pad, self.expr(s[1])))
                for val, blk in s[2]:
                    out.append("%s  %s: {" % (pad, "default" if val is None else "case %s" % val))
                    self.stmts(blk, ind + 2, out)
                    out.append("%s  }" % pad)
                out.append("%s}" % pad)
            elif k == "ret":
                out.append("%sreturn%s;" % (pad, "" if s[1] is None else " " + self.expr(s[1])))
            elif k == "callstmt":
                out.append("%s%s(%s);" % (pad, s[1], ", ".join(self.expr(a) for a in s[2])))
            else:
                raise ValueError(s)

    def module(self):
        p = self.p
        out = ["module %s;" % MOD]
        for s in p["structs"]:
            out.append("type struct { %s } %s;" % (" ".join("%s %s;" % (self.ty(ft), fn) for fn, ft in s["fields"]), s["name"]))
        for c in p["consts"]:
            out.append("const %s %s = %d;" % (self.ty(c["ty"]), c["name"], c["val"]))
        for g in p["globals"]:
            init = ""
            if g.get("init") is not None:
                init = " = " + self.ginit(g["ty"], g["init"] if isinstance(g["init"], list) else [g["init"]], [0])
            out.append("var %s %s%s;" % (self.ty(g["ty"]), g["name"], init))
        for f in p["funcs"]:
            params = ", ".join("%s %s" % (self.ty(t), n) for n, t in f["params"])
            out.append("function %s %s(%s)" % ("void" if f["ret"] == "void" else self.ty(f["ret"]), f["name"], params))
            out.append("{")
            self.stmts(f["body"], 1, out)
            out.append("}")
        return "\n".join(out) + "\n"

    def ginit(self, t, vals, pos):
        k = kind(t)
        if k == "scalar":
            v = vals[pos[0]]
            pos[0] += 1
            return str(v)
        if k == "arr":
            return "{%s}" % ", ".join(self.ginit(t[1], vals, pos) for _ in range(t[2]))
        fields = struct_of(self.p, t[1])["fields"]
        return "{%s}" % ", ".join(".%s = %s" % (fn, self.ginit(ft, vals, pos)) for fn, ft in fields)


def render_c3(prog):
    return C3Renderer(prog).module()


# ---------------------------------------------------------------------------
# C renderer


def c_const(t, v):
    ct = CNAME[t]
    if BITS[t] == 64:
        if is_signed(t):
            if v == -(1 << 63):
                return "((%s)(-9223372036854775807LL - 1))" % ct
            return "((%s)(%dLL))" % (ct, v)
        return "((%s)(%dULL))" % (ct, v)
    if v == -(1 << 31):
        return "((%s)(-2147483647 - 1))" % ct
    if v > LITMAX:
        return "((%s)(%dU))" % (ct, v)
    return "((%s)(%d))" % (ct, v)


class CRenderer:
    def __init__(self, prog):
        self.p = prog

    def ty(self, t):
        k = kind(t)
        if k == "scalar":
            return CNAME[t]
        if k == "ptr":
            return self.ty(t[1]) + " *"
        if k == "struct":
            return t[1]
        raise ValueError(t)

    def declarator(self, t, name):
        if kind(t) == "arr":
            return "%s %s[%d]" % (self.ty(t[1]), name, t[2])
        return "%s %s" % (self.ty(t), name)

    def wide(self, t):
        """type in which C computes an operation on t without differing from fixed-width arithmetic"""
        if BITS[t] < 32:
            return "int32_t" if is_signed(t) else "uint32_t"
        return None

    def expr(self, e):
        k = e[0]
        if k == "lit":
            return c_const(e[1], norm(e[1], e[2]))
        if k == "blit":
            return "((int32_t)%d)" % e[2]
        if k in ("const", "var"):
            return e[2]
        if k == "idx":
            return "%s[%s]" % (self.expr(e[2]), self.expr(e[3]))
        if k == "fld":
            if e[2][0] == "deref":
                return "%s->%s" % (self.expr(e[2][2]), e[3])
            return "%s.%s" % (self.expr(e[2]), e[3])
        if k == "deref":
            return "(*%s)" % self.expr(e[2])
        if k == "addr":
            return "(&%s)" % self.expr(e[2])
        if k == "un":
            t = e[1]
            w = self.wide(t)
            a = self.expr(e[3])
            if w:
                return "((%s)(%s(%s)(%s)))" % (CNAME[t], e[2], w, a)
            return "((%s)(%s(%s)))" % (CNAME[t], e[2], a)
        if k == "bin":
            return self.binop(e[1], e[2], self.expr(e[3]), self.expr(e[4]))
        if k == "cast":
            return "((%s)(%s))" % (CNAME[e[1]], self.expr(e[2]))
        if k == "cmp":
            return "((int32_t)((%s) %s (%s)))" % (self.expr(e[3]), e[2], self.expr(e[4]))
        if k in ("and", "or"):
            return "((int32_t)((%s) %s (%s)))" % (self.expr(e[2]), "&&" if k == "and" else "||", self.expr(e[3]))
        if k == "not":
            return "((int32_t)(!(%s)))" % self.expr(e[2])
        if k == "call":
            return "%s(%s)" % (e[2], ", ".join(self.expr(a) for a in e[3]))
        raise ValueError(e)

    def binop(self, t, op, a, b):
        w = self.wide(t)
        if w:
            return "((%s)((%s)(%s) %s (%s)(%s)))" % (CNAME[t], w, a, op, w, b)
        return "((%s)((%s) %s (%s)))" % (CNAME[t], a, op, b)

    def simple(self, s):
        lv = self.expr(s[1])
        rv = self.expr(s[3])
        if s[2] == "=":
            return "%s = %s" % (lv, rv)
        return "%s = %s" % (lv, self.binop(s[1][1], s[2][:-1], lv, rv))

    def stmts(self, body, ind, out):
        pad = "  " * ind
        for s in body:
            k = s[0]
            if k == "decl":
                t = s[2]
                if kind(t) == "arr":
                    init = "{%s}" % ", ".join(self.expr(x) for x in s[3])
                elif kind(t) == "struct":
                    fields = struct_of(self.p, t[1])["fields"]
                    init = "{%s}" % ", ".join(".%s = %s" % (f[0], self.expr(x)) for f, x in zip(fields, s[3]))
                else:
                    init = self.expr(s[3])
                out.append("%s%s = %s;" % (pad, self.declarator(t, s[1]), init))
            elif k == "assign":
                out.append("%s%s;" % (pad, self.simple(s)))
            elif k == "if":
                out.append("%sif (%s) {" % (pad, self.expr(s[1])))
                self.stmts(s[2], ind + 1, out)
                if s[3]:
                    out.append("%s} else {" % pad)
                    self.stmts(s[3], ind + 1, out)
                out.append("%s}" % pad)
            elif k == "while":
                out.append("%swhile (%s) {" % (pad, self.expr(s[1])))
                self.stmts(s[2], ind + 1, out)
                out.append("%s}" % pad)
            elif k == "for":
                out.append("%sfor (%s; %s; %s) {" % (pad, self.simple(s[1]), self.expr(s[2]), self.simple(s[3])))
                self.stmts(s[4], ind + 1, out)
                out.append("%s}" % pad)
            elif k == "switch":
                out.append("%sswitch (%s) {" % (pad, self.expr(s[1])))
                for val, blk in s[2]:
                    out.append("%s  %s: {" % (pad, "default" if val is None else "case %s" % val))
                    self.stmts(blk, ind + 2, out)
                    out.append("%s  } break;" % pad)
                out.append("%s}" % pad)
            elif k == "ret":
                out.append("%sreturn%s;" % (pad, "" if s[1] is None else " " + self.expr(s[1])))
            elif k == "callstmt":
                out.append("%s%s(%s);" % (pad, s[1], ", ".join(self.expr(a) for a in s[2])))
            else:
                raise ValueError(s)

    def proto(self, f):
        params = ", ".join(self.declarator(t, n) for n, t in f["params"]) or "void"
        return "%s %s(%s)" % ("void" if f["ret"] == "void" else CNAME[f["ret"]], f["name"], params)

    def unit_body(self, calls, tag):
        """definitions of one program plus `static void run_<tag>(void)`, which performs the calls and prints
        `R <tag> <k> <return value>` and `G <tag> <k> <global leaf values>` per call (marker `@<tag> <k>` on stderr)"""
        p = self.p
        out = []
        renames = [s["name"] for s in p["structs"]] + [g["name"] for g in p["globals"]] + [f["name"] for f in p["funcs"]]
        for n in renames:
            out.append("#define %s P%s_%s" % (n, tag, n))
        for s in p["structs"]:
            out.append("typedef struct { %s } %s;" % (" ".join("%s %s;" % (CNAME[ft], fn) for fn, ft in s["fields"]), s["name"]))
        for c in p["consts"]:
            out.append("#define %s %s" % (c["name"], c_const(c["ty"], c["val"])))
        for g in p["globals"]:
            out.append("%s;" % self.declarator(g["ty"], g["name"]))
        for f in p["funcs"]:
            out.append(self.proto(f) + ";")
        for f in p["funcs"]:
            out.append(self.proto(f))
            out.append("{")
            self.stmts(f["body"], 1, out)
            out.append("}")
        out.append("static void reset_%s(void) {" % tag)
        for g in p["globals"]:
            lv = leaves(p, g["ty"], g["name"])
            init = g.get("init")
            if init is None:
                vals = [0] * len(lv)
            elif isinstance(init, list):
                vals = init
            else:
                vals = [init]
            for (path, lt), v in zip(lv, vals):
                out.append("  %s = %s;" % (path, c_const(lt, norm(lt, v))))
        out.append("}")
        out.append("static void dump_%s(int k) {" % tag)
        out.append('  printf("G %s %%d", k);' % tag)
        for g in p["globals"]:
            for path, lt in leaves(p, g["ty"], g["name"]):
                if lt == "u64":
                    out.append('  printf(" %%llu", (unsigned long long)%s);' % path)
                else:
                    out.append('  printf(" %%lld", (long long)%s);' % path)
        out.append('  printf("\\n");')
        out.append("}")
        out.append("static void run_%s(void) {" % tag)
        fn = {f["name"]: f for f in p["funcs"]}
        for k, (name, args) in enumerate(calls):
            f = fn[name]
            a = ", ".join(c_const(t, norm(t, v)) for (_, t), v in zip(f["params"], args))
            out.append('  reset_%s(); fflush(stdout); fprintf(stderr, "@%s %d\\n"); fflush(stderr);' % (tag, tag, k))
            if f["ret"] == "void":
                out.append('  %s(%s); printf("R %s %d void\\n");' % (name, a, tag, k))
            elif f["ret"] == "u64":
                out.append('  { unsigned long long r = (unsigned long long)%s(%s); printf("R %s %d %%llu\\n", r); }' % (name, a, tag, k))
            else:
                out.append('  { long long r = (long long)%s(%s); printf("R %s %d %%lld\\n", r); }' % (name, a, tag, k))
            out.append("  dump_%s(%d);" % (tag, k))
        out.append("}")
        for c in p["consts"]:
            out.append("#undef %s" % c["name"])
        for n in renames:
            out.append("#undef %s" % n)
        return out


def render_c(items):
    """One C translation unit for [(program, calls)]; program number i gets the tag str(i)."""
    out = ["#include <stdint.h>", "#include <stdio.h>"]
    for i, (prog, calls) in enumerate(items):
        out += CRenderer(prog).unit_body(calls, str(i))
    out.append("int main(void) {")
    for i in range(len(items)):
        out.append("  run_%d();" % i)
    out.append("  fflush(stdout);")
    out.append("  return 0;")
    out.append("}")
    return "\n".join(out) + "\n"


# ---------------------------------------------------------------------------
# direct evaluator


class UB(Exception):
    def __init__(self, reason):
        super().__init__(reason)
        self.reason = reason


class _Return(Exception):
    def __init__(self, v):
        self.v = v


class Cell:
    __slots__ = ("v",)

    def __init__(self, v=None):
        self.v = v


def arith(t, op, a, b):
    bits = BITS[t]
    signed = is_signed(t)
    lo, hi = trange(t)
    if op in ("+", "-", "*"):
        r = a + b if op == "+" else a - b if op == "-" else a * b
        if signed and bits >= 32 and not lo <= r <= hi:
            raise UB("signed overflow")
    elif op in ("/", "%"):
        if b == 0:
            raise UB("division by zero")
        if signed and a == lo and b == -1:
            raise UB("MIN / -1")
        q = abs(a) // abs(b)
        if (a < 0) != (b < 0):
            q = -q
        r = q if op == "/" else a - q * b
    elif op == "&":
        r = a & b
    elif op == "|":
        r = a | b
    elif op == "^":
        r = a ^ b
    elif op in ("<<", ">>"):
        if not 0 <= b < bits:
            raise UB("shift count")
        if op == "<<":
            if signed:
                raise UB("left shift of a signed type")
            r = a << b
        else:
            r = a >> b
    else:
        raise ValueError(op)
    return norm(t, r)


def compare(op, a, b):
    return int({"==": a == b, "!=": a != b, "<": a < b, ">": a > b, "<=": a <= b, ">=": a >= b}[op])


class Interp:
    def __init__(self, prog, fuel=40000, max_depth=30):
        self.p = prog
        self.funcs = {f["name"]: f for f in prog["funcs"]}
        self.consts = {c["name"]: norm(c["ty"], c["val"]) for c in prog["consts"]}
        self.fuel0 = fuel
        self.max_depth = max_depth
        self.reset()

    def make(self, t, vals=None, pos=None):
        k = kind(t)
        if k in ("scalar", "ptr"):
            if vals is None:
                return Cell(None)
            v = vals[pos[0]]
            pos[0] += 1
            return Cell(norm(t, v))
        if k == "arr":
            return [self.make(t[1], vals, pos) for _ in range(t[2])]
        return {fn: self.make(ft, vals, pos) for fn, ft in struct_of(self.p, t[1])["fields"]}

    def reset(self):
        self.globals = {}
        for g in self.p["globals"]:
            n = len(leaves(self.p, g["ty"]))
            init = g.get("init")
            vals = [0] * n if init is None else (init if isinstance(init, list) else [init])
            self.globals[g["name"]] = self.make(g["ty"], vals, [0])
        self.steps = 0
        self.depth = 0

    def snapshot(self):
        out = []
        for g in self.p["globals"]:
            self._flat(self.globals[g["name"]], out)
        return out

    def _flat(self, o, out):
        if isinstance(o, Cell):
            out.append(o.v)
        elif isinstance(o, list):
            for x in o:
                self._flat(x, out)
        else:
            for x in o.values():
                self._flat(x, out)

    def tick(self):
        self.steps += 1
        if self.steps > self.fuel0:
            raise UB("fuel")

    def call(self, name, args):
        f = self.funcs[name]
        return self._call(f, [norm(t, v) for (_, t), v in zip(f["params"], args)])

    def _call(self, f, args):
        self.depth += 1
        if self.depth > self.max_depth:
            raise UB("recursion depth")
        env = {}
        for (n, t), v in zip(f["params"], args):
            env[n] = Cell(v)
        try:
            self.block(f["body"], env)
        except _Return as r:
            return r.v
        finally:
            self.depth -= 1
        if f["ret"] != "void":
            raise UB("function falls off its end")
        return None

    def lval(self, e, env):
        k = e[0]
        if k == "var":
            o = env.get(e[2])
            if o is None:
                o = self.globals[e[2]]
            return o
        if k == "idx":
            base = self.lval(e[2], env)
            i = self.ev(e[3], env)
            if not 0 <= i < len(base):
                raise UB("index out of range")
            return base[i]
        if k == "fld":
            return self.lval(e[2], env)[e[3]]
        if k == "deref":
            return self.ev(e[2], env)
        raise ValueError(e)

    def ev(self, e, env):
        self.tick()
        k = e[0]
        if k in ("var", "idx", "fld", "deref"):
            o = self.lval(e, env)
            if not isinstance(o, Cell) or o.v is None:
                raise UB("read of an uninitialised or non-scalar object")
            return o.v
        if k == "lit":
            return norm(e[1], e[2])
        if k == "blit":
            return e[2]
        if k == "const":
            return self.consts[e[2]]
        if k == "addr":
            return self.lval(e[2], env)
        if k == "un":
            a = self.ev(e[3], env)
            if e[2] == "+":
                return a
            t = e[1]
            if is_signed(t) and BITS[t] >= 32 and a == trange(t)[0]:
                raise UB("signed overflow")
            return norm(t, -a)
        if k == "bin":
            a = self.ev(e[3], env)
            b = self.ev(e[4], env)
            return arith(e[1], e[2], a, b)
        if k == "cast":
            return norm(e[1], self.ev(e[2], env))
        if k == "cmp":
            a = self.ev(e[3], env)
            b = self.ev(e[4], env)
            return compare(e[2], a, b)
        if k == "and":
            return int(bool(self.ev(e[2], env)) and bool(self.ev(e[3], env)))
        if k == "or":
            return int(bool(self.ev(e[2], env)) or bool(self.ev(e[3], env)))
        if k == "not":
            return int(not self.ev(e[2], env))
        if k == "call":
            args = [self.ev(a, env) for a in e[3]]
            return self._call(self.funcs[e[2]], args)
        raise ValueError(e)

    def assign(self, s, env):
        cell = self.lval(s[1], env)
        v = self.ev(s[3], env)
        if s[2] != "=":
            if cell.v is None:
                raise UB("read of an uninitialised object")
            v = arith(s[1][1], s[2][:-1], cell.v, v)
        cell.v = v

    def block(self, body, env):
        for s in body:
            self.tick()
            k = s[0]
            if k == "decl":
                t = s[2]
                if kind(t) in ("scalar", "ptr"):
                    env[s[1]] = Cell(self.ev(s[3], env))
                else:
                    vals = [self.ev(x, env) for x in s[3]]
                    env[s[1]] = self.make(t, vals, [0])
            elif k == "assign":
                self.assign(s, env)
            elif k == "if":
                self.block(s[2] if self.ev(s[1], env) else s[3], env)
            elif k == "while":
                while self.ev(s[1], env):
                    self.block(s[2], env)
            elif k == "for":
                self.assign(s[1], env)
                while self.ev(s[2], env):
                    self.block(s[4], env)
                    self.assign(s[3], env)
            elif k == "switch":
                v = self.ev(s[1], env)
                chosen = None
                for val, blk in s[2]:
                    if val is not None:
                        cv = self.consts[val] if isinstance(val, str) else val
                        if cv == v:
                            chosen = blk
                            break
                if chosen is None:
                    for val, blk in s[2]:
                        if val is None:
                            chosen = blk
                self.block(chosen, env)
            elif k == "ret":
                raise _Return(None if s[1] is None else self.ev(s[1], env))
            elif k == "callstmt":
                args = [self.ev(a, env) for a in s[2]]
                self._call(self.funcs[s[1]], args)
            else:
                raise ValueError(s)


def evaluate(prog, calls, fuel=40000):
    """[(ret, [global leaf values]) | UB instance] per call, each starting from the initial globals."""
    it = Interp(prog, fuel)
    out = []
    for name, args in calls:
        it.reset()
        try:
            r = it.call(name, args)
            out.append((r, it.snapshot(), it.steps))
        except UB as u:
            out.append(u)
        except RecursionError:
            out.append(UB("python recursion"))
    return out


# ---------------------------------------------------------------------------
# features (class histogram, non-triviality, finding predicates)


def walk(node, fn):
    """Call fn(node) for every list node that starts with a string tag."""
    if isinstance(node, list):
        if node and isinstance(node[0], str):
            fn(node)
        for x in node:
            walk(x, fn)


def features(prog):
    fs = set()

    def visit(n):
        k = n[0]
        if k == "bin" and len(n) == 5 and is_scalar(n[1]) and n[1] in BITS:
            t = n[1]
            if BITS[t] < 32:
                fs.add("narrow_arith")
            if BITS[t] == 64:
                fs.add("arith64")
            if n[2] in ("<<", ">>"):
                fs.add("shift")
                if n[2] == ">>" and is_signed(t):
                    fs.add("signed_shr")
            if n[2] in ("/", "%"):
                fs.add("divmod")
                if is_signed(t):
                    fs.add("signed_divmod")
        elif k == "cmp" and len(n) == 5:
            t = n[3][1] if isinstance(n[3], list) and len(n[3]) > 1 else None
            if isinstance(t, str) and t in BITS:
                if BITS[t] < 32:
                    fs.add("narrow_cmp")
                if not is_signed(t):
                    fs.add("unsigned_cmp")
                if t == "bool":
                    fs.add("bool_cmp")
        elif k == "un" and len(n) == 4:
            fs.add("unary_" + ("minus" if n[2] == "-" else "plus"))
            if n[2] == "-" and isinstance(n[1], str) and BITS.get(n[1], 32) < 32:
                fs.add("narrow_arith")
        elif k == "cast" and len(n) >= 3:
            fs.add("implicit_cast" if len(n) > 3 and n[3] else "cast")
        elif k in ("and", "or", "not") and len(n) >= 3:
            fs.add("logic")
        elif k in ("switch", "while", "for", "if") and len(n) >= 3 and isinstance(n[-1], list):
            fs.add(k)
        elif k == "deref":
            fs.add("pointer")
        elif k == "addr":
            fs.add("address_of")
        elif k == "fld":
            fs.add("struct_field")
        elif k == "idx":
            fs.add("array_index")
        elif k == "call" and len(n) == 4 and isinstance(n[3], list):
            fs.add("call")
        elif k == "callstmt":
            fs.add("call_void")
        elif k == "assign" and len(n) == 4 and n[2] != "=":
            fs.add("compound_assign")
            if isinstance(n[1], list) and isinstance(n[1][1], str) and BITS.get(n[1][1], 32) < 32:
                fs.add("narrow_arith")
        elif k == "const" and len(n) == 3:
            fs.add("const")
        elif k == "decl" and len(n) == 4 and not is_scalar(n[2]):
            fs.add("local_" + n[2][0])

    for f in prog["funcs"]:
        walk(f["body"], visit)
    return fs


def nontrivial(fs):
    return bool(fs & {"narrow_arith", "narrow_cmp", "switch", "while", "for"})


def count_nodes(prog):
    n = [0]

    def visit(_):
        n[0] += 1

    for f in prog["funcs"]:
        walk(f["body"], visit)
    return n[0]


# ---------------------------------------------------------------------------
# Hypothesis generator


class Profile:
    def __init__(self, max_funcs=4, max_stmts=5, expr_depth=3, block_depth=3, max_vectors=4, exclude=()):
        self.max_funcs = max_funcs
        self.max_stmts = max_stmts
        self.expr_depth = expr_depth
        self.block_depth = block_depth
        self.max_vectors = max_vectors
        self.exclude = set(exclude)  # names of excluded shapes (one per open finding), see vf/props/c37.py


BOUNDARY = [0, 1, 2, 3, 4, 5, 7, 8, 10, 15, 16, 31, 32, 63, 64, 100, 127, 128, 129, 200, 255, 256, 257, 1000, 32767, 32768,
            65535, 65536, 1 << 24, LITMAX - 1, LITMAX]


class _Var:
    __slots__ = ("name", "ty", "root", "ro", "target_root")

    def __init__(self, name, ty, root, ro=False, target_root=None):
        self.name = name
        self.ty = ty
        self.root = root  # "global" | "local"
        self.ro = ro  # loop counters: never assigned by generated statements
        self.target_root = target_root  # pointers: what they point into


class _Gen:
    def __init__(self, draw, prof):
        self.draw = draw
        self.prof = prof
        self.excluded = {}
        self.uid = 0
        self.prog = {"alias": {}, "structs": [], "consts": [], "globals": [], "funcs": []}
        self.gvars = []
        self.scopes = []
        self.fn = None  # function being generated
        self.loop_depth = 0

    # -- draws ---------------------------------------------------------------
    def pick(self, seq):
        return self.draw(st.sampled_from(list(seq)))

    def wpick(self, pairs):
        items = []
        for w, it in pairs:
            items += [it] * w
        return self.pick(items)

    def integer(self, lo, hi):
        return self.draw(st.integers(lo, hi))

    def chance(self, num, den):
        return self.integer(1, den) <= num

    def fresh(self, prefix):
        self.uid += 1
        return "%s%d" % (prefix, self.uid)

    def excl(self, name):
        """True when the shape `name` is excluded (open finding); counts the steering."""
        if name in self.prof.exclude:
            self.excluded[name] = self.excluded.get(name, 0) + 1
            return True
        return False

    # -- values --------------------------------------------------------------
    def lit_value(self, t):
        """an `int` literal whose value, cast to t, is boundary biased"""
        lo, hi = trange(t)
        lo, hi = max(lo, -LITMAX), min(hi, LITMAX)
        how = self.integer(0, 9)
        if how <= 4:
            v = self.pick(BOUNDARY)
            if self.chance(1, 4):
                v = -v
        elif how <= 6:
            v = self.integer(-9, 9)
        elif how == 7:
            v = self.pick([lo, hi, lo + 1, hi - 1])
        else:
            v = self.integer(lo, hi)
        if self.chance(9, 10):
            v = min(max(v, lo), hi)  # in range of t: no truncation in the cast
        return max(-LITMAX, min(LITMAX, v))

    def lit(self, t, v=None):
        if t == "bool":
            return ["blit", "bool", self.integer(0, 1) if v is None else v]
        return ["lit", t, self.lit_value(t) if v is None else v]

    def arg_value(self, t):
        lo, hi = trange(t)
        if t == "bool":
            return self.integer(0, 1)
        how = self.integer(0, 9)
        if how <= 3:
            v = self.pick(BOUNDARY)
            if is_signed(t) and self.chance(1, 3):
                v = -v
        elif how <= 5:
            v = self.integer(-5, 12)
        elif how == 6:
            v = self.pick([lo, hi, lo + 1, hi - 1])
        else:
            v = self.integer(lo, hi)
        return min(max(v, lo), hi)

    # -- scope ---------------------------------------------------------------
    def visible(self):
        out = list(self.gvars)
        for sc in self.scopes:
            out += sc
        return out

    def declare(self, var):
        self.scopes[-1].append(var)

    def writable_root(self, root):
        return not (self.fn["pure"] and root != "local")

    def places(self, t, write):
        """Thunks producing an LVAL of scalar/struct type t from the visible variables."""
        out = []
        for v in self.visible():
            vt = v.ty
            k = kind(vt)
            if k == "ptr":
                root = v.target_root
                if write and not self.writable_root(root):
                    continue
                pt = vt[1]
                base = ["deref", pt, ["var", vt, v.name]]
                if pt == t:
                    out.append(lambda base=base: base)
                elif kind(pt) == "struct":
                    for fn_, ft in struct_of(self.prog, pt[1])["fields"]:
                        if ft == t:
                            out.append(lambda base=base, fn_=fn_, ft=ft: ["fld", ft, base, fn_])
                continue
            if write and (v.ro or not self.writable_root(v.root)):
                continue
            base = ["var", vt, v.name]
            if vt == t:
                out.append(lambda base=base: base)
            elif k == "struct":
                for fn_, ft in struct_of(self.prog, vt[1])["fields"]:
                    if ft == t:
                        out.append(lambda base=base, fn_=fn_, ft=ft: ["fld", ft, base, fn_])
            elif k == "arr":
                et, n = vt[1], vt[2]
                if et == t:
                    out.append(lambda base=base, et=et, n=n: ["idx", et, base, self.index(n)])
                elif kind(et) == "struct":
                    for fn_, ft in struct_of(self.prog, et[1])["fields"]:
                        if ft == t:
                            out.append(
                                lambda base=base, et=et, n=n, fn_=fn_, ft=ft: ["fld", ft, ["idx", et, base, self.index(n)], fn_]
                            )
        return out

    def place_root(self, lv):
        """root ("global"/"local") of the object an LVAL designates"""
        while lv[0] in ("idx", "fld"):
            lv = lv[2]
        if lv[0] == "deref":
            name = lv[2][2]
        else:
            name = lv[2]
        for v in self.visible():
            if v.name == name:
                return v.target_root if kind(v.ty) == "ptr" else v.root
        raise KeyError(name)

    def index(self, n):
        if n == 1 or self.chance(1, 2):
            return ["lit", "i32", self.integer(0, n - 1)]
        e = self.expr("i32", 1)
        if n & (n - 1) == 0:
            return ["bin", "i32", "&", e, ["lit", "i32", n - 1]]
        return ["cast", "i32", ["bin", "u32", "%", ["cast", "u32", e, False], ["lit", "u32", n]], False]

    # -- expressions ---------------------------------------------------------
    def leaf(self, t):
        opts = [(2, "lit")]
        pl = self.places(t, False)
        if pl:
            opts.append((8, "place"))
        elif t in INT_TYPES:
            # nothing of this type in sight: read something else through a cast rather than yet another literal
            others = [s for s in INT_TYPES if s != t and self.places(s, False)]
            if others and self.chance(3, 4):
                s = self.pick(others)
                return ["cast", t, self.pick(self.places(s, False))(), False]
        cs = [c for c in self.prog["consts"] if c["ty"] == t]
        if cs:
            opts.append((1, "const"))
        how = self.wpick(opts)
        if how == "place":
            return self.pick(pl)()
        if how == "const":
            return ["const", t, self.pick(cs)["name"]]
        return self.lit(t)

    def pure_callees(self, t):
        return [f for f in self.prog["funcs"] if f["pure"] and f["ret"] == t]

    def call_args(self, f):
        args = []
        for _, pt in f["params"]:
            if kind(pt) == "ptr":
                args.append(self.pointer_to(pt[1], need_write=True))
            else:
                args.append(self.coerced(pt, 1))
        return args

    def coerced(self, t, d):
        """expression of type t for an assignment-like site; sometimes through an implicit coercion"""
        if t in INT_TYPES and self.chance(1, 8) and not self.excl("implicit_cast"):
            srcs = [s for s in INT_TYPES if s != t and implicit_ok(s, t)]
            if srcs:
                s = self.pick(srcs)
                return ["cast", t, self.expr(s, max(d - 1, 0)), True]
        return self.expr(t, d)

    def expr(self, t, d):
        if t == "bool":
            return self.bexpr(d)
        if d <= 0:
            return self.leaf(t)
        opts = [(3, "leaf"), (6, "bin"), (1, "un"), (2, "cast")]
        if self.pure_callees(t):
            opts.append((2, "call"))
        how = self.wpick(opts)
        if how == "leaf":
            return self.leaf(t)
        if how == "un":
            return ["un", t, self.wpick([(4, "-"), (1, "+")]), self.expr(t, d - 1)]
        if how == "cast":
            s = self.pick([x for x in INT_TYPES if x != t])
            return ["cast", t, self.expr(s, d - 1), False]
        if how == "call":
            f = self.pick(self.pure_callees(t))
            return ["call", t, f["name"], self.call_args(f)]
        ops = [o for o in ARITH if not (o == "<<" and is_signed(t))]
        op = self.pick(ops)
        a = self.expr(t, d - 1)
        if op in ("/", "%"):
            if self.chance(2, 3):
                v = 0
                while v == 0:
                    v = self.lit_value(t)
                    if norm(t, v) == 0:
                        v = 0
                b = ["lit", t, v]
            else:
                b = ["bin", t, "|", self.expr(t, d - 1), ["lit", t, 1]]
        elif op in ("<<", ">>"):
            if self.chance(1, 2):
                b = ["lit", t, self.integer(0, BITS[t] - 1)]
            else:
                b = ["bin", t, "&", self.expr(t, d - 1), ["lit", t, BITS[t] - 1]]
        elif op == "*" and is_signed(t) and BITS[t] >= 32 and self.chance(3, 4):
            b = ["lit", t, self.integer(-3, 9)]
        else:
            b = self.expr(t, d - 1)
        return ["bin", t, op, a, b]

    def bexpr(self, d):
        if d <= 0:
            opts = [(1, "lit")]
            pl = self.places("bool", False)
            if pl:
                opts.append((4, "place"))
            if self.wpick(opts) == "place":
                return self.pick(pl)()
            return self.lit("bool")
        opts = [(8, "cmp"), (2, "and"), (2, "or"), (2, "not"), (2, "leaf")]
        if self.pure_callees("bool"):
            opts.append((2, "call"))
        how = self.wpick(opts)
        if how == "leaf":
            return self.bexpr(0)
        if how == "call":
            f = self.pick(self.pure_callees("bool"))
            return ["call", "bool", f["name"], self.call_args(f)]
        if how == "not":
            return ["not", "bool", self.bexpr(d - 1)]
        if how in ("and", "or"):
            return [how, "bool", self.bexpr(d - 1), self.bexpr(d - 1)]
        if self.chance(1, 10):
            return ["cmp", "bool", self.pick(["==", "!="]), self.bexpr(d - 1), self.bexpr(d - 1)]
        t = self.wpick([(3, "i32"), (2, "u8"), (1, "i8"), (1, "i16"), (1, "u16"), (1, "u32"), (1, "i64"), (1, "u64")])
        return ["cmp", "bool", self.pick(CMPS), self.expr(t, d - 1), self.expr(t, d - 1)]

    def pointer_to(self, t, need_write=False):
        """EXPR of type ptr(t): an existing pointer variable or the address of a place"""
        cands = [v for v in self.visible() if v.ty == ["ptr", t] and (not need_write or self.writable_root(v.target_root))]
        pl = self.places(t, need_write)
        pl = [p for p in pl]
        if cands and (not pl or self.chance(1, 3)):
            v = self.pick(cands)
            return ["var", v.ty, v.name]
        if not pl:
            return None
        lv = self.pick(pl)()
        if lv[0] == "deref":
            return lv[2]  # &*p is p
        return ["addr", ["ptr", t], lv]

    # -- statements ----------------------------------------------------------
    def scalar_type(self):
        return self.wpick([(5, "i32"), (3, "u8"), (2, "bool"), (1, "i8"), (1, "i16"), (1, "u16"), (1, "u32"), (1, "i64"), (1, "u64")])

    def block(self, d, nmax, tail=None):
        """tail: callable producing the closing statements (generated inside the block's scope)"""
        self.scopes.append([])
        out = []
        n = self.integer(1, nmax)
        for _ in range(n):
            ss = self.statement(d)
            out += ss
            if ss and ss[-1][0] == "ret":
                break
        if tail and not (out and out[-1][0] == "ret"):
            out += tail()
        self.scopes.pop()
        return out

    def statement(self, d):
        f = self.fn
        opts = [(5, "assign"), (3, "decl"), (2, "compound")]
        if d > 0:
            opts += [(3, "if"), (2, "switch")]
            if self.loop_depth < 2:
                opts += [(2, "while"), (2, "for")]
            if d < self.prof.block_depth:
                opts.append((1, "early_ret"))
        opts += [(1, "decl_agg"), (1, "decl_ptr")]
        if not f["pure"] and any(not g["pure"] for g in self.prog["funcs"]):
            opts.append((3, "impure_call"))
        how = self.wpick(opts)
        ed = self.prof.expr_depth
        if how in ("assign", "compound"):
            t = self.scalar_type()
            pl = self.places(t, True)
            if not pl:
                how = "decl"
            else:
                lv = self.pick(pl)()
                if how == "compound" and t != "bool":
                    op = self.pick(["+=", "-=", "*=", "|=", "&="])
                    if op == "*=" and is_signed(t) and BITS[t] >= 32:
                        return [["assign", lv, op, ["lit", t, self.integer(-3, 5)]]]
                    return [["assign", lv, op, self.coerced(t, ed - 1)]]
                return [["assign", lv, "=", self.coerced(t, ed)]]
        if how == "decl":
            t = self.scalar_type()
            name = self.fresh("v")
            s = ["decl", name, t, self.coerced(t, ed)]
            self.declare(_Var(name, t, "local"))
            return [s]
        if how == "decl_agg":
            name = self.fresh("a")
            if self.prog["structs"] and self.chance(1, 2):
                sd = self.pick(self.prog["structs"])
                t = ["struct", sd["name"]]
                init = [self.coerced(ft, 1) for _, ft in sd["fields"]]
            else:
                et = self.scalar_type()
                n = self.integer(1, 4)
                t = ["arr", et, n]
                init = [self.coerced(et, 1) for _ in range(n)]
            s = ["decl", name, t, init]
            self.declare(_Var(name, t, "local"))
            return [s]
        if how == "decl_ptr":
            t = self.scalar_type()
            if self.prog["structs"] and self.chance(1, 3):
                t = ["struct", self.pick(self.prog["structs"])["name"]]
            # write=True: never a loop counter, and pure functions only point into their own locals
            pl = self.places(t, True)
            if not pl:
                return []
            lv = self.pick(pl)()
            if lv[0] == "deref":
                return []
            name = self.fresh("p")
            root = self.place_root(lv)
            s = ["decl", name, ["ptr", t], ["addr", ["ptr", t], lv]]
            self.declare(_Var(name, ["ptr", t], "local", ro=True, target_root=root))
            return [s]
        if how == "if":
            c = self.bexpr(ed)
            a = self.block(d - 1, self.prof.max_stmts - 1)
            b = self.block(d - 1, self.prof.max_stmts - 1) if self.chance(1, 2) else []
            return [["if", c, a, b]]
        if how == "early_ret":
            c = self.bexpr(ed - 1)
            return [["if", c, self.block(0, 2, tail=lambda: [self.ret_stmt()]), []]]
        if how == "switch":
            sel = self.expr("i32", ed - 1)
            if self.chance(2, 3):
                sel = ["bin", "i32", "&", sel, ["lit", "i32", self.pick([3, 7])]]
            ncase = self.integer(1, 4)
            vals = []
            pool = list(range(0, 9)) + [c["name"] for c in self.prog["consts"] if c["ty"] == "i32"]
            cvals = {c["name"]: c["val"] for c in self.prog["consts"]}
            seen = set()
            for _ in range(ncase):
                v = self.pick(pool)
                num = cvals[v] if isinstance(v, str) else v
                if num in seen:
                    continue
                seen.add(num)
                vals.append(v)
            options = [[v, self.block(d - 1, 2)] for v in vals]
            pos = self.integer(0, len(options))
            if pos != len(options) and self.excl("switch_default_not_last"):
                pos = len(options)
            options.insert(pos, [None, self.block(d - 1, 2)])
            return [["switch", sel, options]]
        if how in ("while", "for"):
            ctr = self.fresh("i")
            cv = ["var", "i32", ctr]
            k = self.integer(1, 4)
            down = self.chance(1, 3)
            start, cond = (k, ["cmp", "bool", ">", cv, ["lit", "i32", 0]]) if down else (0, ["cmp", "bool", "<", cv, ["lit", "i32", k]])
            if self.chance(1, 3):
                extra = self.bexpr(1)
                cond = ["and", "bool", cond, extra] if self.chance(2, 3) else ["and", "bool", extra, cond]
            stepform = self.integer(0, 2)
            one = ["lit", "i32", 1]
            if stepform == 0:
                step = ["assign", cv, "-=" if down else "+=", one]
            elif stepform == 1:
                step = ["assign", cv, "=", ["bin", "i32", "-" if down else "+", cv, one]]
            else:
                step = ["assign", cv, "=", ["bin", "i32", "+", cv, ["lit", "i32", -1 if down else 1]]]
            decl = ["decl", ctr, "i32", ["lit", "i32", start]]
            self.declare(_Var(ctr, "i32", "local", ro=True))
            self.loop_depth += 1
            if how == "while":
                body = self.block(d - 1, self.prof.max_stmts - 1, tail=lambda: [step])
                self.loop_depth -= 1
                return [decl, ["while", cond, body]]
            body = self.block(d - 1, self.prof.max_stmts - 1)
            self.loop_depth -= 1
            init = ["assign", cv, "=", ["lit", "i32", start]]
            return [decl, ["for", init, cond, step, body]]
        if how == "impure_call":
            callees = [g for g in self.prog["funcs"] if not g["pure"]]
            g = self.pick(callees)
            args = self.call_args(g)
            if any(a is None for a in args):
                return []
            if g["ret"] == "void":
                return [["callstmt", g["name"], args]]
            call = ["call", g["ret"], g["name"], args]
            simple = [v for v in self.visible() if v.ty == g["ret"] and not v.ro and self.writable_root(v.root)]
            if simple and self.chance(2, 3):
                v = self.pick(simple)
                return [["assign", ["var", v.ty, v.name], "=", call]]
            name = self.fresh("v")
            self.declare(_Var(name, g["ret"], "local"))
            return [["decl", name, g["ret"], call]]
        raise ValueError(how)

    def ret_stmt(self):
        f = self.fn
        if f["ret"] == "void":
            return ["ret", None]
        return ["ret", self.coerced(f["ret"], self.prof.expr_depth)]

    # -- program -------------------------------------------------------------
    def program(self):
        p = self.prog
        p["alias"] = {"i32": self.pick(["int", "int", "int32_t"]), "u8": self.pick(["byte", "byte", "uint8_t"])}
        for i in range(self.integer(0, 2)):
            nf = self.integer(1, 4)
            p["structs"].append({"name": "S%d" % i, "fields": [["m%d" % j, self.scalar_type()] for j in range(nf)]})
        for i in range(self.integer(0, 2)):
            t = self.pick(["i32", "i32", "u8"])
            p["consts"].append({"name": "K%d" % i, "ty": t, "val": self.integer(0, 12) if t == "i32" else self.integer(0, 255)})
        for i in range(self.integer(1, 5)):
            name = "g%d" % i
            how = self.wpick([(4, "scalar"), (2, "arr"), (1, "struct"), (1, "arrstruct")])
            if how in ("struct", "arrstruct") and not p["structs"]:
                how = "scalar"
            if how == "scalar":
                t = self.scalar_type()
            elif how == "arr":
                t = ["arr", self.scalar_type(), self.integer(1, 5)]
            elif how == "struct":
                t = ["struct", self.pick(p["structs"])["name"]]
            else:
                t = ["arr", ["struct", self.pick(p["structs"])["name"]], self.integer(1, 3)]
            lv = leaves(p, t)
            init = None
            # C3 global initialisers are constant expressions; the front end evaluates them for int and byte only
            if all(lt in ("i32", "u8") for _, lt in lv) and self.chance(2, 3) and not self.excl("global_init"):
                vals = [self.integer(0, 255) if lt == "u8" else self.pick(BOUNDARY) for _, lt in lv]
                init = vals[0] if is_scalar(t) else vals
            p["globals"].append({"name": name, "ty": t, "init": init})
            self.gvars.append(_Var(name, t, "global"))
        nf = self.integer(1, self.prof.max_funcs)
        for i in range(nf):
            last = i == nf - 1
            pure = self.chance(1, 3)
            params = []
            for j in range(self.integer(0, 3)):
                if not pure and not last and self.chance(1, 4):
                    t = self.scalar_type()
                    if p["structs"] and self.chance(1, 3):
                        t = ["struct", self.pick(p["structs"])["name"]]
                    params.append(["p%d_%d" % (i, j), ["ptr", t]])
                else:
                    params.append(["a%d_%d" % (i, j), self.scalar_type()])
            ret = self.scalar_type()
            if not pure and self.chance(1, 5):
                ret = "void"
            f = {"name": "f%d" % i, "ret": ret, "params": params, "pure": pure, "body": None}
            self.fn = f
            self.scopes = [[]]
            for n, t in params:
                self.scopes[0].append(_Var(n, t, "local", ro=kind(t) == "ptr", target_root="global" if kind(t) == "ptr" else None))
            self.loop_depth = 0
            f["body"] = self.block(self.prof.block_depth, self.prof.max_stmts, tail=lambda: [self.ret_stmt()])
            p["funcs"].append(f)
        return p

    def calls(self):
        out = []
        for f in self.prog["funcs"]:
            if all(is_scalar(t) for _, t in f["params"]):
                for _ in range(self.integer(2, self.prof.max_vectors) if f["params"] else 1):
                    out.append([f["name"], [self.arg_value(t) for _, t in f["params"]]])
        return out


def implicit_ok(s, t):
    """conversions the C3 type checker inserts by itself (typechecker.do_coerce), integer types only"""
    sb, tb = BITS[s], BITS[t]
    if is_signed(s) == is_signed(t):
        return sb <= tb
    if not is_signed(s):
        return sb < tb - 1
    return True  # signed -> unsigned: "for now, allow auto-cast"


@st.composite
def cases(draw, prof):
    g = _Gen(draw, prof)
    prog = g.program()
    calls = g.calls()
    return {"program": prog, "calls": calls, "excluded": g.excluded}
