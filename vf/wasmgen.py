"""Typed WebAssembly (MVP) module generator - a Hypothesis strategy producing JSON-able module
descriptions (format: see vf/wasmref.py) together with invocations.

    case = draw(cases(flags))         {"desc": <module description>, "calls": [[export, [[t, v]...]], ...]}
    module_info(desc)                 exports/result types/globals/memory needed to run a case
    call_plan(case)                   [(export, [(t, v)...], [result types])] for noderun / wasmppci

Bodies are generated type-directed as expression trees (every node leaves exactly the values its
type says), which gives valid stack code by construction, a folded text form for free, and lets
exclusion flags wrap single operands (a divisor, a shift count, an address).

Termination by construction: a function only calls functions of lower index; `call_indirect`
only appears in functions above the "table group" and the table only holds functions of that
group; every `loop` is driven by its own counter local (set to a constant 1..4 before the loop,
decremented once per iteration, never written elsewhere) and nothing else branches to a loop
label; a static cost estimate bounds calls inside loops.

Flags (exclusions by construction; all default to the full language):
    no_ops        set of instruction names never generated
    guards        set of operand guards: "div" (divisor forced into 1..255), "shift" (count masked
                  below the width), "addr" (addresses forced in bounds), "ci" (call_indirect only to
                  initialised table slots of the right type), "trunc" (float->int operands clamped
                  to a small range), "grow" (memory.grow only by 0), "sqrt" (operand wrapped in abs),
                  "fdiv" (float divisor forced to |b|+1)
    no_features   set of module features left out: imports, import_globals, table, memory, start,
                  globals, float_globals, dead_code, data, unreachable, nan_consts (any NaN constant),
                  nan_payload_consts (NaN constants other than the canonical +qNaN), snan32_consts (f32 sNaN),
                  br_table, loop_result, export_globals, export_float_globals, inf_consts,
                  elem_imports, nan_args, dead_loops (a loop inside code that follows a br/return/...),
                  grow_negative (memory.grow by a page count >= 2^31)
"""

import struct

from hypothesis import strategies as st

from . import wasmref as R

VTS = ("i32", "i64", "f32", "f64")


def f32b(x):
    return struct.unpack("<I", struct.pack("<f", x))[0]


def f64b(x):
    return struct.unpack("<Q", struct.pack("<d", x))[0]


I32_POOL = [0, 1, -1, 2, 3, 7, 8, 31, 32, 33, 63, 64, 127, 128, 255, 256, 0x7FFF, 0x8000, 0xFFFF, 0x10000,
            0x7FFFFFFF, -0x80000000, -2, 0x55555555, -0x55555556, 65535, 65536, 1000]  # fmt: skip
I64_POOL = [0, 1, -1, 2, 31, 32, 63, 64, 65, 255, 0x7FFFFFFF, 0x80000000, 0xFFFFFFFF, 0x100000000, -0x80000000,
            -0x80000001, 0x7FFFFFFFFFFFFFFF, -0x8000000000000000, 0x5555555555555555, -2, 1 << 53, (1 << 53) + 1]  # fmt: skip
_F_VALUES = [0.0, -0.0, 1.0, -1.0, 0.5, -0.5, 1.5, -1.5, 2.5, -2.5, 3.5, 0.1, 1e-5, 100.25, -7.75, 2147483647.0,
             2147483648.0, -2147483648.0, -2147483904.0, 4294967295.0, 4294967296.0, 9223372036854775807.0,
             -9223372036854775808.0, 18446744073709551615.0, 1e30, -1e30, 16777216.0, 16777217.0,
             0.49999999999999994, 4503599627370496.5, 4503599627370497.0]  # fmt: skip
F32_POOL = sorted({f32b(v) for v in _F_VALUES if abs(v) < 3e38}) + [
    0x7F800000, 0xFF800000, 0x00000001, 0x80000001, 0x007FFFFF, 0x00800000, 0x7F7FFFFF, 0xFF7FFFFF,
    0x4EFFFFFF, 0x4F000000, 0xCF000000, 0xCF000001, 0x4F7FFFFF, 0x4F800000, 0x5EFFFFFF, 0x5F000000, 0xDF000000, 0x5F7FFFFF, 0x5F800000, 0xBF7FFFFF, 0xBF800000,
]  # fmt: skip
F64_POOL = sorted({f64b(v) for v in _F_VALUES}) + [
    0x7FF0000000000000, 0xFFF0000000000000, 1, 0x8000000000000001, 0x000FFFFFFFFFFFFF, 0x0010000000000000,
    0x7FEFFFFFFFFFFFFF, 0xFFEFFFFFFFFFFFFF, 0x41DFFFFFFFC00000, 0x41E0000000000000, 0xC1E0000000000000, 0xC1E0000000200000,
    0x41EFFFFFFFE00000, 0x41F0000000000000, 0x43DFFFFFFFFFFFFF, 0x43E0000000000000, 0xC3E0000000000000, 0xC3E0000000000001,
    0x43EFFFFFFFFFFFFF, 0x43F0000000000000, 0xBFEFFFFFFFFFFFFF, 0xBFF0000000000000, 0x36A0000000000000, 0x47EFFFFFF0000000,
    # f32.demote_f64 rounding edges: around FLT_MAX (0x47EFFFFFE0000000) and the tie to infinity (0x47EFFFFFF0000000), around the
    # smallest subnormal (2^-149, tie to zero at 2^-150), the smallest normal (2^-126), and ties-to-even at 1 + k * 2^-24
    0x47EFFFFFDFFFFFFF, 0x47EFFFFFE0000000, 0x47EFFFFFE0000001, 0x47EFFFFFEFFFFFFF, 0x47EFFFFFF0000001, 0xC7EFFFFFEFFFFFFF, 0xC7EFFFFFF0000000,
    0x3690000000000000, 0x3690000000000001, 0x368FFFFFFFFFFFFF, 0x36A8000000000000, 0x380FFFFFFFFFFFFF, 0x3810000000000000, 0x380FFFFFF0000000,
    0x3FF0000010000000, 0x3FF0000010000001, 0x3FF0000030000000, 0x3FF000002FFFFFFF,
]  # fmt: skip
F32_NAN = [0x7FC00000, 0xFFC00000, 0x7FC00001, 0x7FFFFFFF]
F32_SNAN = [0x7F800001, 0xFFA00000]
F64_NAN = [0x7FF8000000000000, 0xFFF8000000000000, 0x7FF8000000000001, 0x7FFFFFFFFFFFFFFF]
F64_SNAN = [0x7FF0000000000001, 0xFFF4000000000000]

BOUNDARY = {
    "i32": set(v & 0xFFFFFFFF for v in I32_POOL),
    "i64": set(v & 0xFFFFFFFFFFFFFFFF for v in I64_POOL),
    "f32": set(F32_POOL + F32_NAN + F32_SNAN),
    "f64": set(F64_POOL + F64_NAN + F64_SNAN),
}


class Flags:
    def __init__(self, no_ops=(), guards=(), no_features=(), extras=()):
        self.no_ops = set(no_ops)
        self.guards = set(guards)
        self.no_features = set(no_features)
        self.extras = set(extras)  # opt-in shapes: "limit_edges" (memory / table limits 0, min == max)

    def has(self, feature):
        return feature not in self.no_features


def const_value(draw, t, flags, arg=False):
    """A constant of type t, biased to boundaries.  Returned in the wire form (ints signed, floats bits)."""
    v = _const_value(draw, t, flags, arg)
    if not arg and not flags.has("inf_consts"):
        if t == "f32" and (v & 0x7FFFFFFF) == 0x7F800000:
            v = (v & 0x80000000) | 0x7F7FFFFF
        if t == "f64" and (v & 0x7FFFFFFFFFFFFFFF) == 0x7FF0000000000000:
            v = (v & 0x8000000000000000) | 0x7FEFFFFFFFFFFFFF
    return v


def _const_value(draw, t, flags, arg):
    k = draw(st.integers(0, 9))
    if t == "i32":
        if k < 7:
            return draw(st.sampled_from(I32_POOL))
        return draw(st.integers(-(1 << 31), (1 << 31) - 1))
    if t == "i64":
        if k < 7:
            return draw(st.sampled_from(I64_POOL))
        return draw(st.integers(-(1 << 63), (1 << 63) - 1))
    nan_ok = flags.has("nan_consts") if not arg else flags.has("nan_args")
    payload_ok = flags.has("nan_payload_consts") and not arg  # non-canonical NaN; never for arguments (JS boundary)
    snan32_ok = flags.has("snan32_consts") and payload_ok and not arg  # f32 signalling NaN
    if t == "f32":
        if k < 6:
            return draw(st.sampled_from(F32_POOL))
        if k == 6 and nan_ok:
            v = draw(st.sampled_from(F32_NAN + (F32_SNAN if snan32_ok else [])))
            return v if payload_ok else 0x7FC00000
        v = draw(st.integers(0, 0xFFFFFFFF))
        if (v & 0x7F800000) == 0x7F800000 and v & 0x7FFFFF:  # random NaN pattern
            if not nan_ok:
                return v & 0xFF800000
            if not payload_ok:
                return 0x7FC00000
            if not snan32_ok:
                return v | 0x00400000
        return v
    if k < 6:
        return draw(st.sampled_from(F64_POOL))
    if k == 6 and nan_ok:
        v = draw(st.sampled_from(F64_NAN + (F64_SNAN if payload_ok and not arg else [])))
        return v if payload_ok else 0x7FF8000000000000
    v = draw(st.integers(0, 0xFFFFFFFFFFFFFFFF))
    if (v & 0x7FF0000000000000) == 0x7FF0000000000000 and v & 0xFFFFFFFFFFFFF:
        if not nan_ok:
            return v & 0xFFF0000000000000
        if not payload_ok:
            return 0x7FF8000000000000
    return v


def cnode(t, v):
    return ["%s.const" % t, [v], []]


# --- operator classes ---------------------------------------------------------------------------
UNOPS = {t: [] for t in VTS}
BINOPS = {t: [] for t in VTS}
CMPOPS = {t: [] for t in VTS}  # operand type -> ops yielding i32
CVTOPS = {t: [] for t in VTS}  # result type -> [(op, operand type)]
LOADS = {t: [] for t in VTS}
STORES = {t: [] for t in VTS}
for _op, (_ins, _outs) in R.SIG.items():
    if ".load" in _op:
        LOADS[_outs[0]].append(_op)
    elif ".store" in _op:
        STORES[_ins[1]].append(_op)
    elif _outs == ["i32"] and (len(_ins) == 2 or _op.endswith("eqz")) and _op.split(".")[1] in (
        "eqz", "eq", "ne", "lt_s", "lt_u", "gt_s", "gt_u", "le_s", "le_u", "ge_s", "ge_u", "lt", "gt", "le", "ge"):  # fmt: skip
        CMPOPS[_ins[0]].append(_op)
    elif len(_ins) == 2:
        BINOPS[_outs[0]].append(_op)
    elif _ins == _outs:
        UNOPS[_outs[0]].append(_op)
    else:
        CVTOPS[_outs[0]].append((_op, _ins[0]))
for _d in (UNOPS, BINOPS, CMPOPS, LOADS, STORES):
    for _t in _d:
        _d[_t].sort()
for _t in CVTOPS:
    CVTOPS[_t].sort()

COST_BUDGET = 4000


class FnCtx:
    def __init__(self, mod, fidx, params, ret, flags, draw):
        self.mod = mod
        self.fidx = fidx  # index among defined functions
        self.locals = list(params)
        self.nparams = len(params)
        self.ret = ret
        self.flags = flags
        self.draw = draw
        self.labels = [("func", ret)]  # innermost last
        self.fuel = 0
        self.counters = set()
        self.mult = 1
        self.cost = 0
        self.dead = 0  # >0 while generating code after a terminator

    # ---- helpers
    def pick(self, alts):
        """alts: [(weight, thunk)] -> result of one thunk; earlier entries are the simpler ones."""
        total = sum(w for w, _ in alts)
        k = self.draw(st.integers(0, total - 1))
        for w, th in alts:
            if k < w:
                return th()
            k -= w
        raise AssertionError

    def ops(self, names):
        return [n for n in names if n not in self.flags.no_ops]

    def tick(self, n=1):
        self.fuel -= n
        self.cost += self.mult * n

    # ---- expressions
    def leaf(self, t):
        alts = [(3, lambda: cnode(t, const_value(self.draw, t, self.flags)))]
        ls = [i for i, lt in enumerate(self.locals) if lt == t]
        if ls:
            alts.append((4, lambda: ["local.get", [self.draw(st.sampled_from(ls))], []]))
        gs = [i for i, (gt, _) in enumerate(self.mod.globals_all) if gt == t]
        if gs:
            alts.append((1, lambda: ["global.get", [self.draw(st.sampled_from(gs))], []]))
        self.tick()
        return self.pick(alts)

    def expr(self, t, d):
        if d <= 0 or self.fuel <= 0:
            return self.leaf(t)
        alts = [(3, lambda: self.leaf(t))]
        un = self.ops(UNOPS[t])
        if un:
            alts.append((3, lambda: self.unop(t, self.draw(st.sampled_from(un)), d)))
        bi = self.ops(BINOPS[t])
        if bi:
            alts.append((8, lambda: self.binop(t, self.draw(st.sampled_from(bi)), d)))
        if t == "i32":
            cm = [(o, ot) for ot in VTS for o in self.ops(CMPOPS[ot])]
            if cm:
                alts.append((5, lambda: self.cmpop(self.draw(st.sampled_from(cm)), d)))
        cv = [(o, s) for o, s in CVTOPS[t] if o not in self.flags.no_ops]
        if cv:
            alts.append((4, lambda: self.cvtop(self.draw(st.sampled_from(cv)), d)))
        if self.mod.mem and self.ops(LOADS[t]):
            alts.append((3, lambda: self.load(t, d)))
        if "select" not in self.flags.no_ops:
            alts.append((2, lambda: ["select", [], [self.expr(t, d - 1), self.expr(t, d - 1), self.expr("i32", d - 1)]]))
        ls = [i for i, lt in enumerate(self.locals) if lt == t and i not in self.counters]
        if ls and "local.tee" not in self.flags.no_ops:
            alts.append((1, lambda: ["local.tee", [self.draw(st.sampled_from(ls))], [self.expr(t, d - 1)]]))
        alts.append((2, lambda: self.block_expr(t, d)))
        alts.append((3, lambda: self.if_expr(t, d)))
        if self.flags.has("loop_result") and (not self.dead or self.flags.has("dead_loops")):
            alts.append((1, lambda: self.loop(t, d)))
        callees = self.mod.callees(self.fidx, t)
        if callees:
            alts.append((3, lambda: self.call(self.draw(st.sampled_from(callees)), d)))
        cit = self.mod.ci_types(self.fidx, t)
        if cit:
            alts.append((2, lambda: self.call_indirect(self.draw(st.sampled_from(cit)), d)))
        if t == "i32" and self.mod.mem:
            if "memory.size" not in self.flags.no_ops:
                alts.append((1, lambda: ["memory.size", [], []]))
            if "memory.grow" not in self.flags.no_ops:
                alts.append((1, lambda: self.grow()))
        brs = [k for k in self.br_targets() if self.label_bt(k) == t]
        if brs and "br_if" not in self.flags.no_ops:
            alts.append((2, lambda: ["br_if", [self.draw(st.sampled_from(brs))], [self.expr(t, d - 1), self.expr("i32", d - 1)]]))
        self.tick()
        return self.pick(alts)

    def grow(self):
        if "grow" in self.flags.guards:
            return ["memory.grow", [], [cnode("i32", 0)]]
        amounts = [0, 1, 1, 2, 3, 65536] + ([-1] if self.flags.has("grow_negative") else [])
        return ["memory.grow", [], [cnode("i32", self.draw(st.sampled_from(amounts)))]]

    def unop(self, t, op, d):
        a = self.expr(t, d - 1)
        if op.endswith(".sqrt") and "sqrt" in self.flags.guards:
            a = ["%s.abs" % t, [], [a]]
        return [op, [], [a]]

    def binop(self, t, op, d):
        a = self.expr(t, d - 1)
        b = self.expr(t, d - 1)
        name = op.split(".")[1]
        if name == "div" and "fdiv" in self.flags.guards:  # float divisor forced to |b| + 1 (never zero)
            one = f32b(1.0) if t == "f32" else f64b(1.0)
            b = ["%s.add" % t, [], [["%s.abs" % t, [], [b]], cnode(t, one)]]
        if name in ("div_s", "div_u", "rem_s", "rem_u") and "div" in self.flags.guards:
            b = ["%s.or" % t, [], [["%s.and" % t, [], [b, cnode(t, 0xFF)]], cnode(t, 1)]]
        if name in ("shl", "shr_s", "shr_u", "rotl", "rotr") and "shift" in self.flags.guards:
            b = ["%s.and" % t, [], [b, cnode(t, 31 if t == "i32" else 63)]]
        return [op, [], [a, b]]

    def cmpop(self, op_ot, d):
        op, ot = op_ot
        if op.endswith("eqz"):
            return [op, [], [self.expr(ot, d - 1)]]
        return [op, [], [self.expr(ot, d - 1), self.expr(ot, d - 1)]]

    def cvtop(self, op_src, d):
        op, src = op_src
        a = self.expr(src, d - 1)
        if ".trunc_f" in op and "trunc" in self.flags.guards:
            # operand forced into [-64, 63] (or [0, 64] for the unsigned forms): never NaN, never out of range
            a = ["%s.convert_i32_s" % src, [], [["i32.sub", [], [["i32.and", [], [self.expr("i32", d - 1), cnode("i32", 127)]], cnode("i32", 64)]]]]
            if op.endswith("_u"):
                a = ["%s.abs" % src, [], [a]]
        return [op, [], [a]]

    def addr(self, d, width):
        """Address operand + static offset for an access of `width` bytes."""
        size = self.mod.mem["min"] * 65536
        k = self.draw(st.integers(0, 9))
        if k < 4:
            base = cnode("i32", self.draw(st.integers(0, 64)))
            off = self.draw(st.sampled_from([0, 0, 1, 4, 8, 16]))
        elif k < 8 or "addr" in self.flags.guards:
            base = ["i32.and", [], [self.expr("i32", d - 1), cnode("i32", 0xFF)]]
            off = self.draw(st.sampled_from([0, 0, 1, 2, 4, 100]))
        elif k == 8:  # around the end of the first page / of memory
            base = cnode("i32", size - self.draw(st.integers(0, 9)))
            off = self.draw(st.sampled_from([0, 0, 1, 4]))
        else:
            base = self.expr("i32", d - 1)
            off = self.draw(st.sampled_from([0, 1, 65535, 65536, 0xFFFFFFFF]))
        return base, off

    def load(self, t, d):
        op = self.draw(st.sampled_from(self.ops(LOADS[t])))
        na = R.natural_align(op)
        base, off = self.addr(d, 1 << na)
        return [op, [self.draw(st.integers(0, na)), off], [base]]

    def store(self, d):
        t = self.draw(st.sampled_from([x for x in VTS if self.ops(STORES[x])]))
        op = self.draw(st.sampled_from(self.ops(STORES[t])))
        na = R.natural_align(op)
        base, off = self.addr(d, 1 << na)
        return [op, [self.draw(st.integers(0, na)), off], [base, self.expr(t, d - 1)]]

    def call(self, fi, d):
        ps, rs = self.mod.ftype(fi)
        self.tick(self.mod.fcost(fi))
        return ["call", [fi], [self.expr(p, d - 1) for p in ps]]

    def call_indirect(self, ti, d):
        ps, rs = self.mod.desc["types"][ti]
        slots = self.mod.slots_of_type(ti)
        self.tick(self.mod.table_cost)
        if "ci" in self.flags.guards or self.draw(st.integers(0, 3)) > 0:
            idx = cnode("i32", self.draw(st.sampled_from(slots))) if slots else None
        else:
            idx = None
        if idx is None:
            if "ci" in self.flags.guards:
                raise AssertionError("ci_types offered a type without slots")
            idx = self.expr("i32", d - 1) if self.draw(st.booleans()) else cnode("i32", self.draw(st.integers(0, self.mod.desc["table"]["min"] + 1)))
        return ["call_indirect", [ti], [self.expr(p, d - 1) for p in ps] + [idx]]

    # ---- structured
    def br_targets(self):
        """Relative depths of labels that may be branched to (never a loop)."""
        n = len(self.labels)
        return [n - 1 - i for i, (kind, _) in enumerate(self.labels) if kind != "loop"]

    def label_bt(self, depth):
        return self.labels[len(self.labels) - 1 - depth][1]

    def body(self, t, d, nmax=3):
        """Statements followed by a value of type t (or nothing for t None); may end in a terminator."""
        out = []
        n = self.draw(st.integers(0, nmax)) if self.fuel > 0 else 0
        for _ in range(n):
            out.append(self.stmt(d))
            if out[-1][0] in ("br", "br_table", "return", "unreachable"):
                if self.flags.has("dead_code") and self.draw(st.booleans()):
                    self.dead += 1
                    out.append(self.stmt(min(d, 2)))
                    if t is not None:
                        out.append(self.expr(t, min(d, 2)))
                    self.dead -= 1
                return out
        if t is not None:
            out.append(self.expr(t, d))
        return out

    def block_expr(self, t, d):
        self.labels.append(("block", t))
        b = self.body(t, d - 1)
        self.labels.pop()
        return ["block", t, b]

    def if_expr(self, t, d):
        c = self.expr("i32", d - 1)
        self.labels.append(("if", t))
        th = self.body(t, d - 1, 2)
        el = self.body(t, d - 1, 2) if (t is not None or self.draw(st.booleans())) else None
        self.labels.pop()
        return ["if", t, c, th, el]

    def loop(self, t, d):
        """Counter-driven loop; returns a node (a block holding the counter set-up and the loop)."""
        n = self.draw(st.integers(1, 4))
        self.locals.append("i32")
        cl = len(self.locals) - 1
        self.counters.add(cl)
        old_mult = self.mult
        self.mult *= n
        self.labels.append(("block", t))
        self.labels.append(("loop", None))
        inner = self.body(None, d - 1, 3)
        # a terminator inside the body would make the back-edge dead; that is fine (loop runs once)
        dec = ["local.set", [cl], [["i32.sub", [], [["local.get", [cl], []], cnode("i32", 1)]]]]
        style = self.draw(st.integers(0, 2))
        if style == 0 or "br_if" in self.flags.no_ops:
            back = ["if", None, ["local.get", [cl], []], [["br", [1], []]], None]
        elif style == 1:
            back = ["br_if", [0], [["local.get", [cl], []]]]
        else:
            back = ["br_if", [0], [["i32.gt_s", [], [["local.get", [cl], []], cnode("i32", 0)]]]]
        self.labels.pop()
        lp = ["loop", None, inner + [dec, back]]
        outer = [["local.set", [cl], [cnode("i32", n)]], lp]
        self.mult = old_mult
        if t is not None:
            outer.append(self.expr(t, d - 1))
        self.labels.pop()
        return ["block", t, outer]

    # ---- statements
    def stmt(self, d):
        if d <= 0 or self.fuel <= 0:
            d = 1
        alts = []
        ls = [i for i in range(len(self.locals)) if i not in self.counters]
        if ls:
            alts.append((6, lambda: self.local_set(d, ls)))
        gs = [i for i, (_, mut) in enumerate(self.mod.globals_all) if mut]
        if gs:
            alts.append((3, lambda: self.global_set(d, gs)))
        if self.mod.mem and any(self.ops(STORES[x]) for x in VTS):
            alts.append((6, lambda: self.store(d)))
        alts.append((2, lambda: ["drop", [], [self.expr(self.draw(st.sampled_from(VTS)), d - 1)]]))
        alts.append((1, lambda: ["nop", [], []]))
        alts.append((2, lambda: self.block_expr(None, d)))
        alts.append((3, lambda: self.if_expr(None, d)))
        if not self.dead or self.flags.has("dead_loops"):
            alts.append((3, lambda: self.loop(None, d)))
        callees = self.mod.callees(self.fidx, None)
        if callees:
            alts.append((2, lambda: self.call(self.draw(st.sampled_from(callees)), d)))
        cit = self.mod.ci_types(self.fidx, None)
        if cit:
            alts.append((1, lambda: self.call_indirect(self.draw(st.sampled_from(cit)), d)))
        tg = self.br_targets()
        void = [k for k in tg if self.label_bt(k) is None]
        if void and "br_if" not in self.flags.no_ops:
            alts.append((3, lambda: ["br_if", [self.draw(st.sampled_from(void))], [self.expr("i32", d - 1)]]))
        if len(self.labels) > 1:
            if "br" not in self.flags.no_ops:
                alts.append((2, lambda: self.br(d, tg)))
            if self.flags.has("br_table") and "br_table" not in self.flags.no_ops:
                alts.append((2, lambda: self.br_table(d, tg)))
            if "return" not in self.flags.no_ops:
                alts.append((1, lambda: ["return", [], [self.expr(self.ret, d - 1)] if self.ret else []]))
            if self.flags.has("unreachable"):
                alts.append((1, lambda: ["if", None, self.expr("i32", d - 1), [["unreachable", [], []]], None]))
        self.tick()
        return self.pick(alts)

    def local_set(self, d, ls):
        i = self.draw(st.sampled_from(ls))
        return ["local.set", [i], [self.expr(self.locals[i], d - 1)]]

    def global_set(self, d, gs):
        i = self.draw(st.sampled_from(gs))
        return ["global.set", [i], [self.expr(self.mod.globals_all[i][0], d - 1)]]

    def br(self, d, tg):
        k = self.draw(st.sampled_from(tg))
        bt = self.label_bt(k)
        return ["br", [k], [self.expr(bt, d - 1)] if bt else []]

    def br_table(self, d, tg):
        k0 = self.draw(st.sampled_from(tg))
        bt = self.label_bt(k0)
        same = [k for k in tg if self.label_bt(k) == bt]
        n = self.draw(st.integers(0, 4))
        labels = [self.draw(st.sampled_from(same)) for _ in range(n)]
        idx = self.expr("i32", d - 1) if self.draw(st.booleans()) else cnode("i32", self.draw(st.integers(-1, n + 1)))
        return ["br_table", [labels, k0], ([self.expr(bt, d - 1)] if bt else []) + [idx]]


class ModCtx:
    """Module-level knowledge the function generator needs."""

    def __init__(self, desc, flags):
        self.desc = desc
        self.flags = flags
        self.mem = desc["mem"]
        self.nfi = R.n_func_imports(desc)
        self.globals_all = []  # (vt, mut) imports first
        self.costs = {}  # defined function index -> static cost
        self.table_group = 0  # defined functions [0, table_group) may sit in the table
        self.table_cost = 1
        self.slots = {}  # table slot -> function index

    def ftype(self, fi):
        return R.func_type(self.desc, fi)

    def fcost(self, fi):
        return 2 if fi < self.nfi else self.costs.get(fi - self.nfi, 1) + 2

    def callees(self, k, t):
        """Function indices defined function k may call with result t (None: no result)."""
        out = []
        for fi in range(self.nfi + k):
            ps, rs = self.ftype(fi)
            if (rs[0] if rs else None) == t and "call" not in self.flags.no_ops:
                out.append(fi)
        return out

    def slots_of_type(self, ti):
        want = self.desc["types"][ti]
        return sorted(s for s, fi in self.slots.items() if self.ftype(fi) == want)

    def ci_types(self, k, t):
        if not self.desc["table"] or k < self.table_group or "call_indirect" in self.flags.no_ops:
            return []
        out = []
        for ti, (ps, rs) in enumerate(self.desc["types"]):
            if (rs[0] if rs else None) != t:
                continue
            if "ci" in self.flags.guards and not self.slots_of_type(ti):
                continue
            out.append(ti)
        return out


HOST_FUNCS = {  # name -> type, must match noderun.js hostImports / wasmppci.host_imports
    "imp_i32": [["i32"], ["i32"]],
    "imp_i64": [["i64"], ["i64"]],
    "imp_f64": [["f64"], ["f64"]],
    "imp_f32": [["f32"], ["f32"]],
    "imp_add": [["i32", "i32"], ["i32"]],
    "imp_put": [["i32"], []],
    "imp_get": [[], ["i32"]],
}
HOST_GLOBALS = {"g_i32": "i32", "g_i64": "i64"}


@st.composite
def cases(draw, flags=None, max_funcs=4, fuel=40, depth=5, ncalls=4):
    flags = flags or Flags()
    vts = [t for t in VTS]
    desc = {"types": [], "imports": [], "funcs": [], "table": None, "mem": None, "globals": [],
            "exports": [], "start": None, "elems": [], "datas": []}  # fmt: skip

    def type_index(sig):
        if sig in desc["types"]:
            if draw(st.integers(0, 7)) > 0:
                return desc["types"].index(sig)
        desc["types"].append(sig)
        return len(desc["types"]) - 1

    # imports
    if flags.has("imports") and draw(st.integers(0, 3)) == 0:
        names = draw(st.lists(st.sampled_from(sorted(HOST_FUNCS)), min_size=1, max_size=3, unique=True))
        for n in names:
            desc["imports"].append({"mod": "env", "name": n, "kind": "func", "type": type_index(HOST_FUNCS[n])})
        if flags.has("import_globals") and draw(st.booleans()):
            for n in draw(st.lists(st.sampled_from(sorted(HOST_GLOBALS)), min_size=1, max_size=2, unique=True)):
                desc["imports"].append({"mod": "env", "name": n, "kind": "global", "vt": HOST_GLOBALS[n], "mut": False})
    mod = ModCtx(desc, flags)
    for im in desc["imports"]:
        if im["kind"] == "global":
            mod.globals_all.append((im["vt"], False))
    # memory, data
    if flags.has("memory") and draw(st.integers(0, 4)) > 0:
        desc["mem"] = {"min": draw(st.sampled_from([1, 1, 1, 2])), "max": draw(st.sampled_from([None, None, 2, 3]))}
        if "limit_edges" in flags.extras and draw(st.integers(0, 2)) == 0:
            mn = draw(st.sampled_from([0, 0, 1, 2]))
            mx = draw(st.integers(0, 9))
            desc["mem"] = {"min": mn, "max": mn if mx < 6 else mn + 1 if mx < 8 else mn + 2 if mx < 9 else None}
        mod.mem = desc["mem"]
        if flags.has("data") and desc["mem"]["min"] > 0:
            for _ in range(draw(st.integers(0, 2))):
                off = draw(st.sampled_from([0, 1, 8, 60, 250, 65530]))
                n = draw(st.integers(0, 6))
                desc["datas"].append({"offset": off, "bytes": bytes(draw(st.lists(st.integers(0, 255), min_size=n, max_size=n))).hex()})
    # globals
    if flags.has("globals"):
        gts = vts if flags.has("float_globals") else ["i32", "i64"]
        for _ in range(draw(st.integers(0, 3))):
            t = draw(st.sampled_from(gts))
            imm_same = [i for i, (gt, mut) in enumerate(mod.globals_all) if gt == t and i < R.n_global_imports(desc)]
            if imm_same and draw(st.booleans()):
                init = ["global.get", [draw(st.sampled_from(imm_same))], []]
            else:
                init = cnode(t, const_value(draw, t, flags))
            g = {"vt": t, "mut": draw(st.booleans()), "init": init}
            desc["globals"].append(g)
        for g in desc["globals"]:
            mod.globals_all.append((g["vt"], g["mut"]))
    # function signatures
    nf = draw(st.integers(1, max_funcs))
    sigs = []
    for k in range(nf):
        ps = draw(st.lists(st.sampled_from(vts), min_size=0, max_size=3))
        rs = draw(st.sampled_from([[], ["i32"], ["i32"], ["i64"], ["f32"], ["f64"]]))
        sigs.append([ps, rs])
    # table: group of the first functions
    if flags.has("table") and nf >= 2 and draw(st.integers(0, 2)) > 0:
        tmin = draw(st.integers(1, 6))
        desc["table"] = {"min": tmin, "max": draw(st.sampled_from([None, tmin, tmin + 2]))}
        mod.table_group = draw(st.integers(1, nf - 1))
    elif "limit_edges" in flags.extras and flags.has("table") and draw(st.integers(0, 5)) == 0:
        # an empty table with explicit limits (no element segment, no call_indirect target)
        desc["table"] = {"min": 0, "max": draw(st.sampled_from([0, 0, 1, None]))}
        mod.table_group = 0
    for k in range(nf):
        desc["funcs"].append({"type": type_index(sigs[k]), "locals": [], "body": []})
    if desc["table"] and desc["table"]["min"] > 0:
        cand = (list(range(mod.nfi)) if flags.has("elem_imports") else []) + [mod.nfi + k for k in range(mod.table_group)]
        pos = 0
        for _ in range(draw(st.integers(1, 2))):
            room = desc["table"]["min"] - pos
            if room <= 0:
                break
            off = pos + draw(st.integers(0, min(1, room - 1)))
            n = draw(st.integers(1, desc["table"]["min"] - off))
            fs = [draw(st.sampled_from(cand)) for _ in range(n)]
            desc["elems"].append({"offset": off, "funcs": fs})
            for i, fi in enumerate(fs):
                mod.slots[off + i] = fi
            pos = off + n
    # bodies (in index order so that callee costs are known)
    for k in range(nf):
        ps, rs = sigs[k]
        ctx = FnCtx(mod, k, ps, rs[0] if rs else None, flags, draw)
        extra = draw(st.lists(st.sampled_from(vts), min_size=0, max_size=3))
        ctx.locals += extra
        ctx.fuel = draw(st.integers(3, fuel))
        body = ctx.body(ctx.ret, depth, 4)
        desc["funcs"][k]["locals"] = ctx.locals[ctx.nparams :]
        desc["funcs"][k]["body"] = body
        mod.costs[k] = ctx.cost
        if ctx.cost > COST_BUDGET:  # rare: prune by replacing the body with a trivial one
            desc["funcs"][k]["locals"] = []
            desc["funcs"][k]["body"] = [cnode(ctx.ret, 0)] if ctx.ret else []
            mod.costs[k] = 1
        if k < mod.table_group:
            mod.table_cost = max(mod.table_cost, mod.costs[k] + 2)
    # exports
    for k in range(nf):
        desc["exports"].append({"name": "f%d" % k, "kind": "func", "idx": mod.nfi + k})
    if desc["mem"]:
        desc["exports"].append({"name": "mem", "kind": "memory", "idx": 0})
    if flags.has("export_globals"):
        ngi = R.n_global_imports(desc)
        for i, g in enumerate(desc["globals"]):
            if g["vt"] in ("f32", "f64") and not flags.has("export_float_globals"):
                continue
            desc["exports"].append({"name": "g%d" % i, "kind": "global", "idx": ngi + i})
    if desc["table"] and draw(st.booleans()):
        desc["exports"].append({"name": "tab", "kind": "table", "idx": 0})
    # start
    starts = [k for k in range(nf) if sigs[k] == [[], []]]
    if starts and flags.has("start") and draw(st.integers(0, 2)) == 0:
        desc["start"] = mod.nfi + draw(st.sampled_from(starts))
    # invocations
    calls = []
    for _ in range(draw(st.integers(1, ncalls))):
        k = draw(st.integers(0, nf - 1))
        calls.append(["f%d" % k, [[p, const_value(draw, p, flags, arg=True)] for p in sigs[k][0]]])
    return {"desc": desc, "calls": calls}


# --- helpers for running a case -----------------------------------------------------------------
def module_info(desc):
    """{'funcs': {export: (params, results)}, 'globals': {export: vt}, 'memory': export|None, 'imports': bool}"""
    info = {"funcs": {}, "globals": {}, "memory": None, "imports": bool(desc.get("imports"))}
    for e in desc.get("exports", []):
        if e["kind"] == "func":
            ps, rs = R.func_type(desc, e["idx"])
            info["funcs"][e["name"]] = (list(ps), list(rs))
        elif e["kind"] == "global":
            info["globals"][e["name"]] = R.global_type(desc, e["idx"])[0]
        elif e["kind"] == "memory":
            info["memory"] = e["name"]
    return info


def call_plan(case):
    info = module_info(case["desc"])
    return [(f, [(t, v) for t, v in args], info["funcs"][f][1]) for f, args in case["calls"]]


def features(desc):
    """Class labels of a description (for histograms and non-triviality rules)."""
    ops = R.ops_of(desc)
    fs = set()
    for name in ("block", "loop", "if", "br", "br_if", "br_table", "return", "call", "call_indirect", "select",
                 "memory.grow", "memory.size", "unreachable", "local.tee", "global.set"):  # fmt: skip
        if name in ops:
            fs.add(name)
    if any(".load" in o for o in ops):
        fs.add("load")
    if any(".store" in o for o in ops):
        fs.add("store")
    if any(o.startswith("f32.") or o.startswith("f64.") for o in ops):
        fs.add("float")
    if any(o.startswith("i64.") for o in ops):
        fs.add("i64")
    for key in ("table", "mem", "start"):
        if desc.get(key) is not None:
            fs.add("sec:" + key)
    for key in ("imports", "globals", "elems", "datas"):
        if desc.get(key):
            fs.add("sec:" + key)
    return fs


def nesting_with_branch(desc):
    """True when some function has a block/loop/if nested inside another one and a branch."""
    def depth(body, d):
        m = d
        for n in body:
            if n[0] in ("block", "loop"):
                m = max(m, depth(n[2], d + 1))
            elif n[0] == "if":
                m = max(m, depth([n[2]], d), depth(n[3], d + 1), depth(n[4] or [], d + 1))
            else:
                m = max(m, depth(n[2], d))
        return m

    for f in desc["funcs"]:
        if depth(f["body"], 0) >= 2 and any(n[0] in ("br", "br_if", "br_table") for n in R.walk(f["body"])):
            return True
    return False
