"""Object-file generator and structural comparison (DESIGN.md 3.9).

Everything here is *case based*: a plain-JSON description of an object file
(`desc`) is turned into a real `ppci.binutils.objectfile.ObjectFile` by
`build_object(desc)`.  Hypothesis strategies that draw such descriptions are
at the bottom (`object_descs`, `debug_descs`).  `diff_objects(a, b)` is a
field-by-field comparison of two object files that does not use any of ppci's
`__eq__` methods.

Description format (all keys required unless marked optional)::

    {"arch": "arm",
     "sections":    [{"name": str, "address": int, "alignment": int, "data": DATA}],
     "symbols":     [{"id": int, "name": str, "binding": "local"|"global",
                      "value": int|None, "section": str|None, "typ": str, "size": int}],
     "relocations": [{"type": str, "symbol_id": int, "section": str, "offset": int, "addend": int}],
     "images":      [{"name": str, "address": int, "sections": [section names]}],
     "entry":       symbol id | None,
     "debug":       None | DEBUG}

    DATA  = {"hex": "00ff.."} | {"n": size, "seed": int}        (seeded data: SHAKE-256 stream)
    DEBUG = {"types":     [{"kind": "base", "name": str, "size": int}
                           | {"kind": "pointer", "to": idx} | {"kind": "array", "of": idx, "size": int}
                           | {"kind": "struct", "fields": [[name, idx, offset], ...]}],
             "listed":    [idx, ...]      order in which the types are registered in DebugInfo.types
             "locations": [{"loc": LOC, "addr": ADDR}],
             "variables": [{"name": str, "type": idx, "loc": LOC, "addr": ADDR}],
             "functions": [{"name": str, "loc": LOC, "ret": idx, "args": [[name, idx], ...],
                            "begin": ADDR, "end": ADDR, "vars": [variable, ...]}]}
    LOC   = [filename, row, col, length]
    ADDR  = {"k": "fixed", "sym": symbol id} | {"k": "fp", "off": int, "size": int} | {"k": "unknown"}

Invariants a description must satisfy (they are the ObjectFile API's own
preconditions; the strategies establish them by construction): section names
unique, symbol ids unique, names of global symbols unique, symbol sections /
relocation sections / image sections name existing sections, relocation and
debug `sym` ids name existing symbols, image names unique, pointer/array debug
types do not form a cycle without a struct in it.
"""

import hashlib

from hypothesis import strategies as st

# ---------------------------------------------------------------------------
# data


def expand_data(d):
    """DATA description -> bytes."""
    if "hex" in d:
        return bytes.fromhex(d["hex"])
    n = int(d["n"])
    if n == 0:
        return b""
    return hashlib.shake_256(b"vf-data/%d" % int(d["seed"])).digest(n)


def data_size(d):
    return len(d["hex"]) // 2 if "hex" in d else int(d["n"])


# ---------------------------------------------------------------------------
# description -> ObjectFile


def build_debug(dd):
    """DEBUG description -> ppci DebugInfo."""
    from ppci.arch.stack import StackLocation
    from ppci.binutils import debuginfo as di
    from ppci.common import SourceLocation

    tdescs = dd["types"]
    built = {}
    pending = set()

    # struct shells first: a pointer/array needs its target object at construction time, a struct's
    # fields are added afterwards - this is how recursive types come into being in memory
    for i, t in enumerate(tdescs):
        if t["kind"] == "struct":
            built[i] = di.DebugStructType()

    def typ(i):
        if i in built:
            return built[i]
        if i in pending:
            raise ValueError("debug type cycle without a struct (index %d)" % i)
        t = tdescs[i]
        k = t["kind"]
        if k == "base":
            built[i] = di.DebugBaseType(t["name"], t["size"], 1)
        elif k == "pointer":
            pending.add(i)
            built[i] = di.DebugPointerType(typ(t["to"]))
            pending.discard(i)
        elif k == "array":
            pending.add(i)
            built[i] = di.DebugArrayType(typ(t["of"]), t["size"])
            pending.discard(i)
        else:
            raise ValueError("unknown debug type kind %r" % (k,))
        return built[i]

    for i, t in enumerate(tdescs):
        if t["kind"] == "struct":
            for name, ti, off in t["fields"]:
                built[i].add_field(name, typ(ti), off)

    def loc(l):
        return SourceLocation(l[0], l[1], l[2], l[3])

    def addr(a):
        k = a["k"]
        if k == "fixed":
            return di.DebugAddress(a["sym"])
        if k == "fp":
            return di.FpOffsetAddress(StackLocation(a["off"], a["size"]))
        if k == "unknown":
            return di.UnknownAddress()
        raise ValueError("unknown address kind %r" % (k,))

    def var(v):
        return di.DebugVariable(v["name"], typ(v["type"]), loc(v["loc"]), address=addr(v["addr"]))

    info = di.DebugInfo()
    for l in dd["locations"]:
        info.add(di.DebugLocation(loc(l["loc"]), address=addr(l["addr"])))
    for i in dd["listed"]:
        info.add(typ(i))
    for v in dd["variables"]:
        info.add(var(v))
    for f in dd["functions"]:
        args = [di.DebugParameter(n, typ(ti)) for n, ti in f["args"]]
        info.add(
            di.DebugFunction(
                f["name"],
                loc(f["loc"]),
                typ(f["ret"]),
                args,
                begin=addr(f["begin"]),
                end=addr(f["end"]),
                variables=[var(v) for v in f["vars"]],
            )
        )
    return info


def build_object(desc):
    """Object description -> ObjectFile (built through the ObjectFile API)."""
    from ppci.api import get_arch
    from ppci.binutils.objectfile import Image, ObjectFile, RelocationEntry

    obj = ObjectFile(get_arch(desc["arch"]))
    for s in desc["sections"]:
        sec = obj.create_section(s["name"])
        sec.address = s["address"]
        sec.alignment = s["alignment"]
        sec.add_data(expand_data(s["data"]))
    for y in desc["symbols"]:
        obj.add_symbol(y["id"], y["name"], y["binding"], y["value"], y["section"], y["typ"], y["size"])
    for r in desc["relocations"]:
        obj.add_relocation(RelocationEntry(r["type"], r["symbol_id"], r["section"], r["offset"], r["addend"]))
    for i in desc["images"]:
        img = Image(i["name"], i["address"])
        for name in i["sections"]:
            img.add_section(obj.get_section(name))
        obj.add_image(img)
    obj.entry_symbol_id = desc.get("entry")
    if desc.get("debug") is not None:
        obj.debug_info = build_debug(desc["debug"])
    return obj


def features(desc):
    """Set of feature names of a description (for class histograms)."""
    f = set()
    if desc["relocations"]:
        f.add("relocs")
    if any(r["addend"] < 0 for r in desc["relocations"]):
        f.add("negative_addend")
    if any(data_size(s["data"]) > 30 for s in desc["sections"]):
        f.add("data_gt30")
    if any(y["value"] is None for y in desc["symbols"]):
        f.add("undefined_symbol")
    if any(y["value"] is not None and y["section"] is None for y in desc["symbols"]):
        f.add("absolute_symbol")
    if desc["images"]:
        f.add("image")
    if desc.get("entry") is not None:
        f.add("entry")
    dd = desc.get("debug")
    if dd is not None:
        f.add("debug")
        kinds = {t["kind"] for t in dd["types"]}
        f.update("debug_" + k for k in kinds)
        if any(a["k"] == "fp" for a in _debug_addrs(dd)):
            f.add("debug_fp_address")
    names = [s["name"] for s in desc["sections"]] + [y["name"] for y in desc["symbols"]]
    if any((not n) or (not n.isascii()) or any(c in n for c in ' "\\\n\t') for n in names):
        f.add("odd_name")
    return f


def _debug_addrs(dd):
    for l in dd["locations"]:
        yield l["addr"]
    for v in dd["variables"]:
        yield v["addr"]
    for f in dd["functions"]:
        yield f["begin"]
        yield f["end"]
        for v in f["vars"]:
            yield v["addr"]


# ---------------------------------------------------------------------------
# structural comparison (no ppci __eq__ involved)


def _cmp_attr(out, path, a, b, attrs):
    for name in attrs:
        va, vb = getattr(a, name), getattr(b, name)
        if type(va) is not type(vb) or va != vb:
            out.append("%s.%s: %r != %r" % (path, name, va, vb))


def _cmp_loc(out, path, a, b):
    _cmp_attr(out, path, a, b, ("filename", "row", "col", "length"))


def _cmp_addr(out, path, a, b):
    from ppci.binutils import debuginfo as di

    if type(a) is not type(b):
        out.append("%s: address %s != %s" % (path, type(a).__name__, type(b).__name__))
    elif isinstance(a, di.DebugAddress):
        _cmp_attr(out, path, a, b, ("symbol_id",))
    elif isinstance(a, di.FpOffsetAddress):
        # the frame offset is the information (the debugger adds it to FP); the
        # slot size of the StackLocation is not part of the serial format
        if a.offset.offset != b.offset.offset:
            out.append("%s: fp offset %r != %r" % (path, a.offset.offset, b.offset.offset))
    elif not isinstance(a, di.UnknownAddress):
        if a != b:
            out.append("%s: address %r != %r" % (path, a, b))


def _cmp_type(out, path, a, b, assumed):
    """Bisimulation of two debug type graphs (cycles allowed)."""
    from ppci.binutils import debuginfo as di

    key = (id(a), id(b))
    if key in assumed:
        return
    assumed.add(key)
    if type(a) is not type(b):
        out.append("%s: type %s != %s" % (path, type(a).__name__, type(b).__name__))
    elif isinstance(a, di.DebugBaseType):
        _cmp_attr(out, path, a, b, ("name", "size"))
    elif isinstance(a, di.DebugPointerType):
        _cmp_type(out, path + ".pointed_type", a.pointed_type, b.pointed_type, assumed)
    elif isinstance(a, di.DebugArrayType):
        _cmp_attr(out, path, a, b, ("size",))
        _cmp_type(out, path + ".element_type", a.element_type, b.element_type, assumed)
    elif isinstance(a, di.DebugStructType):
        if len(a.fields) != len(b.fields):
            out.append("%s: %d fields != %d fields" % (path, len(a.fields), len(b.fields)))
        for i, (fa, fb) in enumerate(zip(a.fields, b.fields)):
            p = "%s.fields[%d]" % (path, i)
            if fa.name != fb.name or fa.offset != fb.offset:
                out.append("%s: (%r, %r) != (%r, %r)" % (p, fa.name, fa.offset, fb.name, fb.offset))
            _cmp_type(out, p + ".typ", fa.typ, fb.typ, assumed)
    else:
        out.append("%s: unknown debug type %r" % (path, a))


def _cmp_var(out, path, a, b, assumed):
    _cmp_attr(out, path, a, b, ("name",))
    _cmp_loc(out, path + ".loc", a.loc, b.loc)
    _cmp_type(out, path + ".typ", a.typ, b.typ, assumed)
    _cmp_addr(out, path + ".address", a.address, b.address)


def _cmp_list(out, path, la, lb, fn):
    if len(la) != len(lb):
        out.append("%s: %d entries != %d entries" % (path, len(la), len(lb)))
    for i, (a, b) in enumerate(zip(la, lb)):
        fn("%s[%d]" % (path, i), a, b)


def diff_debug(a, b):
    """Differences between two DebugInfo objects (or None), as a list of strings."""
    out = []
    if a is None or b is None:
        if a is not b:
            out.append("debug_info: %s != %s" % ("present" if a else "None", "present" if b else "None"))
        return out
    assumed = set()

    def loc(p, x, y):
        _cmp_loc(out, p + ".loc", x.loc, y.loc)
        _cmp_addr(out, p + ".address", x.address, y.address)

    def func(p, x, y):
        _cmp_attr(out, p, x, y, ("name",))
        _cmp_loc(out, p + ".loc", x.loc, y.loc)
        _cmp_type(out, p + ".return_type", x.return_type, y.return_type, assumed)
        _cmp_addr(out, p + ".begin", x.begin, y.begin)
        _cmp_addr(out, p + ".end", x.end, y.end)

        def arg(q, u, v):
            _cmp_attr(out, q, u, v, ("name",))
            _cmp_type(out, q + ".typ", u.typ, v.typ, assumed)

        _cmp_list(out, p + ".arguments", x.arguments, y.arguments, arg)
        _cmp_list(out, p + ".variables", x.variables, y.variables, lambda q, u, v: _cmp_var(out, q, u, v, assumed))

    _cmp_list(out, "debug.locations", a.locations, b.locations, loc)
    _cmp_list(out, "debug.types", a.types, b.types, lambda p, x, y: _cmp_type(out, p, x, y, assumed))
    _cmp_list(out, "debug.variables", a.variables, b.variables, lambda p, x, y: _cmp_var(out, p, x, y, assumed))
    _cmp_list(out, "debug.functions", a.functions, b.functions, func)
    return out


def diff_objects(a, b):
    """Field-by-field differences between two object files, as a list of strings."""
    out = []
    ida, idb = a.arch.make_id_str(), b.arch.make_id_str()
    if ida != idb or type(a.arch) is not type(b.arch):
        out.append("arch: %r != %r" % (ida, idb))

    def sec(p, x, y):
        _cmp_attr(out, p, x, y, ("name", "address", "alignment"))
        if bytes(x.data) != bytes(y.data):
            out.append("%s.data: %d bytes %s.. != %d bytes %s.." % (p, len(x.data), bytes(x.data[:24]).hex(), len(y.data), bytes(y.data[:24]).hex()))

    def sym(p, x, y):
        _cmp_attr(out, p, x, y, ("id", "name", "binding", "value", "section", "typ", "size"))

    def rel(p, x, y):
        _cmp_attr(out, p, x, y, ("reloc_type", "symbol_id", "section", "offset", "addend"))

    def img(p, x, y):
        _cmp_attr(out, p, x, y, ("name", "address"))
        na, nb = [s.name for s in x.sections], [s.name for s in y.sections]
        if na != nb:
            out.append("%s.sections: %r != %r" % (p, na, nb))

    _cmp_list(out, "sections", a.sections, b.sections, sec)
    _cmp_list(out, "symbols", a.symbols, b.symbols, sym)
    _cmp_list(out, "relocations", a.relocations, b.relocations, rel)
    _cmp_list(out, "images", a.images, b.images, img)
    if type(a.entry_symbol_id) is not type(b.entry_symbol_id) or a.entry_symbol_id != b.entry_symbol_id:
        out.append("entry_symbol_id: %r != %r" % (a.entry_symbol_id, b.entry_symbol_id))
    out.extend(diff_debug(a.debug_info, b.debug_info))
    return out


def check_indexes(obj):
    """Internal consistency of an object's lookup tables with its lists."""
    out = []
    for s in obj.sections:
        if obj.section_map.get(s.name) is not s and [t.name for t in obj.sections].count(s.name) == 1:
            out.append("section_map[%r] is not the section in .sections" % (s.name,))
    for y in obj.symbols:
        if obj.symbols_by_id.get(y.id) is not y:
            out.append("symbols_by_id[%r] is not the symbol in .symbols" % (y.id,))
        if y.binding == "global" and obj.symbol_map.get(y.name) is not y:
            out.append("symbol_map[%r] is not the global symbol in .symbols" % (y.name,))
    for i in obj.images:
        if obj.image_map.get(i.name) is not i:
            out.append("image_map[%r] is not the image in .images" % (i.name,))
        for s in i.sections:
            if not any(s is t for t in obj.sections):
                out.append("image %r holds a section %r that is not one of the object's sections" % (i.name, s.name))
    return out


# ---------------------------------------------------------------------------
# strategies

ARCHS = ("arm", "x86_64", "riscv", "msp430", "avr", "xtensa", "riscv:rvc", "arm:thumb")

_RELOC_CACHE = {}


def reloc_types(arch):
    """Names of the relocation types the arch's ISA registers."""
    if arch not in _RELOC_CACHE:
        from ppci.api import get_arch

        _RELOC_CACHE[arch] = tuple(sorted(get_arch(arch).isa.relocation_map))
    return _RELOC_CACHE[arch]


ODD_NAMES = (
    "",
    " ",
    "a b",
    'q"uote',
    "back\\slash",
    "new\nline",
    "tab\t",
    "null",
    "0",
    "0x10",
    "-1",
    "$x",
    "%y",
    ".text",
    "code",
    "data",
    "_$sym_",
    "main",
    "é",
    "名前",
    "\U0001f600",
    "\x00",
    "\x7f",
    "x" * 300,
    "{}",
    "[1,2]",
    "a,b",
    "a:b",
)

_ident = st.text(alphabet="abcdefghijklmnopqrstuvwxyzABCDEFGHIJKLMNOPQRSTUVWXYZ_0123456789.$", min_size=1, max_size=12)


def names(odd=True):
    if not odd:
        return _ident
    return st.one_of(_ident, st.sampled_from(ODD_NAMES), st.text(max_size=8))


def data_descs(max_size):
    """DATA descriptions; sizes around the 30-byte chunking edge are favoured."""
    small = st.binary(max_size=40).map(lambda b: {"hex": b.hex()})
    edge = st.sampled_from((0, 1, 29, 30, 31, 59, 60, 61, 90, 255, 256)).flatmap(
        lambda n: st.binary(min_size=n, max_size=n).map(lambda b: {"hex": b.hex()})
    )
    seeded = st.builds(lambda n, s: {"n": n, "seed": s}, st.integers(0, max_size), st.integers(0, 2**32 - 1))
    return st.one_of(small, edge, seeded)


def _unique(base, taken):
    """Make `base` unique with respect to the set `taken` (deterministic)."""
    name = base
    k = 0
    while name in taken:
        k += 1
        name = "%s~%d" % (base, k)
    taken.add(name)
    return name


_locs = st.tuples(
    st.one_of(st.none(), st.just(""), st.sampled_from(("main.c", "a b/é.c3", "/tmp/x.c"))),
    st.integers(0, 5000),
    st.integers(0, 300),
    st.integers(0, 80),
).map(list)


@st.composite
def debug_descs(draw, symbol_ids, odd_names=True, recursive_types=True):
    """DEBUG descriptions.  symbol_ids: ids usable by fixed addresses (may be empty).

    recursive_types=False makes every type refer to earlier types only (no cycles at all).
    """
    nm = names(odd_names)
    ntypes = draw(st.integers(1, 7))
    kinds = ["base"] + [draw(st.sampled_from(("base", "base", "pointer", "array", "struct"))) for _ in range(ntypes - 1)]
    structs = [i for i, k in enumerate(kinds) if k == "struct"]
    types = []
    for i, kind in enumerate(kinds):
        if kind == "base":
            types.append({"kind": "base", "name": draw(nm), "size": draw(st.sampled_from((0, 1, 2, 4, 8, 16)))})
        elif kind in ("pointer", "array"):
            # earlier types, or (recursive types) any struct: a cycle always runs through a struct,
            # which is the only kind of cycle that can be built in memory
            targets = list(range(i)) + ([k for k in structs if k > i] if recursive_types else [])
            if recursive_types and structs and draw(st.booleans()):
                targets = structs
            to = draw(st.sampled_from(targets))
            if kind == "pointer":
                types.append({"kind": "pointer", "to": to})
            else:
                types.append({"kind": "array", "of": to, "size": draw(st.integers(0, 1000))})
        else:
            nf = draw(st.integers(0, 4))
            hi = ntypes - 1 if recursive_types else i - 1
            fields = [[draw(nm), draw(st.integers(0, hi)), draw(st.integers(0, 64))] for _ in range(nf)]
            types.append({"kind": "struct", "fields": fields})
    order = list(range(ntypes))
    if draw(st.booleans()):
        order = draw(st.permutations(order))
    tix = st.integers(0, ntypes - 1)

    def addr(kinds):
        k = draw(st.sampled_from(kinds))
        if k == "fixed" and symbol_ids:
            return {"k": "fixed", "sym": draw(st.sampled_from(symbol_ids))}
        if k == "fp":
            return {"k": "fp", "off": draw(st.integers(-300, 300)), "size": draw(st.sampled_from((1, 2, 4, 8, 13)))}
        return {"k": "unknown"}

    def var():
        return {"name": draw(nm), "type": draw(tix), "loc": draw(_locs), "addr": addr(("fixed", "fp", "unknown"))}

    locations = [{"loc": draw(_locs), "addr": addr(("fixed", "fixed", "unknown"))} for _ in range(draw(st.integers(0, 4)))]
    variables = [var() for _ in range(draw(st.integers(0, 3)))]
    functions = []
    for _ in range(draw(st.integers(0, 3))):
        functions.append(
            {
                "name": draw(nm),
                "loc": draw(_locs),
                "ret": draw(tix),
                "args": [[draw(nm), draw(tix)] for _ in range(draw(st.integers(0, 3)))],
                "begin": addr(("fixed", "unknown")),
                "end": addr(("fixed", "unknown")),
                "vars": [var() for _ in range(draw(st.integers(0, 3)))],
            }
        )
    return {"types": types, "listed": list(order), "locations": locations, "variables": variables, "functions": functions}


def _children(t):
    if t["kind"] == "pointer":
        return [t["to"]]
    if t["kind"] == "array":
        return [t["of"]]
    if t["kind"] == "struct":
        return [f[1] for f in t["fields"]]
    return []


def pointer_first_cycle(dd):
    """True when, reading the types in registration order (ids are given in order of first
    mention, resolution is depth first), a pointer/array type is reached again while it is
    still being resolved - the shape every ppci front-end avoids by registering the struct
    first.  Model of DictDeserializer.get_type's resolution order."""
    types = dd["types"]
    done = set()
    open_nonstruct = set()
    hit = []

    def visit(i):
        if i in done:
            return
        if i in open_nonstruct:
            hit.append(i)
            return
        t = types[i]
        if t["kind"] == "struct":
            done.add(i)
            for c in _children(t):
                visit(c)
        else:
            open_nonstruct.add(i)
            for c in _children(t):
                visit(c)
            open_nonstruct.discard(i)
            done.add(i)

    for i in dd["listed"]:
        visit(i)
    # types only reachable from variables/functions are resolved afterwards
    for v in dd["variables"]:
        visit(v["type"])
    for f in dd["functions"]:
        visit(f["ret"])
        for _, ti in f["args"]:
            visit(ti)
        for v in f["vars"]:
            visit(v["type"])
    return bool(hit)


@st.composite
def object_descs(
    draw,
    arch=None,
    max_data=600,
    odd_names=True,
    global_prefix="",
    allow_entry=True,
    debug=True,
    recursive_types=True,
    extern_names=(),
):
    """Object descriptions satisfying the invariants listed in the module docstring.

    global_prefix: prepended to the names of *defined* global symbols (keeps several objects
    of one link free of duplicate definitions); extern_names: names that undefined global
    symbols may take (to refer to another object's definitions).
    """
    arch = arch or draw(st.sampled_from(ARCHS))
    nm = names(odd_names)
    taken = set()
    sections = []
    for _ in range(draw(st.integers(0, 4))):
        sections.append(
            {
                "name": _unique(draw(st.one_of(st.sampled_from(("code", "data", "rodata", "bss")), nm)), taken),
                "address": draw(st.one_of(st.just(0), st.integers(0, 2**32 - 1), st.sampled_from((2**32, 2**40 + 4, 2**64 - 16)))),
                "alignment": draw(st.sampled_from((1, 2, 4, 4, 8, 16, 64, 0x1000))),
                "data": draw(data_descs(max_data)),
            }
        )
    secnames = [s["name"] for s in sections]
    symbols = []
    ids = draw(st.lists(st.integers(0, 40), unique=True, max_size=8))
    if ids and draw(st.booleans()):
        ids = sorted(ids)
    gtaken = set()
    for i in ids:
        binding = draw(st.sampled_from(("local", "global")))
        kind = draw(st.sampled_from(("defined", "defined", "undefined", "absolute")))
        if kind == "defined" and not secnames:
            kind = "absolute"
        base = draw(nm)
        if kind == "undefined" and extern_names and draw(st.booleans()):
            base = draw(st.sampled_from(list(extern_names)))
        elif binding == "global" and kind != "undefined":
            base = global_prefix + base
        name = _unique(base, gtaken) if binding == "global" else base
        if kind == "undefined":
            value, section = None, None
        elif kind == "absolute":
            value, section = draw(st.integers(-16, 2**32)), None
        else:
            section = draw(st.sampled_from(secnames))
            value = draw(st.one_of(st.integers(0, 64), st.integers(0, 2**20)))
        symbols.append(
            {
                "id": i,
                "name": name,
                "binding": binding,
                "value": value,
                "section": section,
                "typ": draw(st.sampled_from(("object", "func"))),
                "size": draw(st.sampled_from((0, 0, 1, 4, 100))),
            }
        )
    relocations = []
    if ids and secnames:
        rts = reloc_types(arch)
        for _ in range(draw(st.integers(0, 6))):
            relocations.append(
                {
                    "type": draw(st.sampled_from(rts)),
                    "symbol_id": draw(st.sampled_from(ids)),
                    "section": draw(st.sampled_from(secnames)),
                    "offset": draw(st.integers(0, 2**16)),
                    "addend": draw(st.one_of(st.integers(-8, 8), st.integers(-(2**31), 2**31), st.sampled_from((-1, -(2**63), 2**64 - 1)))),
                }
            )
    images = []
    if secnames:
        itaken = set()
        for _ in range(draw(st.integers(0, 2))):
            images.append(
                {
                    "name": _unique(draw(nm), itaken),
                    "address": draw(st.integers(0, 2**32)),
                    "sections": list(draw(st.lists(st.sampled_from(secnames), unique=True, max_size=len(secnames)))),
                }
            )
    entry = draw(st.sampled_from(ids)) if (ids and allow_entry and draw(st.booleans())) else None
    dd = None
    if debug and draw(st.booleans()):
        dd = draw(debug_descs(ids, odd_names=odd_names, recursive_types=recursive_types))
    return {
        "arch": arch,
        "sections": sections,
        "symbols": symbols,
        "relocations": relocations,
        "images": images,
        "entry": entry,
        "debug": dd,
    }
