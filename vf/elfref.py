"""A small ELF reader written from the ELF specification (gABI chapters 4 and 5:
ELF header, section header table, symbol table, relocation entries with addend,
program header table) - independent of ppci.format.elf.  Used by C17.

parse_elf(data) -> dict with header fields, sections, symbols, relocations, segments.
"""

import struct

SHT_NULL, SHT_PROGBITS, SHT_SYMTAB, SHT_STRTAB, SHT_RELA, SHT_NOBITS, SHT_REL = 0, 1, 2, 3, 4, 8, 9
PT_LOAD = 1
SHN_UNDEF, SHN_ABS = 0, 0xFFF1
EM = {"x86_64": 62, "arm": 40, "riscv": 243, "xtensa": 94, "microblaze": 189}
ET_REL, ET_EXEC = 1, 2


class ElfFormatError(Exception):
    pass


def _cstr(tab, off):
    if off >= len(tab):
        raise ElfFormatError("string offset %d beyond table of %d bytes" % (off, len(tab)))
    end = tab.find(b"\0", off)
    if end < 0:
        raise ElfFormatError("unterminated string at %d" % off)
    return tab[off:end].decode("latin-1")


def parse_elf(data):
    if data[:4] != b"\x7fELF":
        raise ElfFormatError("bad magic")
    ei_class, ei_data, ei_version = data[4], data[5], data[6]
    if ei_class not in (1, 2) or ei_data not in (1, 2) or ei_version != 1:
        raise ElfFormatError("bad e_ident class=%d data=%d version=%d" % (ei_class, ei_data, ei_version))
    e = "<" if ei_data == 1 else ">"
    is64 = ei_class == 2
    if is64:
        hfmt, shfmt, phfmt, symfmt, relafmt = "HHIQQQIHHHHHH", "IIQQQQIIQQ", "IIQQQQQQ", "IBBHQQ", "QQq"
    else:
        hfmt, shfmt, phfmt, symfmt, relafmt = "HHIIIIIHHHHHH", "IIIIIIIIII", "IIIIIIII", "IIIBBH", "IIi"

    def unpack(fmt, off, what):
        size = struct.calcsize(e + fmt)
        if off < 0 or off + size > len(data):
            raise ElfFormatError("%s at offset %d runs past the end of the file (%d bytes)" % (what, off, len(data)))
        return struct.unpack_from(e + fmt, data, off)

    (e_type, e_machine, e_version, e_entry, e_phoff, e_shoff, e_flags, e_ehsize, e_phentsize, e_phnum, e_shentsize, e_shnum, e_shstrndx) = unpack(hfmt, 16, "ELF header")
    res = {
        "class": 64 if is64 else 32,
        "endian": "little" if ei_data == 1 else "big",
        "osabi": data[7],
        "type": e_type,
        "machine": e_machine,
        "version": e_version,
        "entry": e_entry,
        "phoff": e_phoff,
        "shoff": e_shoff,
        "flags": e_flags,
        "ehsize": e_ehsize,
        "phentsize": e_phentsize,
        "phnum": e_phnum,
        "shentsize": e_shentsize,
        "shnum": e_shnum,
        "shstrndx": e_shstrndx,
    }
    if e_ehsize != 16 + struct.calcsize(e + hfmt):
        raise ElfFormatError("e_ehsize %d" % e_ehsize)
    if e_shnum and e_shentsize != struct.calcsize(e + shfmt):
        raise ElfFormatError("e_shentsize %d" % e_shentsize)
    if e_phnum and e_phentsize != struct.calcsize(e + phfmt):
        raise ElfFormatError("e_phentsize %d" % e_phentsize)
    # section headers
    secs = []
    for i in range(e_shnum):
        f = unpack(shfmt, e_shoff + i * e_shentsize, "section header %d" % i)
        keys = ("name_off", "type", "flags", "addr", "offset", "size", "link", "info", "addralign", "entsize")
        secs.append(dict(zip(keys, f)))
    if e_shnum:
        if not (0 < e_shstrndx < e_shnum) or secs[e_shstrndx]["type"] != SHT_STRTAB:
            raise ElfFormatError("e_shstrndx %d does not name a string table" % e_shstrndx)
        if any(secs[0].values()):
            raise ElfFormatError("section header 0 is not all zero")
    for i, s in enumerate(secs):
        if s["type"] not in (SHT_NULL, SHT_NOBITS):
            if s["offset"] + s["size"] > len(data):
                raise ElfFormatError("section %d [%d,+%d) runs past the end of the file" % (i, s["offset"], s["size"]))
            s["data"] = data[s["offset"] : s["offset"] + s["size"]]
        else:
            s["data"] = b""
    if e_shnum:
        shstr = secs[e_shstrndx]["data"]
        for s in secs:
            s["name"] = _cstr(shstr, s["name_off"]) if s["type"] != SHT_NULL or s["name_off"] else ""
    res["sections"] = secs
    # symbol tables
    res["symbols"] = []
    res["symtab_index"] = None
    for i, s in enumerate(secs):
        if s["type"] != SHT_SYMTAB:
            continue
        res["symtab_index"] = i
        esz = struct.calcsize(e + symfmt)
        if s["entsize"] != esz or s["size"] % esz:
            raise ElfFormatError("symtab entsize %d size %d" % (s["entsize"], s["size"]))
        if not (0 < s["link"] < e_shnum) or secs[s["link"]]["type"] != SHT_STRTAB:
            raise ElfFormatError("symtab sh_link %d is not a string table" % s["link"])
        strtab = secs[s["link"]]["data"]
        syms = []
        for k in range(s["size"] // esz):
            f = struct.unpack_from(e + symfmt, s["data"], k * esz)
            if is64:
                st_name, st_info, st_other, st_shndx, st_value, st_size = f
            else:
                st_name, st_value, st_size, st_info, st_other, st_shndx = f
            syms.append({"name": _cstr(strtab, st_name), "value": st_value, "size": st_size, "bind": st_info >> 4, "type": st_info & 15, "other": st_other, "shndx": st_shndx})
        if syms and any(syms[0][k] for k in ("value", "size", "bind", "type", "shndx")) or (syms and syms[0]["name"]):
            raise ElfFormatError("symbol 0 is not the null symbol")
        # sh_info: one greater than the index of the last local symbol
        nloc = s["info"]
        for k, y in enumerate(syms):
            if (y["bind"] == 0) != (k < nloc):
                raise ElfFormatError("symbol %d (%s) has binding %d but sh_info (first non-local) is %d" % (k, y["name"], y["bind"], nloc))
        res["symbols"] = syms
    # relocation sections
    res["relocations"] = []
    for i, s in enumerate(secs):
        if s["type"] == SHT_REL:
            raise ElfFormatError("unexpected SHT_REL section")
        if s["type"] != SHT_RELA:
            continue
        esz = struct.calcsize(e + relafmt)
        if s["entsize"] != esz or s["size"] % esz:
            raise ElfFormatError("rela entsize %d size %d" % (s["entsize"], s["size"]))
        if s["link"] != res["symtab_index"]:
            raise ElfFormatError("rela section %r: sh_link %d is not the symbol table (%r)" % (s["name"], s["link"], res["symtab_index"]))
        if not (0 < s["info"] < e_shnum):
            raise ElfFormatError("rela section %r: sh_info %d is not a section index" % (s["name"], s["info"]))
        for k in range(s["size"] // esz):
            r_offset, r_info, r_addend = struct.unpack_from(e + relafmt, s["data"], k * esz)
            if is64:
                sym, typ = r_info >> 32, r_info & 0xFFFFFFFF
            else:
                sym, typ = r_info >> 8, r_info & 0xFF
            if sym >= len(res["symbols"]):
                raise ElfFormatError("relocation names symbol %d of %d" % (sym, len(res["symbols"])))
            res["relocations"].append({"section_index": s["info"], "offset": r_offset, "sym": sym, "type": typ, "addend": r_addend, "table": s["name"]})
    # program headers
    segs = []
    for i in range(e_phnum):
        f = unpack(phfmt, e_phoff + i * e_phentsize, "program header %d" % i)
        if is64:
            p_type, p_flags, p_offset, p_vaddr, p_paddr, p_filesz, p_memsz, p_align = f
        else:
            p_type, p_offset, p_vaddr, p_paddr, p_filesz, p_memsz, p_flags, p_align = f
        if p_offset + p_filesz > len(data):
            raise ElfFormatError("segment %d [%d,+%d) runs past the end of the file" % (i, p_offset, p_filesz))
        segs.append({"type": p_type, "flags": p_flags, "offset": p_offset, "vaddr": p_vaddr, "paddr": p_paddr, "filesz": p_filesz, "memsz": p_memsz, "align": p_align, "data": data[p_offset : p_offset + p_filesz]})
    res["segments"] = segs
    return res


def check_loadable(segments):
    """gABI, program header: 'loadable process segments must have congruent values
    for p_vaddr and p_offset, modulo the page size'; p_align is 0, 1 or a power of
    two; p_filesz <= p_memsz.  Returns message or None."""
    for i, g in enumerate(segments):
        if g["type"] != PT_LOAD:
            continue
        al = g["align"]
        if al & (al - 1):
            return "PT_LOAD segment %d: p_align 0x%x is not a power of two" % (i, al)
        if g["filesz"] > g["memsz"]:
            return "PT_LOAD segment %d: p_filesz %d > p_memsz %d" % (i, g["filesz"], g["memsz"])
        if al > 1 and g["vaddr"] % al != g["offset"] % al:
            return "PT_LOAD segment %d: p_offset 0x%x and p_vaddr 0x%x are not congruent modulo p_align 0x%x" % (i, g["offset"], g["vaddr"], al)
    return None
