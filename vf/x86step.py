"""Native single-stepping of x86-64 instructions (engine of C07, DESIGN.md section 4).

The stepper is the C program vf/x86step.c, built lazily with gcc into /verif/.build/ (keyed by a
hash of its source; tools/prebuild.sh builds it ahead of time).  It runs as a child process of
each worker (a bad instruction can only corrupt the child; it is restarted and the batch bisected)
and executes batches of (instruction bytes, register file, arena seed) cases and reports, per case, the register
file after the instruction, a hash of the scratch arena and which arena bytes changed.  Faults
(SIGSEGV/SIGILL/SIGFPE/SIGBUS/SIGTRAP) are caught inside the stepper and reported per case.

A *state* is {"g": [16 ints], "f": int, "x": [16 ints]}: the GPRs in hardware numbering
(rax rcx rdx rbx rsp rbp rsi rdi r8..r15), the six arithmetic flags as rflags bits, and
xmm0..15 as 128-bit integers.

This module also holds the architectural register table (REGTABLE) used by C07: for every ppci
x86-64 register (class name, register name) the containing full register, bit offset and width,
written from the Intel SDM vol. 1, 3.4.1 (general-purpose registers, fig. 3-5) and 10.2.2 (XMM
registers; scalar single = bits 0-31, scalar double = bits 0-63).
"""

import hashlib
import os
import struct
import subprocess

from .core import VERIF, HarnessError

ARENA_BASE = 0x20000000
ARENA_SIZE = 8192
CODE_BASE = 0x30000000
MAXCODE = 32
FLAG_MASK = 0x8D5  # CF PF AF ZF SF OF
M64 = (1 << 64) - 1
M128 = (1 << 128) - 1

GPR = ("rax", "rcx", "rdx", "rbx", "rsp", "rbp", "rsi", "rdi", "r8", "r9", "r10", "r11", "r12", "r13", "r14", "r15")

_SRC = os.path.join(VERIF, "vf", "x86step.c")
_CFLAGS = ["-O1", "-no-pie", "-fno-stack-protector", "-Wall"]


def _exe_path():
    h = hashlib.blake2b(open(_SRC, "rb").read() + " ".join(_CFLAGS).encode(), digest_size=8).hexdigest()
    return os.path.join(VERIF, ".build", "x86step-%s" % h)


def build():
    """Path of the stepper executable; builds it when missing (atomic rename, safe under races)."""
    exe = _exe_path()
    if os.path.exists(exe):
        return exe
    os.makedirs(os.path.dirname(exe), exist_ok=True)
    tmp = "%s.tmp%d" % (exe, os.getpid())
    p = subprocess.run(["gcc"] + _CFLAGS + ["-o", tmp, _SRC], capture_output=True)
    if p.returncode != 0:
        raise HarnessError("building x86step failed:\n" + p.stderr.decode(errors="replace"))
    os.replace(tmp, exe)
    return exe


# ---------------------------------------------------------------------------
# register table: (class name, register name) -> (file, index, bit offset, width)

REGTABLE = {}


def _fill_table():
    n64 = GPR
    n32 = ("eax", "ecx", "edx", "ebx", "esp", "ebp", "esi", "edi") + tuple("r%dd" % i for i in range(8, 16))
    n16 = ("ax", "cx", "dx", "bx", "sp", "bp", "si", "di") + tuple("r%dw" % i for i in range(8, 16))
    low8 = ("al", "cl", "dl", "bl")
    high8 = ("ah", "ch", "dh", "bh")
    for i in range(16):
        REGTABLE[("Register64", n64[i])] = ("g", i, 0, 64)
        REGTABLE[("Register32", n32[i])] = ("g", i, 0, 32)
        REGTABLE[("Register16", n16[i])] = ("g", i, 0, 16)
        REGTABLE[("XmmRegisterDouble", "xmm%d" % i)] = ("x", i, 0, 64)
        REGTABLE[("XmmRegisterSingle", "xmm%d" % i)] = ("x", i, 0, 32)
    for i in range(4):
        REGTABLE[("Register8", low8[i])] = ("g", i, 0, 8)
        REGTABLE[("Register8", high8[i])] = ("g", i, 8, 8)  # only without a REX prefix


_fill_table()


def locate(reg):
    """(file, index, offset, width) of a ppci register object, or None (rip, x87, unknown)."""
    return REGTABLE.get((type(reg).__name__, reg.name))


# ---------------------------------------------------------------------------
# batch execution

_STATE = struct.Struct("<16QQQ256s")
_IN_HEAD = struct.Struct("<IIQ32s")
_OUT_HEAD = struct.Struct("<IIIIIIQQ")
IN_SIZE = _IN_HEAD.size + _STATE.size
OUT_SIZE = _OUT_HEAD.size + _STATE.size
assert IN_SIZE == 448 and OUT_SIZE == 440


GPR_OFF = _IN_HEAD.size  # offset of gpr[0] inside an input record
XMM_OFF = _IN_HEAD.size + 144  # offset of xmm0


def status_name(status):
    import signal

    if status == CRASHED:
        return "stepper crashed"
    try:
        return signal.Signals(status).name
    except ValueError:
        return "signal %d" % status


def pack_record(code, arena_seed, st):
    if not 0 < len(code) <= MAXCODE:
        raise HarnessError("instruction of %d bytes" % len(code))
    return _IN_HEAD.pack(len(code), 0, arena_seed & M64, bytes(code)) + pack_state(st)


def run_packed(recs, chunk=None):
    """[input record bytes] -> [Result]"""
    out = []
    a = 0
    while a < len(recs):
        limit = _server()[2]
        step = min(chunk or limit, limit)
        out.extend(_run_chunk(recs[a : a + step]))
        a += step
    return out


def pack_state(st):
    x = b"".join(v.to_bytes(16, "little") for v in st["x"])
    return _STATE.pack(*st["g"], st["f"] & FLAG_MASK, 0, x)


def unpack_state(buf, off):
    t = _STATE.unpack_from(buf, off)
    xb = t[18]
    return {"g": list(t[:16]), "f": t[16], "x": [int.from_bytes(xb[16 * i : 16 * i + 16], "little") for i in range(16)]}


CRASHED = -1  # status of a case that killed the stepper itself


class Result:
    """One executed case.  `changed` is a bit set (bit i: gpr i, bit 16+i: low half of xmm i differs
    from the input); the register file is decoded lazily (`state`, `gpr(i)`, `xmm(i)`)."""

    __slots__ = ("status", "changed", "arena_hash", "nchanged", "first", "last", "fault_addr", "_raw", "_off", "_state")

    def __init__(self, status, changed, arena_hash, nchanged, first, last, fault_addr, raw, off):
        self.status = status
        self.changed = changed
        self.arena_hash = arena_hash
        self.nchanged = nchanged
        self.first = first
        self.last = last
        self.fault_addr = fault_addr
        self._raw = raw
        self._off = off
        self._state = None

    @property
    def state(self):
        if self._state is None and self._raw is not None:
            self._state = unpack_state(self._raw, self._off)
        return self._state

    def gpr(self, i):
        o = self._off + 8 * i
        return int.from_bytes(self._raw[o : o + 8], "little")

    def xmm(self, i):
        o = self._off + 144 + 16 * i
        return int.from_bytes(self._raw[o : o + 16], "little")

    def reg(self, f, i):
        return self.gpr(i) if f == "g" else self.xmm(i)


_SERVER = []  # [(pid of the owning process, Popen, request size limit in records)]
_PIPE_SZ = 1 << 20


def _server():
    """The stepper process of this Python process (started lazily, one per process: a forked
    worker starts its own).  Requests and responses travel over pipes enlarged to 1 MiB so that a
    whole request and its response fit without the two sides waiting for each other."""
    import atexit
    import fcntl

    if _SERVER and _SERVER[0][0] == os.getpid() and _SERVER[0][1].poll() is None:
        return _SERVER[0]
    del _SERVER[:]
    p = subprocess.Popen([build()], stdin=subprocess.PIPE, stdout=subprocess.PIPE, stderr=subprocess.DEVNULL, bufsize=0, close_fds=True)
    limit = 96  # records per request that fit a default 64 KiB pipe in both directions
    try:
        F_SETPIPE_SZ = getattr(fcntl, "F_SETPIPE_SZ", 1031)
        a = fcntl.fcntl(p.stdin.fileno(), F_SETPIPE_SZ, _PIPE_SZ)
        b = fcntl.fcntl(p.stdout.fileno(), F_SETPIPE_SZ, _PIPE_SZ)
        limit = max(96, (min(a, b) - 4096) // IN_SIZE)
    except OSError:
        pass
    ent = (os.getpid(), p, limit)
    _SERVER.append(ent)

    def _stop(p=p, pid=os.getpid()):
        if os.getpid() == pid and p.poll() is None:
            try:
                p.stdin.close()
                p.wait(timeout=5)
            except Exception:
                p.kill()

    atexit.register(_stop)
    return ent


def _kill_server():
    if _SERVER:
        p = _SERVER[0][1]
        if _SERVER[0][0] == os.getpid():
            try:
                p.kill()
                p.wait()
            except Exception:
                pass
        del _SERVER[:]


def _read_exact(f, n):
    chunks = []
    while n:
        b = f.read(n)
        if not b:
            return None
        chunks.append(b)
        n -= len(b)
    return b"".join(chunks)


def _run_raw(recs):
    """One request.  Returns the raw response or None when the stepper died on it."""
    _, p, _ = _server()
    n = len(recs)
    try:
        p.stdin.write(b"C07I" + struct.pack("<I", n) + b"".join(recs))
        out = _read_exact(p.stdout, 8 + n * OUT_SIZE)
    except (BrokenPipeError, OSError):
        out = None
    if out is None or out[:4] != b"C07O":
        _kill_server()
        return None
    return out


def run_batch(items, chunk=None):
    """items: [(code bytes, state, arena_seed)] -> [Result].  A case that kills the stepper process
    is isolated by bisection and gets status CRASHED."""
    return run_packed([pack_record(code, seed, st) for code, st, seed in items], chunk)


def _run_chunk(recs):
    raw = _run_raw(recs)
    if raw is None:
        if len(recs) == 1:
            return [Result(CRASHED, 0, 0, 0, 0, 0, 0, None, 0)]
        h = len(recs) // 2
        return _run_chunk(recs[:h]) + _run_chunk(recs[h:])
    res = []
    for i in range(len(recs)):
        off = 8 + i * OUT_SIZE
        status, changed, nch, first, last, _, ah, fa = _OUT_HEAD.unpack_from(raw, off)
        res.append(Result(status, changed, ah, nch, first, last, fa, raw, off + _OUT_HEAD.size))
    return res


# ---------------------------------------------------------------------------
# deterministic state generation from a seed (splitmix64; the seed is the Hypothesis-drawn part)


class Rng:
    def __init__(self, seed):
        self.s = seed & M64

    def next(self):
        self.s = (self.s + 0x9E3779B97F4A7C15) & M64
        z = self.s
        z = ((z ^ (z >> 30)) * 0xBF58476D1CE4E5B9) & M64
        z = ((z ^ (z >> 27)) * 0x94D049BB133111EB) & M64
        return z ^ (z >> 31)

    def below(self, n):
        return self.next() % n

    def pick(self, seq):
        return seq[self.next() % len(seq)]


_F64 = [struct.unpack("<Q", struct.pack("<d", v))[0] for v in (0.0, -0.0, 1.0, -1.0, 2.5, -7.25, 1e10, 1e-10, 3.0, 65536.0, 2147483648.0, -2147483649.0, 1e300, 1e-300)]
_F64 += [0x7FF0000000000000, 0xFFF0000000000000, 0x7FF8000000000001, 0x0000000000000001]
_F32 = [struct.unpack("<I", struct.pack("<f", v))[0] for v in (0.0, -0.0, 1.0, -1.0, 2.5, -7.25, 1e10, 1e-10, 3.0, 65536.0, 2147483648.0, 1e38)]
_F32 += [0x7F800000, 0xFF800000, 0x7FC00001, 0x00000001]


def biased64(rng):
    """Boundary-biased 64-bit value: 0, +-1, 2^k, 2^k - 1, sign boundaries of 8/16/32/64 bits, random."""
    c = rng.below(10)
    if c == 0:
        return rng.pick((0, 1, 2, M64, M64 - 1, 0x7F, 0x80, 0xFF, 0x100, 0x7FFF, 0x8000, 0xFFFF, 0x10000, 0x7FFFFFFF, 0x80000000, 0xFFFFFFFF, 0x100000000, 0x7FFFFFFFFFFFFFFF, 0x8000000000000000))
    if c == 1:
        k = rng.below(64)
        return ((1 << k) - rng.below(2)) & M64
    if c == 2:
        k = rng.below(64)
        return (-(1 << k) + rng.below(2)) & M64
    if c == 3:
        return rng.below(256)
    if c == 4:
        return (-rng.below(256)) & M64
    if c == 5:
        return rng.next() & 0xFFFFFFFF
    return rng.next()


def biased_xmm(rng):
    c = rng.below(6)
    if c == 0:
        lo = rng.pick(_F64)
    elif c == 1:
        lo = rng.pick(_F32) | (rng.next() & 0xFFFFFFFF00000000)
    elif c == 2:
        lo = rng.pick(_F32) | (rng.pick(_F32) << 32)
    elif c == 3:
        # moderate doubles: random mantissa, exponent near 1.0
        lo = (rng.next() & 0x800FFFFFFFFFFFFF) | ((1023 + rng.below(40) - 20) << 52)
    elif c == 4:
        # moderate singles in both lanes
        a = (rng.next() & 0x807FFFFF) | ((127 + rng.below(40) - 20) << 23)
        b = (rng.next() & 0x807FFFFF) | ((127 + rng.below(40) - 20) << 23)
        lo = a | (b << 32)
    else:
        lo = rng.next()
    hi = rng.pick(_F64) if rng.below(3) == 0 else rng.next()
    return lo | (hi << 64)


def random_state(rng):
    return {
        "g": [biased64(rng) for _ in range(16)],
        "f": rng.next() & FLAG_MASK,
        "x": [biased_xmm(rng) for _ in range(16)],
    }


def copy_state(st):
    return {"g": list(st["g"]), "f": st["f"], "x": list(st["x"])}
