"""Native single-stepping of x86-64 instructions (engine of C07, DESIGN.md section 4).

The stepper is the C program vf/x86step.c, built lazily with gcc into /verif/.build/ (keyed by a
hash of its source; tools/prebuild.sh builds it ahead of time).  One process executes a whole
batch of (instruction bytes, register file, arena seed) cases and reports, per case, the register
file after the instruction, a hash of the scratch arena and which arena bytes changed.  Faults
(SIGSEGV/SIGILL/SIGFPE/SIGBUS/SIGTRAP) are caught inside the stepper and reported per case.

A *state* is {"g": [16 ints], "f": int, "x": [16 ints]}: the GPRs in hardware numbering
(rax rcx rdx rbx rsp rbp rsi rdi r8..r15), the six arithmetic flags as rflags bits, and
xmm0..15 as 128-bit integers.

This module also holds the architectural register table (REGTABLE) used by C07: for every ppci
x86-64 register (class name, register name) the containing full register, bit offset and width,
written from the Intel SDM vol. 1, 3.4.1 (general-purpose registers, fig. 3-5) and 10.2.2 (XMM
registers; scalar single = bits 0-31, scalar double = bits 0-63).
"""

import hashlib
import os
import struct
import subprocess

from .core import VERIF, HarnessError

ARENA_BASE = 0x20000000
ARENA_SIZE = 8192
CODE_BASE = 0x30000000
MAXCODE = 32
FLAG_MASK = 0x8D5  # CF PF AF ZF SF OF
M64 = (1 << 64) - 1
M128 = (1 << 128) - 1

GPR = ("rax", "rcx", "rdx", "rbx", "rsp", "rbp", "rsi", "rdi", "r8", "r9", "r10", "r11", "r12", "r13", "r14", "r15")

_SRC = os.path.join(VERIF, "vf", "x86step.c")
_CFLAGS = ["-O1", "-no-pie", "-fno-stack-protector", "-Wall"]


def _exe_path():
    h = hashlib.blake2b(open(_SRC, "rb").read() + " ".join(_CFLAGS).encode(), digest_size=8).hexdigest()
    return os.path.join(VERIF, ".build", "x86step-%s" % h)


def build():
    """Path of the stepper executable; builds it when missing (atomic rename, safe under races)."""
    exe = _exe_path()
    if os.path.exists(exe):
        return exe
    os.makedirs(os.path.dirname(exe), exist_ok=True)
    tmp = "%s.tmp%d" % (exe, os.getpid())
    p = subprocess.run(["gcc"] + _CFLAGS + ["-o", tmp, _SRC], capture_output=True)
    if p.returncode != 0:
        raise HarnessError("building x86step failed:\n" + p.stderr.decode(errors="replace"))
    os.replace(tmp, exe)
    return exe


# ---------------------------------------------------------------------------
# register table: (class name, register name) -> (file, index, bit offset, width)

REGTABLE = {}


def _fill_table():
    n64 = GPR
    n32 = ("eax", "ecx", "edx", "ebx", "esp", "ebp", "esi", "edi") + tuple("r%dd" % i for i in range(8, 16))
    n16 = ("ax", "cx", "dx", "bx", "sp", "bp", "si", "di") + tuple("r%dw" % i for i in range(8, 16))
    low8 = ("al", "cl", "dl", "bl")
    high8 = ("ah", "ch", "dh", "bh")
    for i in range(16):
        REGTABLE[("Register64", n64[i])] = ("g", i, 0, 64)
        REGTABLE[("Register32", n32[i])] = ("g", i, 0, 32)
        REGTABLE[("Register16", n16[i])] = ("g", i, 0, 16)
        REGTABLE[("XmmRegisterDouble", "xmm%d" % i)] = ("x", i, 0, 64)
        REGTABLE[("XmmRegisterSingle", "xmm%d" % i)] = ("x", i, 0, 32)
    for i in range(4):
        REGTABLE[("Register8", low8[i])] = ("g", i, 0, 8)
        REGTABLE[("Register8", high8[i])] = ("g", i, 8, 8)  # only without a REX prefix


_fill_table()


def locate(reg):
    """(file, index, offset, width) of a ppci register object, or None (rip, x87, unknown)."""
    return REGTABLE.get((type(reg).__name__, reg.name))


# ---------------------------------------------------------------------------
# batch execution

_STATE = struct.Struct("<16QQQ256s")
_IN_HEAD = struct.Struct("<IIQ32s")
_OUT_HEAD = struct.Struct("<IIIIQQ")
IN_SIZE = _IN_HEAD.size + _STATE.size
OUT_SIZE = _OUT_HEAD.size + _STATE.size
assert IN_SIZE == 448 and OUT_SIZE == 432


def pack_state(st):
    x = b"".join(v.to_bytes(16, "little") for v in st["x"])
    return _STATE.pack(*st["g"], st["f"] & FLAG_MASK, 0, x)


def unpack_state(buf, off):
    t = _STATE.unpack_from(buf, off)
    xb = t[18]
    return {"g": list(t[:16]), "f": t[16], "x": [int.from_bytes(xb[16 * i : 16 * i + 16], "little") for i in range(16)]}


class Result:
    __slots__ = ("status", "state", "arena_hash", "nchanged", "first", "last", "fault_addr")

    def __init__(self, status, state, arena_hash, nchanged, first, last, fault_addr):
        self.status = status
        self.state = state
        self.arena_hash = arena_hash
        self.nchanged = nchanged
        self.first = first
        self.last = last
        self.fault_addr = fault_addr


CRASHED = -1  # status of a case that killed the stepper itself


def _run_raw(exe, blob, n):
    p = subprocess.run([exe], input=b"C07I" + struct.pack("<I", n) + blob, capture_output=True, timeout=300)
    if p.returncode != 0 or len(p.stdout) != 8 + n * OUT_SIZE or p.stdout[:4] != b"C07O":
        return None
    return p.stdout


def run_batch(items, chunk=4096):
    """items: [(code bytes, state, arena_seed)] -> [Result].  A case that kills the stepper process
    is isolated by bisection and gets status CRASHED."""
    exe = build()
    out = []
    for a in range(0, len(items), chunk):
        part = items[a : a + chunk]
        recs = []
        for code, st, seed in part:
            if not 0 < len(code) <= MAXCODE:
                raise HarnessError("instruction of %d bytes" % len(code))
            recs.append(_IN_HEAD.pack(len(code), 0, seed & M64, bytes(code)) + pack_state(st))
        out.extend(_run_chunk(exe, recs))
    return out


def _run_chunk(exe, recs):
    try:
        raw = _run_raw(exe, b"".join(recs), len(recs))
    except subprocess.TimeoutExpired:
        raw = None
    if raw is None:
        if len(recs) == 1:
            return [Result(CRASHED, None, 0, 0, 0, 0, 0)]
        h = len(recs) // 2
        return _run_chunk(exe, recs[:h]) + _run_chunk(exe, recs[h:])
    res = []
    for i in range(len(recs)):
        off = 8 + i * OUT_SIZE
        status, nch, first, last, ah, fa = _OUT_HEAD.unpack_from(raw, off)
        res.append(Result(status, unpack_state(raw, off + _OUT_HEAD.size), ah, nch, first, last, fa))
    return res


# ---------------------------------------------------------------------------
# deterministic state generation from a seed (splitmix64; the seed is the Hypothesis-drawn part)


class Rng:
    def __init__(self, seed):
        self.s = seed & M64

    def next(self):
        self.s = (self.s + 0x9E3779B97F4A7C15) & M64
        z = self.s
        z = ((z ^ (z >> 30)) * 0xBF58476D1CE4E5B9) & M64
        z = ((z ^ (z >> 27)) * 0x94D049BB133111EB) & M64
        return z ^ (z >> 31)

    def below(self, n):
        return self.next() % n

    def pick(self, seq):
        return seq[self.next() % len(seq)]


_F64 = [struct.unpack("<Q", struct.pack("<d", v))[0] for v in (0.0, -0.0, 1.0, -1.0, 2.5, -7.25, 1e10, 1e-10, 3.0, 65536.0, 2147483648.0, -2147483649.0, 1e300, 1e-300)]
_F64 += [0x7FF0000000000000, 0xFFF0000000000000, 0x7FF8000000000001, 0x0000000000000001]
_F32 = [struct.unpack("<I", struct.pack("<f", v))[0] for v in (0.0, -0.0, 1.0, -1.0, 2.5, -7.25, 1e10, 1e-10, 3.0, 65536.0, 2147483648.0, 1e38)]
_F32 += [0x7F800000, 0xFF800000, 0x7FC00001, 0x00000001]


def biased64(rng):
    """Boundary-biased 64-bit value: 0, +-1, 2^k, 2^k - 1, sign boundaries of 8/16/32/64 bits, random."""
    c = rng.below(10)
    if c == 0:
        return rng.pick((0, 1, 2, M64, M64 - 1, 0x7F, 0x80, 0xFF, 0x100, 0x7FFF, 0x8000, 0xFFFF, 0x10000, 0x7FFFFFFF, 0x80000000, 0xFFFFFFFF, 0x100000000, 0x7FFFFFFFFFFFFFFF, 0x8000000000000000))
    if c == 1:
        k = rng.below(64)
        return ((1 << k) - rng.below(2)) & M64
    if c == 2:
        k = rng.below(64)
        return (-(1 << k) + rng.below(2)) & M64
    if c == 3:
        return rng.below(256)
    if c == 4:
        return (-rng.below(256)) & M64
    if c == 5:
        return rng.next() & 0xFFFFFFFF
    return rng.next()


def biased_xmm(rng):
    c = rng.below(6)
    if c == 0:
        lo = rng.pick(_F64)
    elif c == 1:
        lo = rng.pick(_F32) | (rng.next() & 0xFFFFFFFF00000000)
    elif c == 2:
        lo = rng.pick(_F32) | (rng.pick(_F32) << 32)
    elif c == 3:
        # moderate doubles: random mantissa, exponent near 1.0
        lo = (rng.next() & 0x800FFFFFFFFFFFFF) | ((1023 + rng.below(40) - 20) << 52)
    elif c == 4:
        # moderate singles in both lanes
        a = (rng.next() & 0x807FFFFF) | ((127 + rng.below(40) - 20) << 23)
        b = (rng.next() & 0x807FFFFF) | ((127 + rng.below(40) - 20) << 23)
        lo = a | (b << 32)
    else:
        lo = rng.next()
    hi = rng.pick(_F64) if rng.below(3) == 0 else rng.next()
    return lo | (hi << 64)


def random_state(rng):
    return {
        "g": [biased64(rng) for _ in range(16)],
        "f": rng.next() & FLAG_MASK,
        "x": [biased_xmm(rng) for _ in range(16)],
    }


def copy_state(st):
    return {"g": list(st["g"]), "f": st["f"], "x": list(st["x"])}
